"""Generators for C17: a small UFO on which every automatic feature writer has something to write
(kerning + groups, mark / mark-to-mark / ligature anchors, entry/exit anchors, caret anchors,
optional public.openTypeCategories, optional Arabic and Devanagari glyphs) and a user feature file
assembled from languagesystem statements, glyph class definitions, markClass definitions, named
lookups, GSUB features (single / alternate / ligature substitutions) and hand-written
kern / mark / mkmk / curs blocks and `table GDEF`, with the `# Automatic Code` marker at the
top / middle / bottom / alone / mis-cased.

Everything returned is JSON-serialisable; the feature file is plain text (the oracle parses it
back with feaLib, it does not rely on the generator's knowledge of the structure).
"""

MARKER = "# Automatic Code"
MISCASED = ["# automatic code", "# AUTOMATIC CODE", "# Automatic code", "# automatic Code"]

TRI = [[0, 0, "line"], [100, 0, "line"], [50, 100, "line"]]

UPPER = ["A", "B", "O"]
LOWER = ["a", "b", "c", "o"]
LOWER_ALT = ["a.alt", "b.alt", "c.alt", "o.alt"]
TOP_MARKS = ["acutecomb", "gravecomb"]
BOTTOM_MARKS = ["dotbelowcomb", "cedillacomb"]
CODEPOINTS = {
    "A": 0x41, "B": 0x42, "O": 0x4F, "a": 0x61, "b": 0x62, "c": 0x63, "o": 0x6F, "f": 0x66,
    "i": 0x69, "period": 0x2E, "acutecomb": 0x301, "gravecomb": 0x300, "dotbelowcomb": 0x323,
    "cedillacomb": 0x327, "alef-ar": 0x627, "beh-ar": 0x628, "fatha-ar": 0x64E,
    "ka-deva": 0x915, "ga-deva": 0x917, "anusvara-deva": 0x902, "nukta-deva": 0x93C,
}


def _glyph(name, width=500, anchors=()):
    return {"name": name, "width": width,
            "unicodes": [CODEPOINTS[name]] if name in CODEPOINTS else [],
            "contours": [[list(p) for p in TRI]],
            "anchors": [{"name": n, "x": x, "y": y} for n, x, y in anchors]}


def gen_ufo(rng):
    """-> (ufo spec without features, facts) where facts names the glyph groups the feature-file
    generator may use."""
    arabic = rng.random() < 0.3
    deva = rng.random() < 0.2
    jig = lambda v: v + rng.choice([0, 0, 10, -10, 25, 33])  # noqa: E731
    glyphs = []
    curs_pool = ["a", "b", "c", "o"]
    rng.shuffle(curs_pool)
    curs_glyphs = sorted(curs_pool[:rng.randint(2, 4)])
    for n in UPPER:
        an = [("top", jig(250), 700), ("bottom", jig(250), 0)]
        glyphs.append(_glyph(n, 600, an))
    for n in LOWER:
        an = [("top", jig(250), 500), ("bottom", jig(250), 0)]
        if n in curs_glyphs:
            an += [("entry", 0, jig(0)), ("exit", 500, jig(0))]
        glyphs.append(_glyph(n, 500, an))
    for n in LOWER_ALT + ["a.sc", "i.loclTRK"]:
        glyphs.append(_glyph(n, 500, [("top", jig(250), 500)] if rng.random() < 0.7 else []))
    glyphs.append(_glyph("f", 300, [("top", 150, 700)]))
    glyphs.append(_glyph("i", 250, [("top", 125, 500)]))
    glyphs.append(_glyph("period", 200))
    carets = rng.random() < 0.6
    for n in ["f_i", "f_f"]:
        an = [("top_1", 150, 700), ("top_2", jig(420), 700)]
        if carets:
            an.append(("caret_1", jig(300), 0))
        glyphs.append(_glyph(n, 560, an))
    for n in TOP_MARKS:
        glyphs.append(_glyph(n, 0, [("_top", 0, jig(500)), ("top", 0, jig(720))]))
    for n in BOTTOM_MARKS:
        glyphs.append(_glyph(n, 0, [("_bottom", 0, 0), ("bottom", 0, jig(-200))]))
    if arabic:
        glyphs.append(_glyph("alef-ar", 300, [("top", 150, 800), ("exit", 0, 0)]))
        glyphs.append(_glyph("beh-ar", 700, [("top", 350, 500), ("entry", 700, 0), ("exit", 0, 0)]))
        glyphs.append(_glyph("beh-ar.init", 400, [("top", 200, 500), ("exit", 0, 0)]))
        glyphs.append(_glyph("fatha-ar", 0, [("_top", 0, 500)]))
    if deva:
        glyphs.append(_glyph("ka-deva", 700, [("top", 350, 700), ("bottom", 350, 0)]))
        glyphs.append(_glyph("ga-deva", 700, [("top", 350, 700), ("bottom", jig(350), 0)]))
        glyphs.append(_glyph("anusvara-deva", 0, [("_top", 0, 700)]))
        glyphs.append(_glyph("nukta-deva", 0, [("_bottom", 0, 0)]))
    rng.shuffle(glyphs)
    names = [g["name"] for g in glyphs]

    groups = {}
    if rng.random() < 0.8:
        groups["public.kern1.UC"] = rng.sample(UPPER, rng.randint(1, 3))
    if rng.random() < 0.8:
        groups["public.kern2.lc"] = rng.sample(LOWER + LOWER_ALT, rng.randint(1, 4))
    if rng.random() < 0.4:
        groups["public.kern1.lc"] = rng.sample(LOWER, 2)
    kerning = []
    vals = [-80, -50, -30, -20, -10, 10, 20, 40]
    firsts = UPPER + LOWER + ["f", "period"] + [k for k in groups if k.startswith("public.kern1.")]
    seconds = UPPER + LOWER + LOWER_ALT + ["period"] + [k for k in groups
                                                       if k.startswith("public.kern2.")]
    seen = set()
    # one glyph-glyph Latin pair is always present so that the kern writer has something to write
    kerning.append(["A", "a", rng.choice(vals)])
    seen.add(("A", "a"))
    for _ in range(rng.randint(2, 9)):
        p = (rng.choice(firsts), rng.choice(seconds))
        if p not in seen:
            seen.add(p)
            kerning.append([p[0], p[1], rng.choice(vals)])
    if rng.random() < 0.3:
        kerning.append(["a", "acutecomb", rng.choice(vals)])
    if arabic:
        kerning.append(["beh-ar", "alef-ar", rng.choice(vals)])
    if deva:
        kerning.append(["ka-deva", "ga-deva", rng.choice(vals)])

    lib = {}
    categories = rng.random() < 0.6
    if categories:
        cats = {}
        for g in glyphs:
            n = g["name"]
            if any(a["name"].startswith("_") for a in g["anchors"]):
                cats[n] = "mark"
            elif n in ("f_i", "f_f"):
                cats[n] = "ligature"
            elif n != "period" or rng.random() < 0.5:
                cats[n] = "base"
        lib["public.openTypeCategories"] = cats
    spec = {"info": {"unitsPerEm": 1000, "familyName": "T", "styleName": "R"}, "glyphs": glyphs,
            "kerning": kerning, "groups": groups, "lib": lib}
    facts = {"arabic": arabic, "deva": deva, "names": names, "curs_glyphs": curs_glyphs,
             "categories": categories, "carets": carets}
    return spec, facts


# ------------------------------------------------------------------------------------------------
# feature file

def _comment(rng):
    # (the last three CONTAIN the marker text without starting with it - a commented-out marker,
    # a remark about it: ordinary comments)
    return rng.choice(["# note", "# hand-written", "# TODO check", "#", "# keep: Automatic",
                       "# code below", "# # Automatic Code", "## Automatic Code",
                       "# no # Automatic Code marker here"])


def _block(kind, name, lines, rng=None, ext=False):
    head = "%s %s%s {" % (kind, name, " useExtension" if ext else "")
    return "\n".join([head] + ["    " + l for l in lines] + ["} %s;" % name])


def _with_marker(rng, stmts, placement):
    """stmts: list of statement groups (each a list of lines that stay together, e.g. a nested
    lookup).  placement: none / top / middle / bottom / alone / miscased / two."""
    flat = lambda gs: [l for g in gs for l in g]  # noqa: E731
    deco = lambda: [_comment(rng)] if rng.random() < 0.25 else []  # noqa: E731
    if placement == "empty":
        # a block the user wrote with nothing in it (not even a comment): still the user's
        return []
    if placement == "alone":
        return deco() + [MARKER] + deco()
    if placement == "none":
        out = []
        for g in stmts:
            out += deco() + g
        return out
    marker = MARKER
    if placement == "miscased":
        marker = rng.choice(MISCASED)
        placement = rng.choice(["top", "middle", "bottom"])
    if placement == "middle" and len(stmts) < 2:
        placement = rng.choice(["top", "bottom"])
    if placement == "top":
        return deco() + [marker] + deco() + flat(stmts)
    if placement == "bottom":
        return flat(stmts) + deco() + [marker] + deco()
    if placement == "two":
        k = rng.randint(0, len(stmts))
        k2 = rng.randint(k, len(stmts))
        return flat(stmts[:k]) + [marker] + flat(stmts[k:k2]) + deco() + [MARKER] + flat(stmts[k2:])
    k = rng.randint(1, len(stmts) - 1)
    return flat(stmts[:k]) + deco() + [marker] + deco() + flat(stmts[k:])


def _placement(rng):
    if rng.random() < 0.06:
        return "empty"
    return rng.choice(["none", "none", "top", "middle", "middle", "bottom", "alone", "miscased",
                       "miscased", "two"] if rng.random() < 0.9 else ["two"])


def _kern_groups(rng, facts, toplookups, uid):
    pool = [
        "pos A B %d;" % rng.choice([-30, -10, 15]),
        "pos B A %d;" % rng.choice([-30, -10, 15]),
        "pos O a %d;" % rng.choice([-40, 20]),
        "pos @UC a %d;" % rng.choice([-25, 10]),
        "pos [A B] [a b c] %d;" % rng.choice([-5, 5]),
        "enum pos A [o c] %d;" % rng.choice([-7, 7]),
        "pos f period %d;" % rng.choice([-12, 12]),
        "pos a.alt b <%d 0 %d 0>;" % (rng.choice([0, 5]), rng.choice([-9, 9])),
    ]
    if facts["arabic"]:
        pool.append("pos beh-ar alef-ar <-20 0 -20 0>;")
    rng.shuffle(pool)
    groups = [[p] for p in pool[:rng.randint(1, 4)]]
    if rng.random() < 0.3:
        groups.insert(0, ["lookupflag IgnoreMarks;"])
    if rng.random() < 0.2:
        groups.insert(0, ["script latn;", "language dflt;"])
    if rng.random() < 0.3:
        nm = "UK%d" % uid
        groups.insert(rng.randint(0, len(groups)),
                      ["lookup %s {" % nm, "    pos c o %d;" % rng.choice([-3, 3]), "} %s;" % nm])
    if toplookups and rng.random() < 0.5:
        groups.insert(rng.randint(0, len(groups)), ["lookup %s;" % rng.choice(toplookups)])
    return groups


def _mark_groups(rng, facts, mclass):
    pool = [
        "pos base a <anchor 250 500> mark @%s;" % mclass,
        "pos base [A B] <anchor 250 700> mark @%s;" % mclass,
        "pos base o <anchor 240 510> mark @%s;" % mclass,
        "pos base c <anchor 260 505> mark @%s;" % mclass,
    ]
    rng.shuffle(pool)
    groups = [[p] for p in pool[:rng.randint(1, 3)]]
    if rng.random() < 0.3:
        groups.append(["pos ligature f_i <anchor 150 700> mark @%s ligComponent <anchor NULL>;"
                       % mclass])
    if rng.random() < 0.25:
        groups.insert(0, ["lookup UMK {", "    pos base b <anchor 250 500> mark @%s;" % mclass,
                          "} UMK;"])
    return groups


def _mkmk_groups(rng, facts, mclass):
    pool = ["pos mark acutecomb <anchor 0 720> mark @%s;" % mclass,
            "pos mark gravecomb <anchor 0 730> mark @%s;" % mclass]
    rng.shuffle(pool)
    groups = [[p] for p in pool[:rng.randint(1, 2)]]
    if rng.random() < 0.3:
        groups.insert(0, ["lookupflag MarkAttachmentType @%s;" % mclass])
    return groups


def _curs_groups(rng, facts):
    pool = ["pos cursive a <anchor 0 0> <anchor 500 0>;",
            "pos cursive b <anchor NULL> <anchor 500 10>;",
            "pos cursive c <anchor 0 5> <anchor NULL>;",
            "pos cursive o <anchor 10 0> <anchor 490 0>;"]
    if facts["arabic"]:
        pool.append("pos cursive beh-ar <anchor 700 0> <anchor 0 0>;")
    rng.shuffle(pool)
    groups = [[p] for p in pool[:rng.randint(1, 3)]]
    if rng.random() < 0.4:
        groups.insert(0, ["lookupflag RightToLeft IgnoreMarks;" if rng.random() < 0.5
                          else "lookupflag IgnoreMarks;"])
    return groups


def _gsub_feature(rng, facts, toplookups, uid):
    """-> (tag, lines)"""
    kind = rng.choice(["liga", "single", "single_class", "alt", "smcp", "locl", "named", "ref",
                       "init"])
    if kind == "init" and not facts["arabic"]:
        kind = "single"
    if kind == "ref" and not toplookups:
        kind = "alt"
    lines = []
    if kind == "liga":
        tag = rng.choice(["liga", "dlig"])
        lines = rng.sample(["sub f i by f_i;", "sub f f by f_f;"], rng.randint(1, 2))
    elif kind == "single":
        tag = rng.choice(["salt", "ss01", "ss02"])
        src = rng.sample(LOWER, rng.randint(1, 3))
        lines = ["sub %s by %s.alt;" % (s, s) for s in src]
    elif kind == "single_class":
        tag = rng.choice(["ss03", "ss04", "calt"])
        lines = [rng.choice(["sub @LC by @LC_ALT;", "sub [a b c] by [a.alt b.alt c.alt];",
                             "sub [a - c] by [a.alt b.alt c.alt];", "sub @LC3 by @LC3_ALT;"])]
    elif kind == "alt":
        tag = rng.choice(["salt", "aalt", "ss05"])
        lines = ["sub a from [a.alt a.sc];"]
        if rng.random() < 0.5:
            lines.append("sub o from [o.alt];")
    elif kind == "smcp":
        tag = rng.choice(["smcp", "c2sc"])
        lines = ["sub a by a.sc;"]
    elif kind == "locl":
        tag = "locl"
        lines = ["script latn;", "language TRK exclude_dflt;" if rng.random() < 0.5
                 else "language TRK;", "sub i by i.loclTRK;"]
    elif kind == "named":
        tag = rng.choice(["ss06", "ss07"])
        nm = "US%d" % uid
        ext = " useExtension" if rng.random() < 0.3 else ""
        lines = ["lookup %s%s {" % (nm, ext)]
        if rng.random() < 0.4:
            lines.append("    lookupflag IgnoreMarks;")
        lines += ["    sub b by b.alt;", "} %s;" % nm]
        if rng.random() < 0.5:
            lines.append("sub f i by f_i;")
    elif kind == "ref":
        tag = rng.choice(["ss08", "ss09"])
        lines = ["lookup %s;" % rng.choice(toplookups)]
        if rng.random() < 0.3:
            lines.insert(0, "script latn;")
    else:
        tag = "init"
        lines = ["script arab;", "sub beh-ar by beh-ar.init;"]
    if rng.random() < 0.15:
        lines.insert(rng.randint(0, len(lines)) if kind not in ("named",) else 0, _comment(rng))
    return tag, lines


def gen_fea(rng, facts, want=None, collide=None, ext_split=False, mfs=False):
    """Assemble a user feature file.  `want` optionally forces the set of hand-written GPOS
    blocks, e.g. {"kern": "middle"}.  Dedicated strata (mechanisms that are known to disagree
    with the statement, kept out of the default stratum):
      collide   = name of a top-level user lookup that equals a name the writers generate
      ext_split = the hand-written blocks carry `useExtension` even when the marker splits them
      mfs       = a GSUB feature with `lookupflag UseMarkFilteringSet` is added
    Returns (text, summary)."""
    out = []
    # 1. languagesystems
    ls_choice = rng.choice(["none", "dflt", "dflt_latn", "dflt_latn", "dflt_latn_trk", "latn_only"])
    ls = {"none": [], "dflt": ["DFLT dflt"], "dflt_latn": ["DFLT dflt", "latn dflt"],
          "dflt_latn_trk": ["DFLT dflt", "latn dflt", "latn TRK"], "latn_only": ["latn dflt"]}[
              ls_choice]
    if ls and facts["arabic"] and rng.random() < 0.7:
        ls.append("arab dflt")
    if ls and facts["deva"] and rng.random() < 0.7:
        ls.append(rng.choice(["dev2 dflt", "deva dflt"]))
    for l in ls:
        out.append("languagesystem %s;" % l)
    if rng.random() < 0.1:
        out.append(MARKER + " (at file level, not inside a feature)")
    # 2. class definitions (always: they are referenced by some templates)
    cls = ["@UC = [A B O];", "@LC = [a b c o];", "@LC_ALT = [a.alt b.alt c.alt o.alt];",
           "@LC3 = [a - c];", "@LC3_ALT = [a.alt b.alt c.alt];"]
    if rng.random() < 0.3:
        cls.append("@ALL_LC = [@LC @LC_ALT a.sc];")
    out += cls
    if rng.random() < 0.2:
        out.append(_comment(rng))
    # 3. hand-written GPOS plan
    tags = ["kern", "mark", "mkmk", "curs"]
    plan = {}
    if want is None:
        for t in tags:
            if rng.random() < 0.55:
                plan[t] = _placement(rng)
    else:
        plan = dict(want)
    mclass = rng.choice(["UM_top", "UM_top", "MC_top", "MC_top_1", "MARKS"])
    if "mark" in plan or "mkmk" in plan:
        same = rng.random() < 0.3
        out.append("markClass acutecomb <anchor 0 %d> @%s;" % (500 if same else 480, mclass))
        if rng.random() < 0.6:
            out.append("markClass [gravecomb] <anchor 0 %d> @%s;" % (500 if same else 470, mclass))
    # 3b. hand-written above-/below-base mark features of an Indic script (never with a marker):
    # the mark writer generates abvm and blwm as a PAIR, either may be the user's own
    indic = []
    if facts["deva"] and want is None and rng.random() < 0.5:
        indic = rng.choice([["abvm"], ["abvm"], ["blwm"], ["abvm", "blwm"], ["dist"],
                            ["dist"], ["dist", "abvm"]])
        if "abvm" in indic:
            out.append("markClass anusvara-deva <anchor 0 690> @UM_abvm;")
        if "blwm" in indic:
            out.append("markClass nukta-deva <anchor 0 -15> @UM_blwm;")
    # 4. top-level lookups
    gsub_top, gpos_top = [], []
    if rng.random() < 0.4:
        gsub_top.append("USUBTOP")
        out.append(_block("lookup", "USUBTOP", ["sub c by c.alt;"], ext=rng.random() < 0.2))
    if "kern" in plan and rng.random() < 0.4:
        nm = rng.choice(["UKTOP", "UKTOP", "kern_user"])
        gpos_top.append(nm)
        out.append(_block("lookup", nm, ["pos A O -12;"], ext=rng.random() < 0.2))
    if collide:
        gpos_top.append(collide)
        out.append(_block("lookup", collide, ["pos A O -12;"]))
    # 5. feature blocks, shuffled
    blocks = []
    used_tags = set()
    uid = [0]
    if mfs:
        used_tags.add("ss10")
        blocks.append(("gsub", _block("feature", "ss10", [
            "lookupflag UseMarkFilteringSet [%s];" % rng.choice(
                ["gravecomb", "acutecomb gravecomb", "dotbelowcomb"]), "sub a by a.alt;"])))
    for _ in range(rng.randint(0, 4) if rng.random() < 0.95 else 0):
        uid[0] += 1
        tag, lines = _gsub_feature(rng, facts, gsub_top, uid[0])
        if tag in used_tags and rng.random() < 0.7:
            continue
        used_tags.add(tag)
        blocks.append(("gsub", _block("feature", tag, lines)))
    for t in indic:
        if t == "dist":
            # the kern writer's second tag (kerning of Indic scripts goes to 'dist')
            lines = ["pos ka-deva ga-deva -33;"]
        elif t == "abvm":
            lines = ["pos base ka-deva <anchor 350 690> mark @UM_abvm;"]
            if rng.random() < 0.5:
                lines.append("pos base ga-deva <anchor 340 690> mark @UM_abvm;")
        else:
            lines = ["pos base ga-deva <anchor 350 -15> mark @UM_blwm;"]
        blocks.append(("gsub", _block("feature", t, lines)))     # 'gsub' = rendered as is
    plain_tags = sorted(t for t in used_tags if t not in ("aalt", "locl", "init", "ss10"))
    if plain_tags and "aalt" not in used_tags and rng.random() < 0.15:
        refs = rng.sample(plain_tags, rng.randint(1, min(2, len(plain_tags))))
        blocks.insert(0, ("gsub", _block("feature", "aalt", ["feature %s;" % r for r in refs])))
    for t, placement in plan.items():
        n_blocks = 2 if (rng.random() < 0.2 and placement not in ("alone", "empty")) else 1
        for bi in range(n_blocks):
            uid[0] += 1
            if t == "kern":
                groups = _kern_groups(rng, facts, gpos_top, uid[0])
            elif t == "mark":
                groups = _mark_groups(rng, facts, mclass) if bi == 0 else [
                    ["pos base i <anchor 125 500> mark @%s;" % mclass]]
            elif t == "mkmk":
                groups = _mkmk_groups(rng, facts, mclass) if bi == 0 else [
                    ["pos mark dotbelowcomb <anchor 0 -300> mark @%s;" % mclass]]
            else:
                groups = _curs_groups(rng, facts) if bi == 0 else [
                    ["pos cursive i <anchor 0 0> <anchor 250 0>;"]]
            blocks.append((t, (t, groups, placement, bi, n_blocks)))
    # with two blocks of one tag the marker goes into one of them (chosen at random)
    marker_block = {t: rng.randint(0, 1) for t in tags}
    rendered = []
    for kind, b in blocks:
        if kind == "gsub":
            rendered.append(b)
            continue
        t, groups, pl, bi, n_blocks = b
        if n_blocks == 2 and bi != marker_block[t]:
            pl = "none"
        lines = _with_marker(rng, groups, pl)
        ext = ext_split or (rng.random() < 0.15 and pl in ("none", "top", "bottom", "alone",
                                                            "miscased"))
        rendered.append(_block("feature", t, lines, ext=ext))
    # keep blocks of the same hand-written tag in their relative order, shuffle the rest
    order = list(range(len(rendered)))
    rng.shuffle(order)
    # restore relative order among blocks of the same GPOS tag (bi order)
    pos_by_tag = {}
    for i in order:
        kind = blocks[i][0]
        pos_by_tag.setdefault(kind, []).append(i)
    final = []
    taken = {k: 0 for k in pos_by_tag}
    for i in order:
        kind = blocks[i][0]
        if kind == "gsub":
            final.append(rendered[i])
        else:
            idxs = sorted(pos_by_tag[kind])
            final.append(rendered[idxs[taken[kind]]])
            taken[kind] += 1
    # 6. table GDEF
    gdef = None
    if rng.random() < 0.3:
        lines = []
        r = rng.random()
        if r < 0.7:
            names = facts["names"]
            bases = [n for n in names if n not in ("f_i", "f_f") and n not in TOP_MARKS
                     + BOTTOM_MARKS + ["fatha-ar", "anusvara-deva", "nukta-deva"]]
            ligs = [n for n in names if n in ("f_i", "f_f")]
            marks = [n for n in names if n in TOP_MARKS + BOTTOM_MARKS + ["fatha-ar",
                                                                         "anusvara-deva",
                                                                         "nukta-deva"]]
            lines.append("GlyphClassDef [%s], [%s], [%s], ;" % (" ".join(sorted(bases)),
                                                               " ".join(sorted(ligs)),
                                                               " ".join(sorted(marks))))
        if r > 0.4:
            how = rng.choice(["pos", "pos", "index", "both"])
            if how in ("pos", "both"):
                lines.append("LigatureCaretByPos f_i %d;" % rng.choice([280, 300]))
            if how in ("index", "both"):
                # carets given as contour point indices only: still the user's carets
                lines.append("LigatureCaretByIndex f_f 1;")
        gdef = _block("table", "GDEF", lines)
        final.insert(rng.randint(0, len(final)), gdef)
    # 7. other hand-written table blocks, before and / or after the GDEF block
    if rng.random() < 0.3:
        others = [_block("table", "hhea", ["CaretOffset %d;" % rng.choice([0, 5, -3])]),
                  _block("table", "OS/2", ["Panose 2 11 6 3 3 8 4 2 2 4;"]),
                  _block("table", "head", ["FontRevision 1.%d;" % rng.choice([1, 25])])]
        rng.shuffle(others)
        for blk in others[:rng.randint(1, 2)]:
            final.insert(rng.randint(0, len(final)), blk)
    out += final
    if rng.random() < 0.15:
        out.append(_comment(rng))
    text = "\n".join(out) + "\n"
    return text, {"plan": plan, "languagesystems": ls, "gdef": gdef is not None,
                  "indic_hand_written": indic,
                  "n_gsub_features": sum(1 for k, _ in blocks if k == "gsub")}


# ------------------------------------------------------------------------------------------------
# writer lists

BUILTIN = ["CursFeatureWriter", "KernFeatureWriter", "MarkFeatureWriter", "GdefFeatureWriter"]
HARNESS = {"module": "vf.props.c17", "class": "HarnessGsubWriter"}


def _wdict(rng, cls, append_p=0.35):
    d = {"class": cls}
    opts = {}
    if cls != "GdefFeatureWriter" and rng.random() < append_p:
        opts["mode"] = "append"
    elif cls != "GdefFeatureWriter" and rng.random() < 0.15:
        opts["mode"] = "skip"
    if cls == "MarkFeatureWriter" and rng.random() < 0.15:
        opts["features"] = rng.choice([["mark"], ["mkmk"], ["mark", "mkmk"]])
    if cls == "KernFeatureWriter" and rng.random() < 0.2:
        opts["ignoreMarks"] = False
    if cls == "MarkFeatureWriter" and rng.random() < 0.1:
        opts["groupMarkClasses"] = True
    if opts:
        d["options"] = opts
    return d


def gen_writers(rng):
    """-> writer configuration:
       {"kind": "default"}
       {"kind": "lib", "lib": [wdict...]}                      featureWriters=None, list in font.lib
       {"kind": "explicit", "list": ["..." | wdict(+"as")], "lib": [wdict...] | None}
    Every built-in writer class occurs at most once in the effective list - except in the form
    'ellipsis_default_dup' (one writer in front of the ellipsis and again among the defaults); the
    harness GSUB writer, when present, is the LAST entry."""
    r = rng.random()
    if r < 0.25:
        return {"kind": "default"}
    classes = list(BUILTIN)
    if r < 0.55:
        rng.shuffle(classes)
        k = rng.randint(1, 4)
        lst = [_wdict(rng, c) for c in classes[:k]]
        if rng.random() < 0.4:
            lst.append(dict(HARNESS))
        return {"kind": "lib", "lib": lst}
    # explicit
    form = rng.choice(["ellipsis_default", "ellipsis_lib", "no_ellipsis", "ellipsis_default",
                       "ellipsis_default_dup"])
    harness = dict(HARNESS, **{"as": rng.choice(["class", "instance"])})
    if form == "ellipsis_default_dup":
        # a positioning writer named explicitly in front of the ellipsis AND again among the
        # defaults the ellipsis stands for: the first one generates (or fills the marker), the
        # second finds the feature present and must leave it alone
        first = dict(_wdict(rng, rng.choice(["KernFeatureWriter", "MarkFeatureWriter",
                                             "CursFeatureWriter"]), append_p=0.0),
                     **{"as": rng.choice(["class", "instance"])})
        # (both in skip mode: an APPEND-mode writer followed by a second writer that honours
        # the user's marker adds the rules twice by configuration)
        if (first.get("options") or {}).get("mode"):
            del first["options"]["mode"]
        if "options" in first and not first["options"]:
            del first["options"]
        if "options" in first:
            first["as"] = "instance"
        lst = [first, "..."]
        if rng.random() < 0.5:
            lst.append(harness)
        return {"kind": "explicit", "list": lst, "lib": None}
    if form == "ellipsis_default":
        lst = ["..."]
        if rng.random() < 0.85:
            lst.append(harness)
        return {"kind": "explicit", "list": lst, "lib": None}
    rng.shuffle(classes)
    if form == "ellipsis_lib":
        k = rng.randint(1, 3)
        lib = [_wdict(rng, c) for c in classes[:k]]
        rest = classes[k:]
        extra = [dict(_wdict(rng, c), **{"as": "instance"}) for c in rest[:rng.randint(0, len(rest))]]
        for e in extra:
            if "options" not in e and rng.random() < 0.5:
                e["as"] = "class"
        cut = rng.randint(0, len(extra))
        lst = extra[:cut] + ["..."] + extra[cut:]
        if rng.random() < 0.85:
            lst.append(harness)
        return {"kind": "explicit", "list": lst, "lib": lib}
    k = rng.randint(1, 4)
    lst = [dict(_wdict(rng, c), **{"as": "instance"}) for c in classes[:k]]
    for e in lst:
        if "options" not in e and rng.random() < 0.5:
            e["as"] = "class"
    if rng.random() < 0.85:
        lst.append(harness)
    # a lib list that must be IGNORED because the explicit list has no ellipsis
    lib = [_wdict(rng, c) for c in rng.sample(BUILTIN, 2)] if rng.random() < 0.3 else None
    return {"kind": "explicit", "list": lst, "lib": lib}
