"""Seeded generator of COMPATIBLE MASTER FAMILIES delivered as a designspace description
(reusable: C19 instances, C09 interpolatable compilation, C10 variable fonts).

`family(rng, **opts)` returns a JSON-serialisable dict in the format `vf.build.build_designspace`
accepts:

    {"axes":    [{"name", "tag", "min", "default", "max", "map"?}],      user coordinates + map
     "ufos":    [ufo spec, ...]            format documented at the top of vf/build.py
     "sources": [{"ufo": index into ufos, "location": {axisname: DESIGN value},
                  "layerName"?: str, "name": str}],
     "rules":   [{"name", "conditionSets": [[{"name", "minimum", "maximum"}]], "subs": [[a, b]]}],
     "lib": {}, "instances": [],
     "meta":    {...}}        what was generated (for counters / strata; ignored by the builder)

How compatibility is obtained: ONE random master is drawn (glyph set, contours, components,
anchors, groups, kerning keys, info) and every other master is a perturbation of its NUMBERS only
(point coordinates, advances, anchor positions, component offsets - and 2x2 entries when
`comp_2x2` -, kerning values, info numbers).  Contour count, point count, point types, component
order/base glyphs, anchor names and - for full masters - the glyph set are therefore identical by
construction.

Layouts (all inside the closed forms of vf/ref/varmodel.py):

* 1 axis, 2-4 full masters: both axis extremes plus 0-2 intermediate masters; the default master
  is any of them (`default_pos` "min" | "max" | "mid");
* 2 axes: default at a corner of the design space, one on-axis master at the other extreme of
  each axis, the opposite corner ("(1,1)") optional (`corner11`); or (`default_pos="mid"`)
  axis 0 with the default strictly inside and masters at both ends, no corner master;
* sparse layer master (`sparse`): an extra LAYER in one master UFO holding a subset of the glyphs,
  referenced by a source with `layerName`, at an INTERMEDIATE on-axis location;
* `missing_glyph`: one glyph removed from a non-default, non-extreme full master (intermediate
  master on 1 axis, corner master on 2 axes) - that master is sparse for this glyph;
  `extra_glyph`: one glyph that exists only in a non-default master (must be ignored);
* axis maps (`axis_map`): user -> design piecewise-linear maps whose knots include min / default /
  max (so the mapped bounds are exact); source locations and rule conditions are in DESIGN
  coordinates as the designspace format demands.

Options (None / missing = drawn at random):
  n_axes 1|2, n_masters 2..4 (1 axis), default_pos, corner11, sparse, axis_map, n_glyphs 4..10,
  kinds (segment kinds, subset of line/curve/qcurve), coord_mode "int"|"half"|"dyadic"|"float",
  components, comp_2x2, anchors, info, os2_classes (masters define OS/2 weight/width class),
  kerning "none"|"aligned"|"ragged", kern_values "int"|"quarter"|"half",
  kern_conflict (ragged only; True: one master holds (glyph, group) AND (group, glyph) for a pair
  whose glyph-glyph key exists only in another master - the UFO lookup order is then ambiguous;
  "split": additionally the masters lacking the glyph-glyph key keep different halves),
  rules 0..2, rule_cross_ref (the alternate of a rule pair has a component of its base glyph;
  default False), missing_glyph, extra_glyph, omit_default_axes, shuffle_sources.
"""
import copy

from vf.gen import outlines

UNI = {"a": 0x61, "b": 0x62, "c": 0x63, "d": 0x64, "e": 0x65, "f": 0x66, "g": 0x67, "h": 0x68,
       "n": 0x6E, "o": 0x6F, "s": 0x73, "A": 0x41, "B": 0x42, "E": 0x45, "H": 0x48, "O": 0x4F,
       "T": 0x54, "V": 0x56, "one": 0x31, "two": 0x32, "period": 0x2E, "comma": 0x2C,
       "hyphen": 0x2D, "space": 0x20, "acutecomb": 0x301, "dieresiscomb": 0x308}
NAME_POOL = [n for n in UNI if n != "space"]
ANCHOR_POOL = ["top", "bottom", "_top", "_bottom", "ogonek", "entry", "exit", "caret_1", "center"]

AXIS_KINDS = {
    # tag: (name, user (lo, hi) choices)
    "wght": ("Weight", [(100, 900), (300, 700), (1, 1000)]),
    "wdth": ("Width", [(50, 200), (75, 125), (62.5, 150)]),
    "opsz": ("Optical Size", [(8, 72), (6, 144)]),
    "slnt": ("Slant", [(-20, 0), (-12, 12)]),
    "CUST": ("custom", [(0, 1), (0, 1000), (-1, 1), (0, 100)]),
}
DESIGN_RANGES = [(0, 1000), (20, 200), (0, 1), (-100, 100), (34, 194), (0, 8)]

INFO_NUMBER = ["ascender", "descender", "xHeight", "capHeight", "postscriptUnderlinePosition",
               "postscriptUnderlineThickness"]
INFO_INTEGER = ["openTypeOS2TypoAscender", "openTypeOS2TypoDescender", "openTypeHheaAscender",
                "openTypeHheaDescender", "openTypeOS2WinAscent", "openTypeOS2TypoLineGap",
                # (more of the integer attributes fontMath interpolates)
                "openTypeHheaLineGap", "openTypeHheaCaretOffset", "openTypeOS2StrikeoutSize",
                "openTypeOS2StrikeoutPosition", "openTypeOS2SubscriptYSize",
                "openTypeVheaVertTypoAscender", "openTypeOS2WinDescent",
                "openTypeHeadLowestRecPPEM"]
NON_NEGATIVE_INFO = ("openTypeOS2WinAscent", "openTypeOS2WinDescent")
INFO_LIST = ["postscriptBlueValues", "postscriptStemSnapH"]


# ---------------------------------------------------------------------------------------------
# helpers
# ---------------------------------------------------------------------------------------------

def _opt(opts, key, draw):
    v = opts.get(key)
    return draw() if v is None else v


def _delta(rng, mode, span=40):
    """Perturbation of one number between masters."""
    if rng.random() < 0.15:
        return 0
    d = rng.randint(-span, span)
    if mode == "int":
        return d
    if mode == "half":
        return d + rng.choice([0, 0, 0.5])
    if mode == "dyadic":
        return d + rng.choice([0, 0.5, 0.25, 0.75, 0.125])
    r = rng.random()
    if r < 0.4:
        return round(d + rng.random(), 3)
    if r < 0.7:
        return d + rng.random()
    return d + rng.choice([0, 0.5])


def _between(rng, lo, hi, avoid=()):
    """A value strictly between lo and hi (integer when there is room, else a dyadic fraction)."""
    for _ in range(20):
        if hi - lo >= 4:
            v = rng.randint(int(lo) + 1, int(hi) - 1) if float(lo).is_integer() and float(hi).is_integer() \
                else lo + (hi - lo) * rng.choice([0.25, 0.5, 0.75])
        else:
            v = lo + (hi - lo) * rng.choice([0.25, 0.5, 0.75, 0.375, 0.625])
        if lo < v < hi and v not in avoid:
            return v
    return lo + (hi - lo) * 0.5


# ---------------------------------------------------------------------------------------------
# axes
# ---------------------------------------------------------------------------------------------

def make_axis(rng, tag, positions_wanted, default_pos, with_map):
    """One axis + the DESIGN positions of the masters on it.
    Returns (axis description, sorted design positions [lo, ..., hi], design default)."""
    name, user_ranges = AXIS_KINDS[tag]
    if rng.random() < 0.3:
        name = name.lower()
    ulo, uhi = rng.choice(user_ranges)
    if with_map:
        dlo, dhi = rng.choice(DESIGN_RANGES)
    else:
        dlo, dhi = ulo, uhi
    pos = [dlo, dhi]
    while len(pos) < positions_wanted:
        pos.append(_between(rng, dlo, dhi, avoid=pos))
    pos.sort()
    if default_pos == "min":
        ddef = pos[0]
    elif default_pos == "max":
        ddef = pos[-1]
    else:
        ddef = rng.choice(pos[1:-1])
    axis = {"name": name, "tag": tag}
    if with_map:
        # user knots: min, default, max (+ optional extra knot making the map non-linear);
        # strictly increasing in both coordinates
        knots = {dlo: ulo, dhi: uhi}
        if ddef not in knots:
            frac = (ddef - dlo) / (dhi - dlo)
            # deliberately NOT the linear image: bend the map at the default
            f2 = min(0.9, max(0.1, frac + rng.choice([-0.2, -0.1, 0.1, 0.2])))
            knots[ddef] = _nice(ulo + (uhi - ulo) * f2)
        if rng.random() < 0.6:
            extra = _between(rng, dlo, dhi, avoid=list(knots))
            if extra not in knots:
                ks = sorted(knots)
                below = max(k for k in ks if k < extra)
                above = min(k for k in ks if k > extra)
                t = rng.choice([0.3, 0.5, 0.7])
                u = _nice(knots[below] + (knots[above] - knots[below]) * t)
                if knots[below] < u < knots[above]:
                    knots[extra] = u
        axis["map"] = [[knots[k], k] for k in sorted(knots)]
        axis["min"], axis["max"] = ulo, uhi
        axis["default"] = knots[ddef]
    else:
        axis["min"], axis["default"], axis["max"] = dlo, ddef, dhi
    return axis, pos, ddef


def _nice(v):
    r = round(v)
    return r if abs(r - v) < 1e-9 or abs(v) > 20 else round(v, 2)


# ---------------------------------------------------------------------------------------------
# base master
# ---------------------------------------------------------------------------------------------

def base_master(rng, n_glyphs, kinds, coord_mode, components, anchors, n_rule_pairs,
                rule_cross_ref=False):
    """The one random master everything else is derived from: list of glyph specs (creation
    order) + the (glyph, alternate) pairs usable in rules.  Unless `rule_cross_ref`, neither glyph
    of a rule pair references the other through components (directly or transitively): swapping
    such a pair passes through a self-referencing component graph."""
    n_alt = min(n_rule_pairs, max(0, n_glyphs // 3))
    n_plain = max(2, n_glyphs - n_alt)
    names = rng.sample(NAME_POOL, min(n_plain, len(NAME_POOL)))
    if rng.random() < 0.5 and len(names) > 3:
        names[rng.randrange(len(names))] = "space"
    pairs = []
    cands = [n for n in names if n != "space"]
    for base in rng.sample(cands, min(n_alt, len(cands))):
        pairs.append([base, base + ".alt"])
    order = list(names)
    for base, alt in pairs:
        order.insert(rng.randint(order.index(base) + 1, len(order)), alt)
    cmode = {"int": "int", "half": "int", "dyadic": "dyadic", "float": "mixed"}[coord_mode]
    glyphs = []
    rule_names = {n for p in pairs for n in p}
    partner = {}
    for base, alt in pairs:
        partner[base], partner[alt] = alt, base
    closure = {}          # glyph -> set of glyphs reachable through components
    for i, name in enumerate(order):
        g = {"name": name, "width": rng.choice([rng.randint(150, 900), 600, 500]), "height": 0,
             "unicodes": [UNI[name]] if name in UNI else [], "contours": [], "components": [],
             "anchors": [], "lib": {}}
        if rng.random() < 0.1:
            g["height"] = rng.choice([1000, 800])
        if coord_mode in ("half", "float") and rng.random() < 0.3:
            g["width"] += 0.5
        if name == "space":
            closure[name] = set()
            glyphs.append(g)
            continue
        kind = "simple"
        r = rng.random()
        simple_before = [h["name"] for h in glyphs if h["name"] != "space"]
        if name in partner and not rule_cross_ref:
            simple_before = [n for n in simple_before
                             if n != partner[name] and partner[name] not in closure[n]]
        if components and simple_before and name not in rule_names:
            if r < 0.35:
                kind = "composite"
            elif r < 0.5:
                kind = "mixed"
        elif components and simple_before and r < 0.25:
            kind = "mixed"
        if kind in ("simple", "mixed"):
            for _ in range(rng.randint(1, 2)):
                g["contours"].append(outlines.contour(rng, cmode, tuple(kinds), closed=None,
                                                      max_seg=5, allow_degenerate=False))
        if kind in ("composite", "mixed"):
            # prefer glyphs involved in rules as bases, so that swaps have references to follow
            for _ in range(rng.randint(1, 2)):
                pref = [n for n in simple_before if n in rule_names]
                base = rng.choice(pref) if pref and rng.random() < 0.6 else rng.choice(simple_before)
                g["components"].append({"base": base, "t": _transform(rng)})
        if rule_cross_ref and name in partner and partner[name] in [h["name"] for h in glyphs] \
                and not any(c["base"] == partner[name] for c in g["components"]):
            # the alternate is built from its base glyph (e.g. a.alt = a + swash)
            g["components"].append({"base": partner[name], "t": _transform(rng)})
            if not g["contours"] and rng.random() < 0.5:
                g["contours"].append(outlines.contour(rng, cmode, tuple(kinds), closed=None,
                                                      max_seg=5, allow_degenerate=False))
        closure[name] = set()
        for c in g["components"]:
            closure[name] |= {c["base"]} | closure.get(c["base"], set())
        if anchors and rng.random() < 0.7:
            for an in rng.sample(ANCHOR_POOL, rng.randint(1, 3)):
                g["anchors"].append({"name": an, "x": rng.randint(0, 600), "y": rng.randint(-200, 800)})
        if rng.random() < 0.15:
            g["lib"] = {"com.test.glyphkey": [1, {"k": name}]}
        glyphs.append(g)
    return glyphs, pairs


def _transform(rng):
    r = rng.random()
    dx, dy = rng.randint(-200, 300), rng.randint(-200, 300)
    if r < 0.5:
        return [1, 0, 0, 1, dx, dy]
    if r < 0.8:
        return [rng.choice([0.5, 1.5, -1, 0.75, 1.25]), 0, 0, rng.choice([0.5, 1, 1.5, 0.75]), dx, dy]
    return [rng.choice([1, 0.5, 0.875]), rng.choice([0, 0.25, -0.125]),
            rng.choice([0, -0.25, 0.125]), rng.choice([1, 1.5]), dx, dy]


def perturb_glyph(rng, g, mode, comp_2x2=False):
    """A compatible variant of glyph spec g: same structure, different numbers."""
    h = copy.deepcopy(g)
    h["width"] = max(0, g["width"] + _delta(rng, mode, 120))
    if g.get("height"):
        h["height"] = g["height"] + _delta(rng, "int", 30)
    for c in h["contours"]:
        for p in c:
            p[0] += _delta(rng, mode)
            p[1] += _delta(rng, mode)
    for c in h["components"]:
        t = list(c["t"])
        t[4] += _delta(rng, mode)
        t[5] += _delta(rng, mode)
        if comp_2x2:
            t0 = list(t)
            for k in range(4):
                if rng.random() < 0.6:
                    t[k] += rng.choice([0.25, -0.25, 0.125, 0.5, -0.125])
            # a reference keeps its orientation in every master (a component that is mirrored
            # in some masters only is a stratum of its own, see C09)
            d0, d1 = t0[0] * t0[3] - t0[1] * t0[2], t[0] * t[3] - t[1] * t[2]
            if d0 * d1 <= 0:
                t[:4] = t0[:4]
        c["t"] = t
    for a in h["anchors"]:
        a["x"] += _delta(rng, mode)
        a["y"] += _delta(rng, mode)
    return h


# ---------------------------------------------------------------------------------------------
# kerning / groups / info
# ---------------------------------------------------------------------------------------------

def make_groups(rng, names, pairs):
    """Disjoint public.kern1.* / public.kern2.* partitions over some glyphs + a plain group."""
    groups = {}
    for side in ("public.kern1.", "public.kern2."):
        pool = [n for n in names]
        rng.shuffle(pool)
        k = 0
        for gi in range(rng.randint(1, 2)):
            size = rng.randint(1, 3)
            members = pool[k:k + size]
            k += size
            if members:
                groups[side + "G%d" % gi] = members
    # the glyphs involved in rules should be group members on at least one side
    for base, alt in pairs:
        for n in (base, alt):
            if rng.random() < 0.6 and not any(n in m for gname, m in groups.items()
                                              if gname.startswith("public.kern1.")):
                key = rng.choice([g for g in groups if g.startswith("public.kern1.")])
                groups[key].append(n)
    plain = rng.sample(names, min(len(names), rng.randint(1, 3)))
    for base, alt in pairs[:1]:
        plain = list(dict.fromkeys(plain + [base, alt]))
    groups["myGroup"] = plain
    return groups


def _first_group(groups, name):
    for g, m in groups.items():
        if g.startswith("public.kern1.") and name in m:
            return g
    return None


def _second_group(groups, name):
    for g, m in groups.items():
        if g.startswith("public.kern2.") and name in m:
            return g
    return None


def make_kerning_keys(rng, names, groups, pairs, conflict):
    """Key set with all four precedence levels and at least one exception; returns
    (keys, conflict description or None)."""
    k1 = [g for g in groups if g.startswith("public.kern1.")]
    k2 = [g for g in groups if g.startswith("public.kern2.")]
    keys = []

    def add(k):
        if k not in keys:
            keys.append(k)

    for _ in range(rng.randint(1, 3)):
        add((rng.choice(k1), rng.choice(k2)))
    for _ in range(rng.randint(1, 3)):
        add((rng.choice(names), rng.choice(names)))
    for _ in range(rng.randint(0, 2)):
        add((rng.choice(names), rng.choice(k2)))
        add((rng.choice(k1), rng.choice(names)))
    # exceptions: glyph (member of a group) against the other side's group / glyph
    g1 = rng.choice(k1)
    g2 = rng.choice(k2)
    a = rng.choice(groups[g1])
    b = rng.choice(groups[g2])
    add((g1, g2))
    if rng.random() < 0.7:
        add((a, g2))
    if rng.random() < 0.5:
        add((a, b))
    if rng.random() < 0.3:
        add((g1, b))
    # literal references to rule glyphs
    for base, alt in pairs:
        add((base, rng.choice(names)))
        if rng.random() < 0.7:
            add((rng.choice(names), alt))
        if rng.random() < 0.4:
            add((alt, rng.choice(k2)))
    conf = None
    if conflict:
        # (a, g2) and (g1, b) both present in one master, (a, b) only in ANOTHER master
        add((a, g2))
        add((g1, b))
        add((a, b))
        conf = {"pair": [a, b], "half1": [a, g2], "half2": [g1, b]}
    else:
        # keep the default stratum free of the ambiguity: never both half-exceptions for a pair
        # whose glyph-glyph key could be missing somewhere
        for (l, r) in list(keys):
            if l in names and r in names:
                gl, gr = _first_group(groups, l), _second_group(groups, r)
                if gl and gr and (l, gr) in keys and (gl, r) in keys:
                    keys.remove((gl, r))
    return keys, conf


def kern_value(rng, flavour):
    v = rng.choice([-120, -80, -60, -50, -40, -30, -20, -15, -10, -5, 0, 10, 20, 35, 50])
    r = rng.random()
    if flavour == "quarter" and r < 0.5:
        v += rng.choice([0.25, 0.75, -0.25])
    elif flavour == "half" and r < 0.5:
        v += rng.choice([0.5, -0.5, 0.25])
    return v


def make_info(rng, mode, os2_classes):
    info = {"unitsPerEm": 1000, "familyName": "Fam", "styleName": "Master",
            "ascender": rng.choice([800, 750, 760.5 if mode != "int" else 760]),
            "descender": rng.choice([-200, -250, -180]),
            "xHeight": rng.randint(400, 560), "capHeight": rng.randint(600, 740),
            "copyright": "(c) test", "openTypeOS2VendorID": "TEST",
            "openTypeOS2Panose": [2, 11, 5, 4, 2, 2, 2, 2, 2, 4],
            "openTypeNameRecords": [], "versionMajor": 1, "versionMinor": 5}
    for a in INFO_NUMBER[4:]:
        if rng.random() < 0.6:
            info[a] = rng.choice([-100, -75, 50, 60, 90])
    for a in INFO_INTEGER:
        if rng.random() < 0.5:
            info[a] = rng.choice([900, 800, -200, -250, 1000, 0, 90])
    for a in NON_NEGATIVE_INFO:
        if a in info:
            # non-negative by specification, also where a corner is extrapolated
            info[a] = rng.choice([800, 900, 1000])
    if "openTypeHeadLowestRecPPEM" in info:
        info["openTypeHeadLowestRecPPEM"] = rng.choice([20, 24, 30])
    if rng.random() < 0.5:
        info["postscriptBlueValues"] = [-10, 0, 500, 510, 700, 712]
    if rng.random() < 0.3:
        info["postscriptStemSnapH"] = [80, 90]
    if rng.random() < 0.3:
        info["italicAngle"] = rng.choice([0, -10, -12.5])
    if os2_classes:
        # (blends of the masters' classes must stay inside 1..1000 even at an extrapolating
        # corner of a three-corner layout: base <= 500, two deltas <= 200 each)
        info["openTypeOS2WeightClass"] = rng.choice([100, 300, 400, 500])
        info["openTypeOS2WidthClass"] = rng.choice([3, 5, 7])
    return info


def perturb_info(rng, info, mode):
    out = copy.deepcopy(info)
    for a in INFO_NUMBER:
        if a in out:
            out[a] = out[a] + _delta(rng, mode, 30)
    for a in INFO_INTEGER:
        if a in out:
            out[a] = out[a] + (rng.randint(-6, 6) if a == "openTypeHeadLowestRecPPEM"
                               else rng.randint(-40, 40))
    for a in NON_NEGATIVE_INFO:
        if a in out:
            out[a] = abs(out[a])
    for a in INFO_LIST:
        if a in out:
            out[a] = [v + rng.randint(-6, 6) for v in out[a]]
    if "italicAngle" in out:
        out["italicAngle"] = out["italicAngle"] + rng.choice([0, -2, 3.5, -0.25])
    if "openTypeOS2WeightClass" in out:
        out["openTypeOS2WeightClass"] = max(1, min(1000, out["openTypeOS2WeightClass"]
                                                 + rng.choice([0, 100, 150, 200])))
        out["openTypeOS2WidthClass"] = max(1, min(9, out["openTypeOS2WidthClass"]
                                               + rng.choice([0, 1, 2, -1])))
    return out


# ---------------------------------------------------------------------------------------------
# rules
# ---------------------------------------------------------------------------------------------

def make_rules(rng, n_rules, pairs, axes_info):
    """axes_info: [(axis name, sorted design master positions, design default)]."""
    rules = []
    if not pairs:
        return rules
    for ri in range(n_rules):
        csets = []
        for _ in range(rng.choice([1, 1, 2])):
            conds = []
            use = [rng.choice(axes_info)] if rng.random() < 0.7 or len(axes_info) < 2 else list(axes_info)
            for name, pos, ddef in use:
                lo, hi = pos[0], pos[-1]
                cut = rng.choice([_between(rng, lo, hi), rng.choice(pos)])
                r = rng.random()
                if r < 0.45:
                    conds.append({"name": name, "minimum": cut, "maximum": hi})
                elif r < 0.6:
                    conds.append({"name": name, "minimum": cut, "maximum": None})
                elif r < 0.75:
                    conds.append({"name": name, "minimum": None, "maximum": cut})
                elif r < 0.9:
                    conds.append({"name": name, "minimum": lo, "maximum": cut})
                else:
                    c2 = _between(rng, lo, hi)
                    conds.append({"name": name, "minimum": min(cut, c2), "maximum": max(cut, c2)})
            csets.append(conds)
        if len(pairs) > 1 and rng.random() < 0.4:
            subs = [list(p) for p in pairs[:2]]
        else:
            subs = [list(pairs[ri % len(pairs)] if rng.random() < 0.7 else rng.choice(pairs))]
        rules.append({"name": "rule%d" % ri, "conditionSets": csets, "subs": subs})
    return rules


# ---------------------------------------------------------------------------------------------
# the family
# ---------------------------------------------------------------------------------------------

def family(rng, **opts):
    """See the module docstring.  Every option may be omitted (drawn at random)."""
    n_axes = _opt(opts, "n_axes", lambda: rng.choice([1, 1, 2]))
    axis_map = _opt(opts, "axis_map", lambda: rng.random() < 0.4)
    sparse = _opt(opts, "sparse", lambda: rng.random() < 0.3)
    coord_mode = _opt(opts, "coord_mode", lambda: rng.choice(["int", "half", "dyadic", "float"]))
    kinds = _opt(opts, "kinds", lambda: rng.choice([["line", "curve", "qcurve"], ["line", "curve"],
                                                    ["line"], ["line", "qcurve"], ["curve"]]))
    n_glyphs = _opt(opts, "n_glyphs", lambda: rng.randint(4, 10))
    components = _opt(opts, "components", lambda: rng.random() < 0.75)
    comp_2x2 = _opt(opts, "comp_2x2", lambda: rng.random() < 0.3)
    anchors = _opt(opts, "anchors", lambda: rng.random() < 0.8)
    with_info = _opt(opts, "info", lambda: rng.random() < 0.85)
    os2_classes = _opt(opts, "os2_classes", lambda: rng.random() < 0.4)
    kerning = _opt(opts, "kerning", lambda: rng.choice(["none", "aligned", "aligned", "ragged", "ragged"]))
    kern_values = _opt(opts, "kern_values", lambda: rng.choice(["int", "quarter", "quarter"]))
    kern_conflict = bool(opts.get("kern_conflict")) and kerning == "ragged"
    n_rules = _opt(opts, "rules", lambda: rng.choice([0, 0, 1, 1, 2]))
    missing_glyph = _opt(opts, "missing_glyph", lambda: rng.random() < 0.12)
    extra_glyph = _opt(opts, "extra_glyph", lambda: rng.random() < 0.12)
    omit_default_axes = _opt(opts, "omit_default_axes", lambda: rng.random() < 0.3)
    shuffle_sources = _opt(opts, "shuffle_sources", lambda: rng.random() < 0.5)

    # ---- axes and master locations (design coordinates)
    tags = rng.sample(list(AXIS_KINDS), n_axes)
    axes, axes_info = [], []
    locations = []            # full masters, default first (shuffled later)
    if n_axes == 1:
        n_masters = _opt(opts, "n_masters", lambda: rng.choice([2, 3, 3, 4]))
        n_masters = max(2, min(4, n_masters))
        dp = _opt(opts, "default_pos", lambda: rng.choice(["min", "max", "mid"]))
        if n_masters == 2 and dp == "mid":
            dp = rng.choice(["min", "max"])
        axis, pos, ddef = make_axis(rng, tags[0], n_masters, dp, axis_map)
        axes.append(axis)
        axes_info.append((axis["name"], pos, ddef))
        locations = [{axis["name"]: ddef}] + [{axis["name"]: p} for p in pos if p != ddef]
        corner11 = False
        layout = "1axis"
    else:
        dp0 = _opt(opts, "default_pos", lambda: rng.choice(["min", "max", "min", "mid"]))
        corner11 = _opt(opts, "corner11", lambda: rng.random() < 0.6)
        if dp0 == "mid":
            corner11 = False
        a0, p0, d0 = make_axis(rng, tags[0], 3 if dp0 == "mid" else 2, dp0, axis_map)
        a1, p1, d1 = make_axis(rng, tags[1], 2, rng.choice(["min", "max"]),
                                axis_map and rng.random() < 0.5)
        axes = [a0, a1]
        axes_info = [(a0["name"], p0, d0), (a1["name"], p1, d1)]
        locations = [{a0["name"]: d0, a1["name"]: d1}]
        for p in p0:
            if p != d0:
                locations.append({a0["name"]: p, a1["name"]: d1})
        o1 = [p for p in p1 if p != d1][0]
        locations.append({a0["name"]: d0, a1["name"]: o1})
        if corner11:
            o0 = [p for p in p0 if p != d0][0]
            locations.append({a0["name"]: o0, a1["name"]: o1})
        layout = "2axis_mid" if dp0 == "mid" else ("2axis_corner4" if corner11 else "2axis_corner3")
    defaults = {name: ddef for name, pos, ddef in axes_info}

    # ---- base master and its perturbations
    glyphs0, pairs = base_master(rng, n_glyphs, kinds, coord_mode, components, anchors,
                                 n_rules and rng.choice([1, 1, 2]),
                                 rule_cross_ref=bool(opts.get("rule_cross_ref")))
    names = [g["name"] for g in glyphs0]
    groups = make_groups(rng, names, pairs) if kerning != "none" or rng.random() < 0.5 else {}
    kern_keys, conflict = ([], None)
    if kerning != "none":
        kern_keys, conflict = make_kerning_keys(rng, names, groups, pairs, kern_conflict)
    info0 = make_info(rng, coord_mode, os2_classes) if with_info else \
        {"unitsPerEm": 1000, "familyName": "Fam", "styleName": "Master"}
    lib0 = {"com.test.fontkey": {"list": [1, 2, 3], "s": "x"},
            "public.glyphOrder": list(names)}
    feats = "languagesystem DFLT dflt;\n# family features\n"

    ufos = []
    for mi, loc in enumerate(locations):
        if mi == 0:
            gl = copy.deepcopy(glyphs0)
            info = copy.deepcopy(info0)
        else:
            gl = [perturb_glyph(rng, g, coord_mode, comp_2x2) for g in glyphs0]
            info = perturb_info(rng, info0, coord_mode) if with_info else copy.deepcopy(info0)
        info["styleName"] = "M%d" % mi
        kern = []
        for k in kern_keys:
            kern.append([k[0], k[1], kern_value(rng, kern_values)])
        ufos.append({"info": info, "glyphs": gl, "lib": copy.deepcopy(lib0),
                     "groups": copy.deepcopy(groups), "kerning": kern, "features": feats,
                     "glyphOrder": None})
    # ragged kerning: drop keys from some (not all) masters
    ragged_dropped = 0
    if kerning == "ragged":
        for k in kern_keys:
            if conflict and list(k) in (conflict["pair"], conflict["half1"], conflict["half2"]):
                continue
            if rng.random() < 0.45:
                drop = rng.sample(range(len(ufos)), rng.randint(1, len(ufos) - 1))
                for mi in drop:
                    ufos[mi]["kerning"] = [e for e in ufos[mi]["kerning"] if (e[0], e[1]) != k]
                    ragged_dropped += 1
        if conflict:
            keep = rng.randrange(len(ufos))
            others = [mi for mi in range(len(ufos)) if mi != keep]
            for mi in others:
                ufos[mi]["kerning"] = [e for e in ufos[mi]["kerning"]
                                       if [e[0], e[1]] != conflict["pair"]]
                ragged_dropped += 1
            if opts.get("kern_conflict") == "split" and len(others) >= 2:
                # the masters that lack the glyph-glyph key cover it through DIFFERENT
                # half-exceptions: one keeps only (glyph, group), another only (group, glyph)
                rng.shuffle(others)
                plan = ["half1", "half2"] + [rng.choice(["half1", "half2", None])
                                             for _ in others[2:]]
                for mi, drop in zip(others, plan):
                    if drop:
                        ufos[mi]["kerning"] = [e for e in ufos[mi]["kerning"]
                                               if [e[0], e[1]] != conflict[drop]]
                conflict["split"] = True
        if not ragged_dropped and kern_keys:
            k = rng.choice(kern_keys)
            mi = rng.randrange(len(ufos))
            ufos[mi]["kerning"] = [e for e in ufos[mi]["kerning"] if (e[0], e[1]) != k]
            ragged_dropped = 1

    sources = [{"ufo": mi, "location": dict(loc), "name": "master.%d" % mi}
               for mi, loc in enumerate(locations)]
    meta = {"layout": layout, "n_axes": n_axes, "n_full_masters": len(locations),
            "kerning": kerning, "kern_conflict": conflict, "coord_mode": coord_mode,
            "axis_map": bool(axis_map), "rule_pairs": pairs, "sparse": None,
            "missing_glyph": None, "extra_glyph": None, "comp_2x2": bool(comp_2x2 and components),
            "ragged_dropped": ragged_dropped, "os2_classes": bool(os2_classes and with_info),
            "rule_cross_ref": bool(opts.get("rule_cross_ref"))}

    # ---- sparse layer master at an intermediate on-axis location
    if sparse:
        name, pos, ddef = rng.choice(axes_info)
        i = rng.randrange(len(pos) - 1)
        v = _between(rng, pos[i], pos[i + 1])
        if pos[i] < v < pos[i + 1]:
            host = rng.randrange(len(ufos))
            lname = rng.choice(["Medium", "{%s}" % v, "public.background", "sparse layer"])
            cands = [g for g in glyphs0]
            sub = rng.sample(cands, rng.randint(1, max(1, len(cands) - 1)))
            sub.sort(key=lambda g: names.index(g["name"]))
            layer = [perturb_glyph(rng, g, coord_mode, comp_2x2) for g in sub]
            ufos[host].setdefault("layers", {})[lname] = layer
            loc = dict(defaults)
            loc[name] = v
            sources.append({"ufo": host, "location": loc, "layerName": lname,
                            "name": "sparse.%d" % len(sources)})
            meta["sparse"] = {"host": host, "layer": lname, "glyphs": [g["name"] for g in sub],
                              "axis": name}

    # ---- glyph missing from a non-default, non-extreme full master / extra glyph
    removable = []
    if n_axes == 1:
        name, pos, ddef = axes_info[0]
        removable = [mi for mi, loc in enumerate(locations)
                     if mi != 0 and loc[name] not in (pos[0], pos[-1])]
    elif corner11:
        removable = [len(locations) - 1]
    if missing_glyph and removable:
        mi = rng.choice(removable)
        victim = rng.choice(names)
        ufos[mi]["glyphs"] = [g for g in ufos[mi]["glyphs"] if g["name"] != victim]
        meta["missing_glyph"] = {"master": mi, "glyph": victim}
    if extra_glyph and len(ufos) > 1:
        mi = rng.randrange(1, len(ufos))
        ufos[mi]["glyphs"].append({"name": "extra.only", "width": 333, "unicodes": [],
                                   "contours": [[[0, 0, "line", False], [100, 0, "line", False],
                                                 [50, 80, "line", False]]],
                                   "components": [], "anchors": []})
        meta["extra_glyph"] = {"master": mi, "glyph": "extra.only"}

    # ---- rules
    rules = make_rules(rng, n_rules, pairs, axes_info) if n_rules else []

    # ---- presentation variants that must not matter
    if omit_default_axes and n_axes == 2:
        for s in sources:
            for name, pos, ddef in axes_info:
                if s["location"].get(name) == ddef and len(s["location"]) > 1 and rng.random() < 0.7:
                    del s["location"][name]
        meta["omit_default_axes"] = True
    if shuffle_sources:
        rng.shuffle(sources)
    return {"axes": axes, "ufos": ufos, "sources": sources, "rules": rules,
            "lib": {"public.skipExportGlyphs": []} if rng.random() < 0.3 else {},
            "instances": [], "meta": meta}


def default_source_index(ds):
    """Index (into ds['sources']) of the source at the default design location (no layerName)."""
    from vf.ref import varmodel as V
    axes = ds["axes"]
    dflt = V.full_location(axes, {})
    for i, s in enumerate(ds["sources"]):
        if not s.get("layerName") and V.full_location(axes, s["location"]) == dflt:
            return i
    return None
