"""C06 - Generated mark features make matching anchors coincide.

Run: repertoires with bases / ligatures / marks carrying x, _x, x_N anchors (several classes per
glyph, several mark anchors per mark, gaps in ligature numbering, fractional coordinates) x
{no categories, openTypeCategories, user table GDEF} x Indic code points (abvm / blwm) x
languagesystems x groupMarkClasses x quantisation -> compileTTF(featureWriters=[Mark(,Gdef)])
-> save -> reload.
Observe: MarkBasePos / MarkLigPos / MarkMarkPos evaluated by R-gpos under every script tag with
mark, mkmk, abvm, blwm active together; GDEF classes.
Oracle: candidates(base, mark) = { q(base.x) - q(mark._x) for every key x both carry }, component
N of a ligature uses x_N; the final attachment must be one of the candidates; none -> no attachment.
"""
import io
import traceback

import vf  # noqa: F401
from vf.build import build_ufo
from vf.gen import scripts as S
from vf.ref import render as R
from vf.ref.gpos import Gpos

ID = "C06"
RULE = ("case = repertoire (Latn/Cyrl/Arab/Hebr/Deva letters, combining marks, ligatures, "
        "alternates) with anchors over classes {top,bottom,top.alt,ogonek,nukta,candra}: marks get "
        "1-2 '_x' anchors (+ optional plain 'x' for mark-to-mark), bases several 'x', ligatures "
        "'x_N' with gaps or '_N' NULL anchors, fractional/negative coordinates; roles by anchors, by "
        "consistent openTypeCategories or by a user table GDEF; groupMarkClasses and quantisation "
        "{1,10}; every (glyph, glyph) pair evaluated under every script tag; distinct = sha1 of the "
        "case; non-trivial = GPOS compiled and >= 1 pair with candidates judged")
ASSUMPTIONS = [
    "fontTools' GPOS/GDEF readers are trusted; shaper semantics as in DESIGN section 3: MarkBasePos "
    "attaches to a preceding non-mark glyph, MarkMarkPos to a preceding mark, a later lookup "
    "overrides an earlier one, lookup flags / mark filtering sets skip glyphs",
    "roles: a glyph is a mark iff it carries an '_x' anchor whose key some other glyph carries as "
    "'x' (and, when categories / a user GDEF are given, is classed mark); bases / ligatures are the "
    "non-mark glyphs (classed base / ligature when classes are given)",
    "only the mark writer (and the GDEF writer when categories are given) runs, so that the "
    "ScriptList comes from the languagesystem statements (C20 covers reachability)",
]
NONVACUITY = ["fonts_judged", "pairs_with_candidates", "pairs_without_candidates", "multi_class_marks",
              "multi_candidate_pairs", "ligature_components_judged", "null_components",
              "mkmk_pairs", "abvm_blwm_fonts", "fractional_anchor_fonts", "quantized_fonts",
              "grouped_fonts", "category_fonts"]

CLASSES = ["top", "bottom", "top.alt", "ogonek", "nukta", "candra", "top2", "m12"]


def n_cases(tier):
    return 600 if tier == "quick" else 12000


def budget_s(tier):
    return 150 if tier == "quick" else 1500


def coord(rng):
    r = rng.random()
    v = rng.randint(-100, 800)
    if r < 0.25:
        return v + 0.5
    if r < 0.35:
        return round(v + rng.random(), 2)
    if r < 0.4:
        return -v / 2.0
    return v


def gen(rng, idx, tier):
    r = rng.random()
    stratum = "default"
    if r < 0.35:
        scripts = [rng.choice(["Latn", "Cyrl", "Grek"])]
    elif r < 0.55:
        scripts = ["Deva"] + ([rng.choice(["Latn"])] if rng.random() < 0.5 else [])
    elif r < 0.8:
        scripts = [rng.choice(["Arab", "Hebr"])]
    else:
        scripts = rng.sample(["Latn", "Arab", "Deva", "Cyrl"], 2)
    glyphs, desc = S.repertoire(rng, scripts=scripts, n=rng.choice([4, 6, 8]),
                                n_marks=rng.choice([1, 2, 3, 4]), n_unencoded=rng.choice([1, 2, 3]),
                                orphans=False)
    classes = rng.sample(CLASSES, rng.choice([1, 2, 2, 3, 4]))
    role = {}
    for g in glyphs:
        d = desc[g["name"]]
        n = g["name"]
        if n in (".notdef", "space"):
            continue
        if d["mark"]:
            role[n] = "mark"
            ks = rng.sample(classes, min(len(classes), rng.choice([1, 1, 1, 2])))
            for k in ks:
                g["anchors"].append({"name": "_" + k, "x": coord(rng), "y": coord(rng)})
            if rng.random() < 0.5:
                for k in rng.sample(classes, 1):
                    g["anchors"].append({"name": k, "x": coord(rng), "y": coord(rng)})
        elif d["kind"] == "ligature":
            role[n] = "ligature"
            ncomp = max(2, len(d.get("sources") or [0, 0]))
            for k in rng.sample(classes, min(len(classes), rng.choice([1, 2]))):
                for i in range(1, ncomp + 1):
                    if rng.random() < 0.75:
                        g["anchors"].append({"name": "%s_%d" % (k, i), "x": coord(rng),
                                             "y": coord(rng)})
            if rng.random() < 0.25:
                # a plain anchor next to the numbered ones (in front of, between or after them)
                g["anchors"].insert(rng.choice([0, 0, rng.randint(0, len(g["anchors"]))]),
                                    {"name": rng.choice(classes), "x": coord(rng), "y": coord(rng)})
            if rng.random() < 0.3:
                # explicit NULL anchor for a component that has no other anchor
                used_n = {int(a["name"].rpartition("_")[2]) for a in g["anchors"] if "_" in a["name"]}
                free = [i for i in range(1, ncomp + 2) if i not in used_n]
                if free:
                    g["anchors"].append({"name": "_%d" % rng.choice(free), "x": 0, "y": 0})
        else:
            role[n] = "base"
            if rng.random() < 0.85:
                for k in classes:
                    if rng.random() < 0.6:
                        g["anchors"].append({"name": k, "x": coord(rng), "y": coord(rng)})
    if "Deva" in scripts and rng.random() < 0.4:
        # a second Indic script next to Devanagari (whether it is declared by a languagesystem
        # statement is decided below, per script): Bengali letters and one Bengali mark
        for n_, cp in (("ka-beng", 0x995), ("kha-beng", 0x996)):
            g = S._spec(rng, n_, [cp])
            for k in classes:
                if rng.random() < 0.7:
                    g["anchors"].append({"name": k, "x": coord(rng), "y": coord(rng)})
            glyphs.append(g)
            desc[n_] = S.describe(n_, [cp], "letter")
            role[n_] = "base"
        g = S._spec(rng, "candrabindu-beng", [0x981], mark=True)
        for k in rng.sample(classes, min(len(classes), rng.choice([1, 2]))):
            g["anchors"].append({"name": "_" + k, "x": coord(rng), "y": coord(rng)})
        glyphs.append(g)
        desc["candrabindu-beng"] = S.describe("candrabindu-beng", [0x981], "mark")
        role["candrabindu-beng"] = "mark"
        second_indic = True
    else:
        second_indic = False
    if rng.random() < 0.12:
        # a long ligature (>= 10 components): two-digit component numbers in the anchor names
        ncomp = rng.choice([10, 11, 12, 21])
        lig = {"name": "long_lig", "width": 3000, "unicodes": [], "components": [],
               "contours": [[[0, 0, "line"], [2900, 0, "line"], [2900, 500, "line"], [0, 500, "line"]]],
               "anchors": []}
        for k in rng.sample(classes, min(len(classes), rng.choice([1, 2]))):
            for i in range(1, ncomp + 1):
                if rng.random() < 0.8:
                    lig["anchors"].append({"name": "%s_%d" % (k, i), "x": 100 * i + coord(rng) / 10.0,
                                           "y": coord(rng)})
        glyphs.append(lig)
        desc["long_lig"] = S.describe("long_lig", [], "orphan")
        role["long_lig"] = "ligature"
    # every '_x' key must have a counterpart somewhere (see DESIGN section 6, C06 finding),
    # except in the dedicated stratum
    q0 = rng.random()
    mk0 = [g for g in glyphs if role.get(g["name"]) == "mark"]
    if q0 < 0.06 and len(mk0) >= 2:
        stratum = "unpaired_mark_anchor"
        k = classes[0]
        mk0[0]["anchors"] = [{"name": "_lone", "x": 10, "y": 20}, {"name": k, "x": coord(rng), "y": coord(rng)}]
        mk0[1]["anchors"] = [a for a in mk0[1]["anchors"] if a["name"] != "_" + k] + [
            {"name": "_" + k, "x": coord(rng), "y": coord(rng)}]
    else:
        plain = {a["name"].split("_")[0] if a["name"][-1:].isdigit() and "_" in a["name"] else a["name"]
                 for g in glyphs for a in g["anchors"] if not a["name"].startswith("_")}
        for g in glyphs:
            g["anchors"] = [a for a in g["anchors"]
                            if not (a["name"].startswith("_") and not a["name"][1:].isdigit()
                                    and a["name"][1:] not in plain)]
    # mark-to-mark across the Indic / non-Indic partition is a listed finding: keep the default
    # stratum clear of it (marks of both kinds present -> no plain anchors on marks)
    indic_marks = {n for n, _cp in S.MARKS["Deva"]} | {"candrabindu-beng"}
    mk = [g for g in glyphs if role.get(g["name"]) == "mark" or desc[g["name"]]["mark"]]
    kinds = {("beng" if g["name"] == "candrabindu-beng" else
              g["name"].split(".")[0] in indic_marks) for g in mk}
    if len(kinds) > 1 and stratum == "default":
        if rng.random() < 0.15:
            stratum = "mkmk_cross_partition"
        else:
            for g in mk:
                g["anchors"] = [a for a in g["anchors"] if a["name"].startswith("_")]
    indic_only_mkmk = False
    if stratum == "default" and kinds == {True} and len(mk) >= 2 and rng.random() < 0.3:
        # an Indic font in which marks attach to marks only (no base or ligature of the Indic
        # partition carries an anchor): abvm / blwm then hold mark-to-mark lookups alone
        k = classes[0]
        for g in glyphs:
            if role.get(g["name"]) in ("base", "ligature"):
                g["anchors"] = []
        mk[0]["anchors"] = [{"name": "_" + k, "x": coord(rng), "y": coord(rng)},
                            {"name": k, "x": coord(rng), "y": coord(rng)}]
        mk[1]["anchors"] = [{"name": "_" + k, "x": coord(rng), "y": coord(rng)}]
        for g in mk[2:]:
            g["anchors"] = [a for a in g["anchors"] if a["name"] == "_" + k]
        indic_only_mkmk = True
    rules = S.rules_for(desc)
    used = sorted({s for d in desc.values() for s in d["script"] if s not in ("Zyyy", "Zinh")})
    q1 = rng.random()
    if q1 < 0.35:
        ls = None
    else:
        ls = [("DFLT", "dflt")]
        for s in used:
            if q1 > 0.6 or rng.random() < 0.5:
                ls += [(t, "dflt") for t in S.ot_script_tags(s)]
    features, rules = S.gsub_alternates(rng, desc, languagesystems=ls, rules=rules)
    stale_markclass = None
    if stratum == "default" and rng.random() < 0.08:
        # the user's feature text still holds an old copy of a generated mark class
        # (markClass G <anchor> @MC_x;) whose anchor no longer is G's '_x' anchor: the source
        # anchors decide; G is the LAST mark of that class in glyph order, or any of them
        mk_ = [(g, a) for g in glyphs for a in g["anchors"]
               if a["name"].startswith("_") and not a["name"][1:].isdigit()]
        if mk_:
            which = rng.choice(["last", "last", "any"])
            g_, a_ = rng.choice(mk_)
            if which == "last":
                g_, a_ = [(g, a) for g, a in mk_ if a["name"] == a_["name"]][-1]
            key_ = a_["name"][1:]
            stmt = "markClass %s <anchor %d %d> @MC_%s;\n" % (
                g_["name"], int(a_["x"]) + 20, int(a_["y"]) + 60, key_)
            k_ = features.rfind("languagesystem")
            k_ = features.find("\n", k_) + 1 if k_ >= 0 else 0
            features = features[:k_] + stmt + features[k_:]
            stale_markclass = {"glyph": g_["name"], "class": "MC_" + key_, "which": which}
            if which == "any":
                stratum = "stale_user_markclass_not_last"
    lib = {}
    gdef_mode = rng.choice(["none", "none", "categories", "user_gdef"])
    if stratum == "unpaired_mark_anchor":
        gdef_mode = rng.choice(["categories", "user_gdef", "none"])
    based_mark_anchor = None
    if gdef_mode != "none" and stratum == "default" and rng.random() < 0.35:
        # a glyph CLASSED base that kept a paired '_x' anchor next to its ordinary base anchors
        # (a spacing accent): with classes given it is a base and nothing else
        cand = [g for g in glyphs if role.get(g["name"]) == "base"
                and any(not a["name"].startswith("_") for a in g["anchors"])]
        keys = sorted({a["name"] for g in glyphs for a in g["anchors"]
                       if not a["name"].startswith("_") and not a["name"][-1:].isdigit()})
        if cand and keys:
            g = rng.choice(cand)
            g["anchors"].append({"name": "_" + rng.choice(keys), "x": coord(rng), "y": coord(rng)})
            based_mark_anchor = g["name"]
    if gdef_mode != "none":
        cats = {}
        for n, ro in role.items():
            cats[n] = ro
        if gdef_mode == "categories":
            lib["public.openTypeCategories"] = cats
        else:
            def cl(ro):
                ms = sorted(n for n, x in cats.items() if x == ro)
                return "[" + " ".join(ms) + "]" if ms else ""
            features += "\ntable GDEF {\n    GlyphClassDef %s, %s, %s, ;\n} GDEF;\n" % (
                cl("base"), cl("ligature"), cl("mark"))
    return {"stratum": stratum, "gdef_mode": gdef_mode, "based_mark_anchor": based_mark_anchor,
            "stale_markclass": stale_markclass, "indic_only_mkmk": indic_only_mkmk,
            "ufo": {"glyphs": glyphs, "features": features, "lib": lib,
                    "info": {"unitsPerEm": 1000, "familyName": "T", "styleName": "R"}},
            "rules": rules, "lib": rng.choice(["defcon", "ufoLib2"]),
            "quantization": rng.choice([1, 1, 10]), "group": rng.random() < 0.4}


def sample_view(case):
    u = case["ufo"]
    return {"glyphs": [(g["name"], g["unicodes"], [(a["name"], a["x"], a["y"]) for a in g["anchors"]])
                       for g in u["glyphs"]],
            "features": u["features"], "gdef_mode": case["gdef_mode"],
            "quantization": case["quantization"], "groupMarkClasses": case["group"]}


def parse_anchor(name):
    """(is_mark, key, number) by the naming convention of the statement: '_x' attaching anchor,
    'x' plain anchor, 'x_N' anchor of ligature component N, '_N' NULL anchor of component N."""
    if name.startswith("_") and name[1:].isdigit():
        return False, "", int(name[1:])
    if name.startswith("_"):
        return True, name[1:], None
    if "_" in name:
        k, _, num = name.rpartition("_")
        if num.isdigit() and k:
            return False, k, int(num)
    return False, name, None


def q_anchor(v, q):
    return R.otround(q * R.otround(R.fr(v) / q))


def run(case):
    import ufo2ft
    from fontTools.ttLib import TTFont
    from ufo2ft.featureWriters import GdefFeatureWriter, MarkFeatureWriter

    counters = {}

    def bump(k, n=1):
        counters[k] = counters.get(k, 0) + n

    spec = case["ufo"]
    q = case["quantization"]
    font = build_ufo(spec, case["lib"])
    writers = [MarkFeatureWriter(quantization=q, groupMarkClasses=case["group"])]
    if "public.openTypeCategories" in spec["lib"]:
        writers.append(GdefFeatureWriter())
    try:
        tt = ufo2ft.compileTTF(font, featureWriters=writers, useProductionNames=False)
        buf = io.BytesIO()
        tt.save(buf)
    except Exception:  # noqa: BLE001
        return {"status": "violated", "counters": counters, "violations": [
            {"mech": "unexpected_exception", "detail": {"trace": traceback.format_exc()[-2500:]}}]}
    tt = TTFont(io.BytesIO(buf.getvalue()))
    # ---------------- reference data from the spec
    anchors = {}
    for g in spec["glyphs"]:
        d = {"mark": {}, "plain": {}, "lig": {}, "null": set()}
        for a in g["anchors"]:
            is_mark, key, num = parse_anchor(a["name"])
            pt = (q_anchor(a["x"], q), q_anchor(a["y"], q))
            if is_mark:
                d["mark"].setdefault(key, pt)
            elif num is None:
                d["plain"].setdefault(key, pt)
            elif key == "":
                d["null"].add(num)
            else:
                d["lig"].setdefault(num, {}).setdefault(key, pt)
        anchors[g["name"]] = d
    all_plain_keys = set()
    for n, d in anchors.items():
        all_plain_keys |= set(d["plain"])
        for comp in d["lig"].values():
            all_plain_keys |= set(comp)
    classes = None
    if case["gdef_mode"] != "none":
        classes = {}
        if "public.openTypeCategories" in spec["lib"]:
            classes = dict(spec["lib"]["public.openTypeCategories"])
        else:
            import re
            m = re.search(r"GlyphClassDef ([^;]*);", spec["features"])
            parts = [p.strip() for p in m.group(1).split(",")]
            for ro, p in zip(("base", "ligature", "mark", "component"), parts):
                for n in p.strip("[] ").split():
                    classes[n] = ro
    marks = set()          # glyphs that can ATTACH (carry a paired '_x' and are marks)
    mark_glyphs = set()    # glyphs that ARE marks (class mark when classes are given)
    for n, d in anchors.items():
        paired = [k for k in d["mark"] if k in all_plain_keys]
        if classes is not None:
            if classes.get(n) == "mark":
                mark_glyphs.add(n)
                if paired:
                    marks.add(n)
        elif paired:
            marks.add(n)
            mark_glyphs.add(n)
    if "GPOS" not in tt:
        # (with classes given, a plain anchor counts only on a glyph classed base - or mark,
        # for mark-to-mark; a glyph classed ligature attaches through numbered anchors only)
        need = any(anchors[b]["plain"].keys() & anchors[m]["mark"].keys()
                   for b in anchors for m in marks
                   if classes is None or classes.get(b) in ("base", "mark"))
        need = need or any(set(comp_) & anchors[m]["mark"].keys()
                           for b in anchors for comp_ in anchors[b]["lig"].values() for m in marks
                           if b not in mark_glyphs
                           and (classes is None or classes.get(b) == "ligature"))
        if need:
            return {"status": "violated", "counters": counters, "violations": [
                {"mech": "no_gpos_but_matching_anchors", "detail": {}}]}
        return {"status": "held", "counters": {"fonts_without_gpos": 1}}
    gp = Gpos(tt)
    bump("fonts_judged")
    if q != 1:
        bump("quantized_fonts")
    if case["group"]:
        bump("grouped_fonts")
    if classes is not None:
        bump("category_fonts")
    if case.get("based_mark_anchor"):
        bump("fonts_with_base_classed_glyph_carrying_mark_anchor")
    if case.get("indic_only_mkmk"):
        bump("indic_fonts_whose_marks_attach_to_marks_only")
    if case.get("stale_markclass"):
        bump("fonts_with_stale_user_markclass_" + case["stale_markclass"]["which"])
    if any(float(a["x"]) != int(a["x"]) or float(a["y"]) != int(a["y"])
           for g in spec["glyphs"] for a in g["anchors"]):
        bump("fractional_anchor_fonts")
    feats_all = {t for t, _ in gp.graph["features"]}
    if feats_all & {"abvm", "blwm"}:
        bump("abvm_blwm_fonts")
    for n in marks:
        if len([k for k in anchors[n]["mark"] if k in all_plain_keys]) > 1:
            bump("multi_class_marks")
    names = [g["name"] for g in spec["glyphs"]][:30]
    violations = []
    ncand = 0
    for tag in gp.script_tags():
        for b in names:
            db = anchors[b]
            b_is_mark = b in mark_glyphs
            for m in names:
                dm = anchors[m]
                m_is_mark = m in marks
                # ---- plain (mark-to-base or mark-to-mark)
                cands = set()
                if m_is_mark:
                    role_ok = True
                    if classes is not None and not b_is_mark:
                        role_ok = classes.get(b) == "base"
                    if b_is_mark and classes is not None:
                        role_ok = classes.get(b) == "mark"
                    if role_ok:
                        for k, pt in db["plain"].items():
                            if k in dm["mark"]:
                                mp = dm["mark"][k]
                                cands.add((pt[0] - mp[0], pt[1] - mp[1]))
                lig_ok = (not b_is_mark) and (classes is None or classes.get(b) == "ligature")
                has_lig = bool(db["lig"] or db["null"]) and lig_ok
                res = gp.attach(b, m, tag, component=None if not has_lig else 0)
                if not has_lig:
                    got = res["offset"]
                    if res["kind"] == 5:
                        violations.append({"mech": "unexpected_ligature_attachment", "detail": {
                            "base": b, "mark": m, "tag": tag}})
                    _judge(violations, bump, b, m, tag, None, cands, got, res, b_is_mark)
                    if cands:
                        ncand += 1
                    continue
                # ---- ligature: judge every component
                ncomp = max(list(db["lig"]) + list(db["null"]) + [0])
                for comp in range(1, ncomp + 2):
                    lc = set()
                    if m_is_mark:
                        for k, pt in (db["lig"].get(comp) or {}).items():
                            if k in dm["mark"]:
                                mp = dm["mark"][k]
                                lc.add((pt[0] - mp[0], pt[1] - mp[1]))
                    # a glyph that also carries plain anchors may be attached through MarkBasePos
                    lc_all = lc | cands
                    res = gp.attach(b, m, tag, component=comp - 1)
                    bump("ligature_components_judged")
                    if db["plain"]:
                        bump("ligature_components_of_glyphs_with_plain_anchors_too")
                    if not (db["lig"].get(comp)):
                        bump("null_components")
                    _judge(violations, bump, b, m, tag, comp, lc_all, res["offset"], res, b_is_mark,
                           strict_none=not lc_all)
                    if lc_all:
                        ncand += 1
                if len(violations) > 10:
                    break
            if len(violations) > 10:
                break
    return {"status": "violated" if violations else "held", "violations": violations[:10],
            "counters": counters, "nontrivial": ncand > 0}


def _judge(violations, bump, b, m, tag, comp, cands, got, res, b_is_mark, strict_none=True):
    if cands:
        bump("pairs_with_candidates")
        if len(cands) > 1:
            bump("multi_candidate_pairs")
        if b_is_mark:
            bump("mkmk_pairs")
        if got is None:
            violations.append({"mech": "missing_attachment", "detail": {
                "base": b, "mark": m, "tag": tag, "component": comp,
                "candidates": sorted(cands), "hidden_by_flags": res["hidden"]}})
        elif tuple(got) not in cands:
            violations.append({"mech": "wrong_offset", "detail": {
                "base": b, "mark": m, "tag": tag, "component": comp,
                "candidates": sorted(cands), "got": list(got), "lookup": res["lookup"]}})
    else:
        bump("pairs_without_candidates")
        if got is not None:
            violations.append({"mech": "unexpected_attachment", "detail": {
                "base": b, "mark": m, "tag": tag, "component": comp, "got": list(got),
                "lookup": res["lookup"], "kind": res["kind"]}})


def _classed_mark_without_paired_anchor(case, b):
    cats = case["ufo"]["lib"].get("public.openTypeCategories")
    g = next(x for x in case["ufo"]["glyphs"] if x["name"] == b)
    plain = set()
    for x in case["ufo"]["glyphs"]:
        for a in x["anchors"]:
            im, key, num = parse_anchor(a["name"])
            if not im and key:
                plain.add(key)
    own_mark_keys = [parse_anchor(a["name"])[1] for a in g["anchors"] if parse_anchor(a["name"])[0]]
    is_mark_class = (cats or {}).get(b) == "mark"
    if cats is None:
        import re
        mm = re.search(r"GlyphClassDef ([^;]*);", case["ufo"]["features"])
        parts = [p.strip() for p in mm.group(1).split(",")] if mm else []
        is_mark_class = len(parts) > 2 and b in parts[2].strip("[] ").split()
    return is_mark_class and not any(k in plain for k in own_mark_keys)


def classify(v, case):
    det = v["detail"]
    if v["mech"] == "no_gpos_but_matching_anchors" and case["gdef_mode"] != "none":
        # the listed mechanism below, in a font where the attachments it loses are the ONLY ones:
        # every glyph whose plain anchor a mark could attach to is such a classed mark
        bases = set()
        for b in case["ufo"]["glyphs"]:
            pk = {parse_anchor(a["name"])[1] for a in b["anchors"]
                  if not parse_anchor(a["name"])[0] and parse_anchor(a["name"])[2] is None}
            for m in case["ufo"]["glyphs"]:
                mk_ = {parse_anchor(a["name"])[1] for a in m["anchors"] if parse_anchor(a["name"])[0]}
                if pk & mk_:
                    bases.add(b["name"])
        if bases and all(_classed_mark_without_paired_anchor(case, b) for b in bases):
            return "classed_mark_without_paired_mark_anchor_is_no_base"
    if v["mech"] == "missing_attachment" and not det.get("hidden_by_flags"):
        # a glyph classed 'mark' whose own '_x' anchors have no counterpart anywhere is dropped from
        # the writer's mark set; being classed mark it is not a mark-to-base base either, so marks
        # with matching anchors are never attached to it
        cats = case["ufo"]["lib"].get("public.openTypeCategories")
        b = det["base"]
        if case["gdef_mode"] != "none":
            g = next(x for x in case["ufo"]["glyphs"] if x["name"] == b)
            plain = set()
            for x in case["ufo"]["glyphs"]:
                for a in x["anchors"]:
                    im, key, num = parse_anchor(a["name"])
                    if not im and key:
                        plain.add(key)
            own_mark_keys = [parse_anchor(a["name"])[1] for a in g["anchors"]
                             if parse_anchor(a["name"])[0]]
            is_mark_class = (cats or {}).get(b) == "mark"
            if cats is None:
                import re
                mm = re.search(r"GlyphClassDef ([^;]*);", case["ufo"]["features"])
                parts = [p.strip() for p in mm.group(1).split(",")] if mm else []
                is_mark_class = len(parts) > 2 and b in parts[2].strip("[] ").split()
            if is_mark_class and not any(k in plain for k in own_mark_keys):
                return "classed_mark_without_paired_mark_anchor_is_no_base"
    if v["mech"] == "missing_attachment" and det.get("hidden_by_flags"):
        # mark-to-mark lookups carry a mark filtering set that only holds the marks of the
        # lookup's own partition (Indic glyphs -> abvm/blwm, all others -> mkmk): a mark of the
        # other partition is skipped, so it never attaches to a mark across the partition
        # (which Indic scripts count depends on the languagesystem statements, so marks of two
        # different Indic scripts can be on different sides as well)
        deva = {n for n, _cp in S.MARKS["Deva"]}

        def side(n):
            return "deva" if n in deva else "beng" if n == "candrabindu-beng" else "other"
        b, m = det["base"].split(".")[0], det["mark"].split(".")[0]
        names = {g["name"] for g in case["ufo"]["glyphs"]}
        if side(b) != side(m) and any(side(n.split(".")[0]) != "other" for n in names):
            return "mkmk_across_indic_partition_hidden_by_filtering_set"
    return None
