"""C03 - Glyph order and character map follow the source exactly.

(a) exhaustive small scope (parent stage): every glyph-name set over a 5-name alphabet x every
    glyphOrder list of length <= 4 over that alphabet + an unknown name, through the real
    makeOfficialGlyphOrder;
(b) random cases through the full compileTTF / compileOTF -> save -> reload: glyph order,
    maxp.numGlyphs, every cmap subtable, UVS, duplicate code points.
Oracle: the order / cmap rules stated directly from the property (R-order, R-cmap).
"""
import io
import itertools
import time
import traceback

import vf  # noqa: F401
from vf.build import build_ufo

ID = "C03"
RULE = ("(a) exhaustive: all 32 name sets over {.notdef,a,B,b.alt,_x} x all 1555 glyphOrder lists "
        "(length<=4 over the alphabet + 'zz', duplicates included) + order None, real "
        "makeOfficialGlyphOrder; (b) random: 1-60 glyphs with hostile ASCII names, BMP / "
        "supplementary / several / duplicate code points, stored order or explicit glyphOrder "
        "argument (permutations, duplicates, unknown names, .notdef anywhere or absent), UVS maps, "
        "TTF and OTF, both UFO libraries, in memory or re-opened from disk; distinct = sha1 of the "
        "case; non-trivial = compiled (or rejected as specified) with >= 3 glyphs and an order list "
        "or a supplementary code point")
ASSUMPTIONS = [
    "fontTools' cmap / maxp / post readers are trusted",
    "'the stored glyph order' is what the UFO library reports as font.glyphOrder before the call "
    "(defcon: lib key, then unlisted glyphs in creation order; ufoLib2: the lib key only)",
    "glyph names are printable ASCII here (non-Latin-1 names cannot be written to a format-2 post "
    "table when production names are off; those are exercised by C11)",
    "'.notdef' carries no code points (a cmap cannot distinguish a mapping to glyph 0 from no "
    "mapping); UVS entries with an unmapped base code point form a separate small stratum",
]
NONVACUITY = ["compiled", "supplementary_cases", "duplicate_cp_rejected", "order_with_duplicates",
              "notdef_synthesised", "notdef_moved_first", "uvs_default", "uvs_nondefault",
              "explicit_order_arg", "exhaustive_calls"]
EXHAUSTIVE_NOTE = ("makeOfficialGlyphOrder: all name sets over a 5-name alphabet x all order lists "
                   "of length <= 4 over 6 symbols (+ None), enumerated completely in every run")

ALPHABET = [".notdef", "a", "B", "b.alt", "_x"]


def n_cases(tier):
    return 1200 if tier == "quick" else 20000


def budget_s(tier):
    return 120 if tier == "quick" else 900


NAME_PARTS = ["a", "b", "A", "Z", "zero", "_", "x.sc", "uni0041", "f_i", "a.alt", "B.001", "one",
              "space", "hyphen", "n", "N", "aa", "a_b", "z", "Aacute", "dollar", "_part", "G.ss01",
              "u1F600", "glyph00012", "b", "c", "d", "e", "ab", "ba", "Ab", "aB"]


def gen_names(rng, n):
    names = set()
    while len(names) < n:
        r = rng.random()
        if r < 0.6:
            nm = rng.choice(NAME_PARTS)
        elif r < 0.8:
            nm = rng.choice(NAME_PARTS) + "." + rng.choice(["alt", "sc", "001", "A"])
        else:
            nm = "".join(rng.choice("abcXYZ019_") for _ in range(rng.randint(1, 5)))
            if nm[0] in "0123456789":
                nm = "g" + nm
        names.add(nm)
    names = sorted(names)
    rng.shuffle(names)
    return names


def gen(rng, idx, tier):
    r = rng.random()
    stratum = "default"
    if r < 0.08:
        stratum = "duplicate_cp"
    elif r < 0.10:
        stratum = "uvs_unmapped_base"
    n = rng.choice([1, 2, 3, 4, 5, 8, 12, 20, 40, 60]) if rng.random() < 0.5 else rng.randint(3, 12)
    names = gen_names(rng, n)
    if rng.random() < 0.55:
        names[rng.randrange(len(names))] = ".notdef"
    names = list(dict.fromkeys(names))
    glyphs = []
    used = set()
    pool_bmp = [0x0, 0x0, 0xD, 0x41, 0x61, 0x20, 0x2D, 0xE9, 0x410, 0x5D0, 0x627, 0x3042, 0x4E00, 0xFFFD, 0xFFFF,
                0xFB01, 0x1, 0x7F, 0x2000]
    pool_sup = [0x10000, 0x1F600, 0x1D4A2, 0x20000, 0x10FFFF, 0xE0100, 0x1F1E6]
    use_sup = rng.random() < 0.4
    for nm in names:
        g = {"name": nm, "width": rng.choice([0, 300, 500, 600]), "unicodes": [],
             "contours": [[[0, 0, "line"], [100, 0, "line"], [50, 80, "line"]]] if rng.random() < 0.7 else []}
        if nm != ".notdef":   # a mapping to glyph 0 is the same as no mapping in a cmap
            k = rng.choice([0, 1, 1, 1, 2, 3])
            for _ in range(k):
                if use_sup and rng.random() < 0.35:
                    cp = rng.choice(pool_sup) if rng.random() < 0.5 else rng.randint(0x10000, 0x10FFFF)
                else:
                    cp = rng.choice(pool_bmp) if rng.random() < 0.5 else rng.randint(0x20, 0xFFFF)
                if 0xD800 <= cp <= 0xDFFF or cp in used:
                    continue
                used.add(cp)
                g["unicodes"].append(cp)
        glyphs.append(g)
    dup = None
    if stratum == "duplicate_cp":
        with_cp = [g for g in glyphs if g["unicodes"]]
        others = [g for g in glyphs]
        if with_cp and len(glyphs) >= 2:
            src = rng.choice(with_cp)
            dst = rng.choice([g for g in others if g is not src])
            dup = src["unicodes"][0]
            dst["unicodes"].append(dup)
        else:
            stratum = "default"
    # order list
    def order_list():
        base = list(names)
        rng.shuffle(base)
        k = rng.randint(0, len(base))
        lst = base[:k]
        if rng.random() < 0.4 and lst:
            lst.insert(rng.randrange(len(lst) + 1), rng.choice(lst))      # duplicate
        if rng.random() < 0.4:
            lst.insert(rng.randrange(len(lst) + 1), "unknown.glyph")
        if rng.random() < 0.3 and ".notdef" in names and ".notdef" not in lst:
            lst.append(".notdef")
        return lst
    stored = order_list() if rng.random() < 0.7 else None
    arg = order_list() if rng.random() < 0.35 else None
    uvs = None
    if rng.random() < 0.3:
        mapped = [(cp, g["name"]) for g in glyphs for cp in g["unicodes"]]
        if mapped:
            uvs = {}
            for vs in rng.sample([0xFE00, 0xFE0F, 0xE0100, 0xE0101], rng.randint(1, 2)):
                ent = {}
                for cp, gname in rng.sample(mapped, min(len(mapped), rng.randint(1, 3))):
                    target = gname if rng.random() < 0.5 else rng.choice(names)
                    ent["%04X" % cp] = target
                if stratum == "uvs_unmapped_base":
                    free = next(c for c in range(0x3400, 0x3500) if c not in used)
                    ent["%04X" % free] = rng.choice(names)
                uvs["%04X" % vs] = ent
    if stratum == "uvs_unmapped_base" and not uvs:
        stratum = "default"
    lib = {}
    if uvs:
        lib["public.unicodeVariationSequences"] = uvs
    layers, extra_glyphs = None, []
    real = [g for g in glyphs if g["name"] != ".notdef"]
    if stratum == "default" and len(real) >= 2 and rng.random() < 0.06:
        # a colour font: glyph A is mapped (in its own lib) to a colour layer in which it is a
        # composite of B; the layer's B is encoded.  The compiler adds 'A.<layer>' and
        # 'B.<layer>' to the glyph set - alternates that must never enter the character map
        ga, gb = rng.sample(real, 2)
        lname = rng.choice(["color1", "red"])
        if not any(g["name"] in (ga["name"] + "." + lname, gb["name"] + "." + lname) for g in glyphs):
            tri = [[[0, 0, "line"], [100, 0, "line"], [50, 80, "line"]]]
            lcp = gb["unicodes"][:1] or [next(c for c in range(0xE100, 0xE200) if c not in used)]
            layers = {lname: [
                {"name": ga["name"], "width": ga["width"], "unicodes": list(ga["unicodes"][:1]),
                 "contours": [], "components": [{"base": gb["name"], "t": [1, 0, 0, 1, 10, 0]}],
                 "anchors": []},
                {"name": gb["name"], "width": gb["width"], "unicodes": lcp, "contours": tri,
                 "components": [], "anchors": []}]}
            ga.setdefault("lib", {})["com.github.googlei18n.ufo2ft.colorLayerMapping"] = [[lname, 0]]
            lib["com.github.googlei18n.ufo2ft.colorPalettes"] = [[[1, 0, 0, 1]]]
            extra_glyphs = [ga["name"] + "." + lname, gb["name"] + "." + lname]
    skip_lib = skip_arg = None
    if stratum == "default" and dup is None and not uvs and not layers and len(real) >= 3 \
            and rng.random() < 0.12:
        # "exported": the set of glyphs that is ordered and mapped is the source's minus the
        # effective skip list - the argument when one is given (an EMPTY one says: export
        # everything), else the UFO's own public.skipExportGlyphs
        pool = [g["name"] for g in real if not g["contours"] or rng.random() < 0.5] or [real[0]["name"]]
        skip_lib = rng.sample(pool, rng.randint(1, min(3, len(pool)))) if rng.random() < 0.8 else []
        skip_arg = rng.choice([None, None, [], [], (), rng.sample(pool, 1)])
        if skip_arg is not None:
            skip_arg = list(skip_arg)
        lib["public.skipExportGlyphs"] = skip_lib
    return {"stratum": stratum, "dup": dup, "extra_glyphs": extra_glyphs,
            "skip_lib": skip_lib, "skip_arg": skip_arg,
            "ufo": dict({"glyphs": glyphs, "glyphOrder": stored, "lib": lib,
                         "info": {"unitsPerEm": 1000, "familyName": "T", "styleName": "R"}},
                        **({"layers": layers} if layers else {})),
            "arg": arg, "lib": rng.choice(["defcon", "ufoLib2"]),
            "fmt": rng.choice(["ttf", "otf"]), "disk": rng.random() < 0.2}


def sample_view(case):
    return {"names": [g["name"] for g in case["ufo"]["glyphs"]][:20],
            "unicodes": [g["unicodes"] for g in case["ufo"]["glyphs"]][:20],
            "stored_order": case["ufo"]["glyphOrder"], "order_arg": case["arg"],
            "fmt": case["fmt"], "lib": case["lib"], "stratum": case["stratum"],
            "skip_lib": case.get("skip_lib"), "skip_arg": case.get("skip_arg")}


def ref_order(names, order):
    """R-order: '.notdef' first, listed-and-present names in list order once, rest sorted."""
    names = set(names)
    out = [".notdef"]
    names.discard(".notdef")
    for n in order or ():
        if n in names:
            names.discard(n)
            out.append(n)
    out.extend(sorted(names))
    return out


def run(case):
    import shutil
    import tempfile
    import ufo2ft
    from fontTools.ttLib import TTFont
    from ufo2ft.errors import InvalidFontData

    counters = {}

    def bump(k, n=1):
        counters[k] = counters.get(k, 0) + n

    spec = case["ufo"]
    font = build_ufo(spec, case["lib"])
    tmp = None
    if case["disk"]:
        from vf.build import save_and_reopen
        tmp = tempfile.mkdtemp(prefix="vfc03_")
        try:
            font = save_and_reopen(font, case["lib"], tmp + "/f.ufo")
        except Exception:  # noqa: BLE001
            shutil.rmtree(tmp, ignore_errors=True)
            return {"status": "inconclusive", "counters": {"disk_write_failed": 1}}
    try:
        stored = list(font.glyphOrder)
        names = [g["name"] for g in spec["glyphs"]] + list(case.get("extra_glyphs") or [])
        if case.get("extra_glyphs"):
            bump("colour_layer_fonts")
        kw = dict(useProductionNames=False)
        skipped = set()
        if case.get("skip_lib") is not None:
            skipped = set(case["skip_lib"] if case["skip_arg"] is None else case["skip_arg"])
            if case["skip_arg"] is not None:
                kw["skipExportGlyphs"] = list(case["skip_arg"])
                bump("explicit_skip_argument_empty" if not case["skip_arg"]
                     else "explicit_skip_argument")
            bump("fonts_with_a_skip_list")
            names = [n for n in names if n not in skipped]
        if case["arg"] is not None:
            kw["glyphOrder"] = list(case["arg"])
            bump("explicit_order_arg")
        violations = []
        try:
            if case["fmt"] == "ttf":
                tt = ufo2ft.compileTTF(font, **kw)
            else:
                tt = ufo2ft.compileOTF(font, optimizeCFF=1, **kw)
            buf = io.BytesIO()
            tt.save(buf)
        except InvalidFontData:
            if case["dup"] is not None:
                bump("duplicate_cp_rejected")
                return {"status": "rejected_ok", "counters": counters,
                        "nontrivial": len(names) >= 3}
            return {"status": "violated", "counters": counters, "violations": [
                {"mech": "unexpected_invalid_font_data",
                 "detail": {"trace": traceback.format_exc()[-2000:]}}]}
        except Exception:  # noqa: BLE001
            return {"status": "violated", "counters": counters, "violations": [
                {"mech": "unexpected_exception", "detail": {
                    "trace": traceback.format_exc()[-2500:]}}]}
        if case["dup"] is not None:
            return {"status": "violated", "counters": counters, "violations": [
                {"mech": "duplicate_cp_accepted", "detail": {"cp": case["dup"]}}]}
        bump("compiled")
        buf.seek(0)
        tt = TTFont(buf)
        order = case["arg"] if case["arg"] is not None else stored
        exp = ref_order(names, order)
        got = tt.getGlyphOrder()
        if ".notdef" not in names:
            bump("notdef_synthesised")
        elif order and ".notdef" in order and order.index(".notdef") > 0:
            bump("notdef_moved_first")
        if order and len(set(order)) != len(order):
            bump("order_with_duplicates")
        if got != exp:
            violations.append({"mech": "glyph_order", "detail": {"expected": exp, "got": got,
                                                                 "order_used": order}})
        if tt["maxp"].numGlyphs != len(exp):
            violations.append({"mech": "numGlyphs", "detail": {"got": tt["maxp"].numGlyphs}})
        # ---- cmap
        mapping = {}
        for g in spec["glyphs"]:
            for cp in g["unicodes"]:
                if g["name"] not in skipped:
                    mapping[cp] = g["name"]
        bmp = {cp: n for cp, n in mapping.items() if cp <= 0xFFFF}
        has_sup = len(bmp) != len(mapping)
        if has_sup:
            bump("supplementary_cases")
        exp_tables = {(4, 0, 3): bmp, (4, 3, 1): bmp}
        if has_sup:
            exp_tables[(12, 0, 4)] = mapping
            exp_tables[(12, 3, 10)] = mapping
        uvs = spec["lib"].get("public.unicodeVariationSequences")
        got_tables = {}
        got_uvs = None
        for st in tt["cmap"].tables:
            key = (st.format, st.platformID, st.platEncID)
            if st.format == 14:
                got_uvs = st.uvsDict
                if key != (14, 0, 5):
                    violations.append({"mech": "cmap_unexpected_subtable", "detail": {"key": key}})
                continue
            if key in got_tables:
                violations.append({"mech": "cmap_duplicate_subtable", "detail": {"key": key}})
            got_tables[key] = dict(st.cmap)
        if set(got_tables) != set(exp_tables):
            violations.append({"mech": "cmap_subtables", "detail": {
                "expected": sorted(exp_tables), "got": sorted(got_tables)}})
        for key, m in exp_tables.items():
            if key in got_tables and got_tables[key] != m:
                diff = {hex(k): (m.get(k), got_tables[key].get(k))
                        for k in set(m) | set(got_tables[key]) if m.get(k) != got_tables[key].get(k)}
                violations.append({"mech": "cmap_mapping", "detail": {
                    "subtable": key, "diff": dict(list(diff.items())[:10])}})
        if uvs:
            exp_uvs = {}
            for hexvs, ent in uvs.items():
                lst = []
                for hexcp, gname in ent.items():
                    cp = int(hexcp, 16)
                    if mapping.get(cp) == gname:
                        lst.append((cp, None))
                        bump("uvs_default")
                    else:
                        lst.append((cp, gname))
                        bump("uvs_nondefault")
                exp_uvs[int(hexvs, 16)] = sorted(lst, key=lambda t: t[0])
            gu = {k: sorted(v, key=lambda t: t[0]) for k, v in (got_uvs or {}).items()}
            if gu != exp_uvs:
                violations.append({"mech": "uvs", "detail": {"expected": str(exp_uvs)[:600],
                                                             "got": str(gu)[:600]}})
        elif got_uvs:
            violations.append({"mech": "uvs_unexpected", "detail": {}})
        nontrivial = len(names) >= 3 and (bool(order) or has_sup)
        return {"status": "violated" if violations else "held", "violations": violations,
                "counters": counters, "nontrivial": nontrivial}
    finally:
        if tmp:
            shutil.rmtree(tmp, ignore_errors=True)


def classify(v, case):
    if (v["mech"] == "unexpected_exception" and case["stratum"] == "uvs_unmapped_base"
            and "KeyError" in v["detail"].get("trace", "")
            and "setupTable_cmap" in v["detail"].get("trace", "")):
        return "uvs_base_codepoint_unmapped_keyerror"
    return None


class _G:
    def __init__(self, name):
        self.name = name


def extra(ctx):
    """Exhaustive small scope through the real makeOfficialGlyphOrder."""
    from ufo2ft.util import makeOfficialGlyphOrder

    class FontLike(dict):
        pass

    t0 = time.time()
    symbols = ALPHABET + ["zz"]
    lists = [None]
    for k in range(0, 5):
        lists.extend(list(t) for t in itertools.product(symbols, repeat=k))
    calls = 0
    bad = []
    for mask in range(1 << len(ALPHABET)):
        names = [ALPHABET[i] for i in range(len(ALPHABET)) if mask >> i & 1]
        for lst in lists:
            f = FontLike((n, _G(n)) for n in names)
            for via_attr in ((False, True) if lst is not None else (False,)):
                if via_attr:
                    f.glyphOrder = list(lst)
                    got = makeOfficialGlyphOrder(f)
                else:
                    got = makeOfficialGlyphOrder(f, lst)
                calls += 1
                # util-level rule: '.notdef' first only IF present (it is synthesised later by the
                # outline compiler, which the random stage observes)
                exp = ref_order(names, lst)
                if ".notdef" not in names:
                    exp = exp[1:]
                if got != exp and len(bad) < 5:
                    bad.append({"names": names, "order": lst, "expected": exp, "got": got})
    rec = {"ev": "case", "idx": "exhaustive", "sig": "exhaustive-order",
           "status": "violated" if bad else "held",
           "violations": [{"mech": "exhaustive_glyph_order", "detail": b, "known_key": None}
                          for b in bad],
           "counters": {"exhaustive_calls": calls}, "nontrivial": True,
           "secs": round(time.time() - t0, 2),
           "case": {"exhaustive": True, "alphabet": symbols}}
    return [rec], {"exhaustive": False, "exhaustive_subspace_calls": calls}
