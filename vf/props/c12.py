"""C12 - CFF optimisation level, subroutiniser backend and CFF version never change what is drawn.

Relation between executions: one UFO compiled under every supported combination; all reloaded
fonts must draw every glyph identically (normal form of DESIGN 4.1), carry identical advances and
byte-identical layout tables.  Unsupported combinations must raise NotImplementedError.
"""
import copy
import io
import traceback

import vf  # noqa: F401
from vf.build import build_ufo
from vf.props.c01 import bounded_font, no_glyph_draws_anything
from vf.ref import render as R

ID = "C12"
RULE = ("case = seeded random UFO as in C01 (plus repeated contours so that subroutines are "
        "created, kerning + mark anchors + a GSUB feature so that layout tables exist) compiled "
        "under optimizeCFF {0,1,2} x subroutinizer {None,cffsubr,compreffor} x cffVersion {1,2}; "
        "1 % of the cases: ~800 glyphs sharing 230-300 curve motifs (more than 215 shared pieces, so "
        "that compreffor fills the global subroutine index too) under 4 of the combinations; "
        "distinct = sha1 of the case; non-trivial = >= 6 combinations compiled and compared and "
        "the font has a curve or a component")
ASSUMPTIONS = [
    "fontTools' CFF/CFF2 reader is trusted to report what is stored",
    "default rounding, and 20 % of the non-integer fonts with an explicit roundTolerance of 0 / 0.25 (fractional coordinates kept; cffsubr's tx stores relative operands with two decimals, so drawings are compared within 0.005 x the number of coordinates); normal form of DESIGN 4.1 (draws-nothing "
    "operations removed, cyclic comparison, collinear axis-parallel points merged); strict "
    "differences are counted per kind in the evidence",
]
NONVACUITY = ["combos_compared", "glyphs_compared", "width_eq_default", "zero_length_sources",
              "fonts_with_subrs", "rejected_not_implemented", "layout_tables_compared",
              "cff1_fonts_with_global_subrs_compreffor"]

COMBOS = [
    (0, None, 1), (0, None, 2), (1, None, 1), (1, None, 2),
    (2, None, 1), (2, None, 2), (2, "cffsubr", 1), (2, "cffsubr", 2),
    (2, "compreffor", 1), (2, "compreffor", 2), (0, "compreffor", 2), (1, "cffsubr", 1),
]


def n_cases(tier):
    return 200 if tier == "quick" else 4000


def budget_s(tier):
    return 150 if tier == "quick" else 1500


FEA = """
languagesystem DFLT dflt;
feature liga { sub %s by %s; } liga;
"""


def gen_many_motifs(rng):
    """A real-size amount of repetition: a few hundred distinct curve motifs, each shared by
    three glyphs - more shared pieces than one-byte local subroutine numbers can address (215),
    so that compreffor also fills the GLOBAL subroutine index."""
    n_motifs = rng.choice([230, 260, 300])
    glyphs = []
    gi = 0
    for m in range(n_motifs):
        segs = [[(rng.randint(-90, 90), rng.randint(-90, 90)) for _ in range(3)] for _ in range(6)]
        for r in range(3):
            gi += 1
            ox, oy = 100 + 3 * r + m % 7, 50 + 5 * r
            tri = [[ox, oy, "line"], [ox + 40 + gi % 50, oy, "line"], [ox + 17, oy + 33 + gi % 31, "line"]]
            x, y = 300, 300
            pts = []
            for seg in segs:
                for j, (dx, dy) in enumerate(seg):
                    x += dx
                    y += dy
                    pts.append([x, y, "curve" if j == 2 else None])
            # closed contour that starts at its last on-curve point
            motif = [pts[-1]] + pts[:-1]
            glyphs.append({"name": "g%04d" % gi, "width": 600, "unicodes": [],
                           "contours": [tri, motif], "components": [], "anchors": []})
    glyphs.append({"name": "A", "width": 700, "unicodes": [0x41], "components": [],
                   "anchors": [{"name": "top", "x": 250, "y": 700}],
                   "contours": [[[0, 0, "line"], [300, 0, "line"], [150, 650, "line"]]]})
    glyphs.append({"name": "gravecomb", "width": 0, "unicodes": [0x300], "components": [],
                   "anchors": [{"name": "_top", "x": 100, "y": 600}],
                   "contours": [[[50, 620, "line"], [150, 620, "line"], [100, 720, "line"]]]})
    glyphs.append({"name": "V", "width": 680, "unicodes": [0x56], "components": [], "anchors": [],
                   "contours": [[[0, 650, "line"], [150, 0, "line"], [300, 650, "line"]]]})
    return {"stratum": "many_motifs",
            "ufo": {"glyphs": glyphs, "info": {"unitsPerEm": 1000, "familyName": "T", "styleName": "R"},
                    "kerning": [["A", "V", -40]], "features": FEA % ("A", "V")},
            "lib": rng.choice(["defcon", "ufoLib2"])}


MANY_COMBOS = [(0, None, 1), (2, "compreffor", 1), (2, "cffsubr", 1), (2, None, 2)]


def gen(rng, idx, tier):
    if idx % 100 == 37:
        return gen_many_motifs(rng)
    mode = rng.choice(["mixed", "dyadic", "int"])
    glyphs = bounded_font(rng, mode)
    # repeat contours across glyphs -> the subroutinisers find something to share
    donors = [g for g in glyphs if g["contours"]]
    if donors and rng.random() < 0.7:
        d = rng.choice(donors)
        for k in range(rng.randint(2, 5)):
            dx = rng.choice([0, 10, 250])
            glyphs.append({
                "name": "rep%d" % k, "width": rng.choice([600, 600, 500 + k]), "unicodes": [],
                "contours": [[[p[0] + dx, p[1], p[2], p[3] if len(p) > 3 else False] for p in c]
                             for c in d["contours"]] * rng.choice([1, 2]),
                "components": [], "anchors": []})
    names = [g["name"] for g in glyphs if g["name"] != ".notdef"]
    kerning, features = [], ""
    if len(names) >= 3:
        for _ in range(rng.randint(1, 4)):
            a, b = rng.choice(names), rng.choice(names)
            kerning.append([a, b, rng.choice([-40, 25, -7.5, 12])])
        kerning = [list(x) for x in {(a, b): (a, b, v) for a, b, v in kerning}.values()]
        base, mark = names[0], names[1]
        for g in glyphs:
            if g["name"] == base:
                g["anchors"] = [{"name": "top", "x": 250, "y": 700}]
            elif g["name"] == mark:
                g["anchors"] = [{"name": "_top", "x": 100, "y": 600.5}]
        features = FEA % (names[0], names[2])
    info = {"unitsPerEm": 1000, "familyName": "T", "styleName": "R"}
    if rng.random() < 0.2:
        info["postscriptDefaultWidthX"] = rng.choice([600, 600, 0, -10])
        info["postscriptNominalWidthX"] = rng.choice([500, 600, 0, -40, -250.5])
    # an explicit rounding tolerance (fractional coordinates are kept): the same one for every
    # combination, so what is drawn must still not depend on the combination
    tol = rng.choice([0, 0.25]) if mode != "int" and rng.random() < 0.2 else None
    return {"ufo": {"glyphs": glyphs, "info": info, "kerning": kerning, "features": features},
            "roundTolerance": tol, "lib": rng.choice(["defcon", "ufoLib2"])}


def sample_view(case):
    g = case["ufo"]["glyphs"]
    return {"lib": case["lib"], "n_glyphs": len(g), "first_glyph": g[0],
            "kerning": case["ufo"]["kerning"], "info": case["ufo"]["info"]}


def observe(tt, names):
    from fontTools.pens.recordingPen import RecordingPen
    gs = tt.getGlyphSet()
    cff1 = tt["CFF "].cff.topDictIndex[0].CharStrings if "CFF " in tt else None
    out = {}
    for n in names:
        rec = RecordingPen()
        gs[n].draw(rec)
        cyc = R.recording_to_cycles(rec.value)
        out[n] = {"strict": R.canon_drawing(cyc), "merged": R.canon_drawing(cyc, merge=True),
                  "raw": rec.value, "adv": tt["hmtx"][n][0]}
        if cff1 is not None:
            cs = cff1[n]
            cs.draw(RecordingPen())
            out[n]["cswidth"] = cs.width     # the charstring's own width operand (CFF 1 only)
    return out


def _approx(a, b, tol=0.01):
    if isinstance(a, (int, float)) and isinstance(b, (int, float)) and not isinstance(a, bool):
        return abs(a - b) <= tol
    if isinstance(a, (list, tuple)) and isinstance(b, (list, tuple)):
        return len(a) == len(b) and all(_approx(x, y, tol) for x, y in zip(a, b))
    try:
        return abs(float(a) - float(b)) <= tol
    except (TypeError, ValueError):
        return a == b


def _count(a):
    if isinstance(a, (list, tuple)):
        return sum(_count(x) for x in a)
    return 1


def n_subrs(tt):
    n = 0
    tag = "CFF " if "CFF " in tt else "CFF2"
    cff = tt[tag].cff
    td = cff.topDictIndex[0]
    n += len(cff.GlobalSubrs or [])
    try:
        for fd in getattr(td, "FDArray", None) or []:
            n += len(getattr(fd.Private, "Subrs", None) or [])
    except Exception:  # noqa: BLE001
        pass
    try:
        n += len(getattr(td.Private, "Subrs", None) or [])
    except Exception:  # noqa: BLE001
        pass
    return n


def run(case):
    import ufo2ft
    from fontTools.ttLib import TTFont

    counters = {}

    def bump(k, n=1):
        counters[k] = counters.get(k, 0) + n

    spec = case["ufo"]
    names = None
    results = {}
    violations = []
    all_empty = not any(g["contours"] for g in spec["glyphs"])
    for opt, sub, ver in (MANY_COMBOS if case.get("stratum") == "many_motifs" else COMBOS):
        font = build_ufo(spec, case["lib"])
        kw = dict(useProductionNames=False, optimizeCFF=opt, cffVersion=ver)
        if sub is not None:
            kw["subroutinizer"] = sub
        if case.get("roundTolerance") is not None:
            kw["roundTolerance"] = case["roundTolerance"]
        supported = not (opt >= 2 and sub == "compreffor" and ver == 2)
        try:
            otf = ufo2ft.compileOTF(font, **kw)
            buf = io.BytesIO()
            otf.save(buf)
        except NotImplementedError:
            if not supported:
                bump("rejected_not_implemented")
                continue
            violations.append({"mech": "unexpected_not_implemented",
                               "detail": {"combo": [opt, sub, ver]}})
            continue
        except Exception:  # noqa: BLE001
            violations.append({"mech": "unexpected_exception", "detail": {
                "combo": [opt, sub, ver], "trace": traceback.format_exc()[-2500:]}})
            continue
        if not supported:
            violations.append({"mech": "unsupported_combo_accepted",
                               "detail": {"combo": [opt, sub, ver]}})
            continue
        buf.seek(0)
        tt = TTFont(buf)
        if ("CFF2" in tt) != (ver == 2) or ("CFF " in tt) != (ver == 1):
            violations.append({"mech": "wrong_cff_version", "detail": {
                "combo": [opt, sub, ver], "tables": sorted(tt.keys())}})
            continue
        if names is None:
            names = tt.getGlyphOrder()
        elif names != tt.getGlyphOrder():
            violations.append({"mech": "glyph_order_differs", "detail": {"combo": [opt, sub, ver]}})
            continue
        layout = {t: tt.reader[t] for t in ("GPOS", "GDEF", "GSUB") if t in tt.reader}
        if "CFF " in tt and len(tt["CFF "].cff.GlobalSubrs or []):
            bump("cff1_fonts_with_global_subrs_%s" % (sub or "default"))
        try:
            obs = observe(tt, names)
        except Exception:  # noqa: BLE001
            violations.append({"mech": "saved_font_cannot_be_drawn", "detail": {
                "combo": [opt, sub, ver], "trace": traceback.format_exc()[-1500:]}})
            continue
        results[(opt, sub, ver)] = {"glyphs": obs, "layout": layout,
                                    "subrs": n_subrs(tt) if opt >= 2 else 0}
    keys = list(results)
    fractional = case.get("roundTolerance") is not None
    if fractional:
        bump("fonts_compiled_with_explicit_round_tolerance")
        if any(isinstance(v, float) and v != int(v) for r_ in results.values()
               for o in r_["glyphs"].values() for _op, args in o["raw"] for pt in args if pt
               for v in pt):
            bump("fonts_keeping_fractional_coordinates")
    if len(keys) >= 2:
        ref_key = keys[0]
        ref = results[ref_key]
        for k in keys[1:]:
            cur = results[k]
            bump("combos_compared")
            for n in names:
                a, b = ref["glyphs"][n], cur["glyphs"][n]
                bump("glyphs_compared")
                if a["adv"] != b["adv"]:
                    violations.append({"mech": "advance_differs", "detail": {
                        "glyph": n, "combos": [list(ref_key), list(k)],
                        "advances": [a["adv"], b["adv"]]}})
                for side, key in ((a, ref_key), (b, k)):
                    if "cswidth" in side and side["cswidth"] != side["adv"] and not side.get("_rep"):
                        side["_rep"] = True
                        violations.append({"mech": "charstring_width_differs_from_hmtx", "detail": {
                            "glyph": n, "combo": list(key), "hmtx": side["adv"],
                            "charstring": side["cswidth"]}})
                if fractional and a["merged"] != b["merged"] and k[0] >= 2 and k[1] != "compreffor":
                    # cffsubr's tx rewrites fractional (relative) operands with two decimals: the
                    # absolute position of the k-th point is off by up to 0.005 k - enough to
                    # change what the normal form merges, so the recordings are compared instead
                    ra, rb = a["raw"], b["raw"]
                    if [o for o, _a in ra] != [o for o, _a in rb]:
                        bump("fractional_tx_drawings_not_comparable")
                    elif _approx([x for _o, x in ra], [x for _o, x in rb],
                                 0.005 * _count([x for _o, x in ra]) + 0.002):
                        bump("fractional_tx_drawings_equal_within_two_decimal_operands")
                    else:
                        violations.append({"mech": "drawing_differs", "detail": {
                            "glyph": n, "combos": [list(ref_key), list(k)], "beyond_tx_noise": True,
                            "a": str(ra)[:1500], "b": str(rb)[:1500]}})
                elif fractional and a["merged"] != b["merged"] and _approx(
                        a["merged"], b["merged"], 2.0 ** -15 * _count(a["merged"]) + 1e-9):
                    # fractional operands are stored as 16.16 fixed-point DELTAS: the absolute
                    # position of a point depends (by 2^-16 per operand) on how the path before
                    # it was encoded
                    bump("fractional_drawings_equal_within_16_16_operand_rounding")
                elif a["merged"] != b["merged"]:
                    violations.append({"mech": "drawing_differs", "detail": {
                        "glyph": n, "combos": [list(ref_key), list(k)],
                        "a": str(a["raw"])[:1500], "b": str(b["raw"])[:1500]}})
                elif a["strict"] != b["strict"]:
                    bump("strict_diff_axis_merge")
                elif a["raw"] != b["raw"]:
                    bump("strict_diff_encoding_only")
            if set(ref["layout"]) != set(cur["layout"]):
                violations.append({"mech": "layout_tables_differ", "detail": {
                    "combos": [list(ref_key), list(k)],
                    "tables": [sorted(ref["layout"]), sorted(cur["layout"])]}})
            else:
                for t in ref["layout"]:
                    bump("layout_tables_compared")
                    if ref["layout"][t] != cur["layout"][t]:
                        violations.append({"mech": "layout_bytes_differ", "detail": {
                            "table": t, "combos": [list(ref_key), list(k)]}})
    if any(r["subrs"] for r in results.values()):
        bump("fonts_with_subrs")
    # value-dependent paths
    from fontTools.cffLib.width import optimizeWidths
    widths = [R.otround(g["width"]) for g in spec["glyphs"]]
    info = spec["info"]
    if "postscriptDefaultWidthX" in info:
        dw = info["postscriptDefaultWidthX"]
    else:
        dw = optimizeWidths(widths + ([500] if ".notdef" not in [g["name"] for g in spec["glyphs"]] else []))[0]
    if any(g["width"] == dw for g in spec["glyphs"]):
        bump("width_eq_default")
    for g in spec["glyphs"]:
        for c in g["contours"]:
            ons = [p for p in c if p[2] is not None]
            for i in range(len(ons)):
                if len(ons) > 1 and ons[i][0] == ons[i - 1][0] and ons[i][1] == ons[i - 1][1]:
                    bump("zero_length_sources")
                    break
    nontrivial = len(keys) >= (3 if case.get("stratum") == "many_motifs" else 6) and any(
        g["components"] or any(p[2] in ("curve", "qcurve") for c in g["contours"] for p in c)
        for g in spec["glyphs"])
    return {"status": "violated" if violations else "held", "violations": violations,
            "counters": counters, "nontrivial": nontrivial}


def classify(v, case):
    if v["mech"] == "unexpected_exception" and "tx:" in v["detail"].get("trace", ""):
        combo = v["detail"]["combo"]
        if (combo[2] == 2 and combo[0] >= 2 and combo[1] in (None, "cffsubr")
                and no_glyph_draws_anything(case["ufo"]["glyphs"], case.get("roundTolerance"))):  # no path: tx discards contours whose points all coincide
            return "cffsubr_cff2_all_glyphs_empty"
    return None
