def define(M):
    M("C15", "transformations_ignores_include_for_bases", "Lib/ufo2ft/filters/transformations.py",
      "            if self.include(base_glyph) and self.filter(base_glyph):",
      "            if self.filter(base_glyph):")
