"""C05 - Generated kerning applies the UFO kerning value to every pair, once.

Run: multi-script repertoires x kerning dictionaries (all four precedence levels, exceptions,
zero / fractional / negative values, missing glyphs, unknown groups) x GDEF marks x languagesystems
x quantisation x both kern writers -> compileTTF -> save -> reload.
Observe: the reloaded GPOS/GDEF evaluated per script tag by the R-gpos interpreter.
Oracle: R-kern (UFO kerning lookup over groups pruned to exported glyphs) + quantisation, judged
for the pairs of DESIGN 4.4.
"""
import io
import traceback

import vf  # noqa: F401
from vf.build import build_ufo
from vf.gen import scripts as S
from vf.ref import render as R
from vf.ref.gpos import Gpos

ID = "C05"
RULE = ("case = multi-script repertoire (1-3 of Latn/Cyrl/Grek/Arab/Hebr/Deva/Hira/Kana + digits, "
        "punctuation, combining marks, GSUB-reachable alternates/ligatures, orphans) x kerning "
        "(disjoint public.kern1/2 partitions; glyph-glyph, glyph-group, group-glyph, group-group "
        "keys with deliberate exceptions incl. zero; fractional/negative values; keys naming "
        "missing / non-exported glyphs and unknown groups) x categories on/off x languagesystems "
        "none/some/all x quantization {1,2,5,10} with kerning values on exact half-step ties of both parities and signs (5 %: three same-direction scripts whose kerning script sets overlap only pairwise, in an order that needs repeated merging) x {KernFeatureWriter, legacy kernFeatureWriter2}; "
        "every ordered glyph pair (<= 30 glyphs) is evaluated under every script tag of the "
        "ScriptList; distinct = sha1 of the case; non-trivial = GPOS compiled and >= 1 non-zero "
        "judged pair")
ASSUMPTIONS = [
    "fontTools' GPOS/GDEF readers are trusted; shaper semantics as in DESIGN section 3 (R-gpos)",
    "a pair is judged under tag t only if both glyphs belong to a Unicode script of t (script "
    "extensions, closed over the generated GSUB rules; Hira/Kana unified) or are script-neutral, "
    "and they do not carry opposite strong bidi classes; other pairs must get 0 or the UFO value",
    "x-placement is required (equal to the advance) exactly when the tag's script is right-to-left "
    "and no glyph of the pair has bidi class L/EN/AN; left-to-right tags must have placement 0",
    "kerning groups form disjoint partitions per side (the statement's quantifier)",
]
NONVACUITY = ["fonts_judged", "pairs_judged", "nonzero_judged", "exception_overrides_class",
              "zero_exceptions", "rtl_pairs_judged", "mark_pairs_judged", "dist_scripts",
              "legacy_writer_fonts", "quantized_fonts", "outside_pairs_checked"]


def n_cases(tier):
    return 700 if tier == "quick" else 15000


def budget_s(tier):
    return 150 if tier == "quick" else 1500


def gen_kerning(rng, names, skip):
    """Disjoint group partitions + pairs at all four precedence levels."""
    groups = {}
    pool1 = [n for n in names if rng.random() < 0.7]
    pool2 = [n for n in names if rng.random() < 0.7]
    rng.shuffle(pool1)
    rng.shuffle(pool2)
    for side, pool in (("public.kern1.", pool1), ("public.kern2.", pool2)):
        i = 0
        k = 0
        while i < len(pool):
            size = rng.choice([1, 2, 2, 3, 4])
            members = pool[i:i + size]
            i += size
            if rng.random() < 0.15:
                members = members + ["ghost.glyph"]          # non-existent member
            groups[side + "G%d" % k] = members
            k += 1
    g1 = [g for g in groups if g.startswith("public.kern1.")]
    g2 = [g for g in groups if g.startswith("public.kern2.")]
    # (x.5 values on both parities and both signs: exact ties of the rounding to the step, at
    # step 1 as well as 2 / 5 / 10)
    val = lambda: rng.choice([-80, -50, -25, -12.5, -7, 10, 15.5, 30, 42, 60, -3, 2.4,  # noqa: E731
                              2.5, -1.5, 0.5, 12.5, -7.5, 25, 45, -15, 5, 22.5, -2.5, 1])
    kern = {}
    n_pairs = rng.randint(2, 14)
    for _ in range(n_pairs):
        r = rng.random()
        if r < 0.35 and g1 and g2:
            kern[(rng.choice(g1), rng.choice(g2))] = val()
        elif r < 0.5 and g1:
            kern[(rng.choice(g1), rng.choice(names))] = val()
        elif r < 0.65 and g2:
            kern[(rng.choice(names), rng.choice(g2))] = val()
        else:
            kern[(rng.choice(names), rng.choice(names))] = val()
    # deliberate exceptions to class pairs
    for (l, r_), v in list(kern.items()):
        if l in groups and r_ in groups and rng.random() < 0.6:
            lm = [m for m in groups[l] if m in names]
            rm = [m for m in groups[r_] if m in names]
            if lm and rm:
                q = rng.random()
                ev = 0 if rng.random() < 0.3 else val()
                if q < 0.4:
                    kern[(rng.choice(lm), rng.choice(rm))] = ev
                elif q < 0.7:
                    kern[(rng.choice(lm), r_)] = ev
                else:
                    kern[(l, rng.choice(rm))] = ev
    # noise: keys naming missing glyphs / unknown groups / zero class pairs
    if rng.random() < 0.4:
        kern[("ghost.glyph", rng.choice(names))] = val()
    if rng.random() < 0.3:
        kern[("public.kern1.UNKNOWN", rng.choice(names))] = val()
    if rng.random() < 0.3 and g1 and g2:
        kern[(rng.choice(g1), rng.choice(g2))] = 0
    if skip and rng.random() < 0.7:
        kern[(rng.choice(skip), rng.choice(names))] = val()
    return [[l, r_, v] for (l, r_), v in kern.items()], groups


def writer_neutral_glyphs(desc, rules, writer):
    """Glyphs the given writer treats as direction-neutral (a model of each writer's glyph
    classification, used ONLY to keep the default stratum clear of the listed findings and to
    recognise them - never by the oracle):
    * current writer: a glyph belongs to script s if it is reachable through GSUB from the
      glyphs whose code points have s in their script EXTENSIONS, starting from those glyphs
      alone; everything else (punctuation, digits, orphans, but also a ligature of a letter with
      a neutral glyph) is 'common';
    * legacy writer: direction comes from the script PROPERTY of the code points (Arabic or
      Hebrew combining marks, script Zinh, are neutral for it) and neutral glyphs take part in
      every closure, so only what is reachable from neutral glyphs alone stays neutral."""
    from fontTools import unicodedata as ud

    def reach_from(start):
        reach = set(start)
        for _ in range(len(desc) + 2):
            n = len(reach)
            for r in rules:
                if r["out"] in desc and all(i in reach for i in r["in"]):
                    reach.add(r["out"])
            if len(reach) == n:
                break
        return reach

    if writer == "new":
        by_script = {}
        for g, d in desc.items():
            for u in d["unicodes"]:
                for sc in S.key_scripts(u):
                    by_script.setdefault(sc, set()).add(g)
        scripted = set()
        for sc, start in by_script.items():
            scripted |= reach_from(start)
        return set(desc) - scripted
    neutral0 = {g for g, d in desc.items() if d["unicodes"] and all(
        ud.script(chr(u)) in ("Zyyy", "Zinh", "Zzzz") for u in d["unicodes"])}
    directed = {g for g, d in desc.items() if d["unicodes"]} - neutral0
    reached_directed = reach_from(directed | neutral0) - reach_from(neutral0)
    return set(desc) - reached_directed - directed


def bidi_labels(desc, rules):
    from fontTools import unicodedata as ud
    return S.closure(desc, rules, lambda u: _bidi(ud, u))


def avoid_listed_mechanisms(rng, desc, rules, writer, kerning, groups):
    """Default stratum of fonts with a right-to-left script: keep clear of the two listed
    findings - (1) no kerning key may pair a direction-neutral glyph with a direction-neutral
    glyph (neutral glyphs are allowed on one side only), (2) no class may mix members whose bidi
    class is L/EN/AN with members of another bidi class."""
    neutral = writer_neutral_glyphs(desc, rules, writer)
    bidi = bidi_labels(desc, rules)
    # (letters of a left-to-right SCRIPT may share a class with right-to-left letters: the
    # writers split classes by script first, the listed mechanism is about members that stay
    # together after that split - digits among punctuation, Arabic-Indic digits among letters)
    scr = S.closure(desc, rules, S.key_scripts)
    ltr_script = {m for m in desc if scr.get(m) and all(
        S.script_direction(x) == "LTR" for x in scr[m])}
    side = rng.choice(["public.kern1.", "public.kern2."])
    new_groups = {}
    for name, members in groups.items():
        ms = list(members)
        if name.startswith(side):
            ms = [m for m in ms if m not in neutral or m not in desc]
        ls = [m for m in ms if "L" in bidi.get(m, ()) and m not in ltr_script]
        if ls and len(ls) != len([m for m in ms if m in desc and m not in ltr_script]):
            ms = [m for m in ms if "L" not in bidi.get(m, ()) or m in ltr_script]
        if ms:
            new_groups[name] = ms
    idx = 0 if side.endswith("1.") else 1
    new_kerning = []
    for l, r_, v in kerning:
        k = (l, r_)[idx]
        if k in neutral:
            continue
        if k.startswith("public.kern") and k not in new_groups:
            continue
        new_kerning.append([l, r_, v])
    return new_kerning, new_groups


def script_chain_kerning(rng, desc, skip):
    """Kerning whose script sets overlap only pairwise, in an order that needs more than one
    merging pass: {A}, then {B, C}, then the bridge {A, B}, then a pure-C pair (the kern writer
    puts pairs whose script sets are transitively connected into ONE lookup)."""
    by = {}
    for n, d in desc.items():
        if d["kind"] == "letter" and len(set(d["script"])) == 1 and not d["mark"] and n not in skip:
            by.setdefault(d["script"][0], []).append(n)
    scr = [s_ for s_ in ("Latn", "Cyrl", "Grek") if len(by.get(s_, [])) >= 3]
    if len(scr) < 3:
        return None
    rng.shuffle(scr)
    A, B, C = (by[x] for x in scr)
    for l in (A, B, C):
        rng.shuffle(l)
    val = lambda: rng.choice([-80, -50, -25, -7, 10, 30, 42, 60])  # noqa: E731
    groups = {"public.kern1.BC": [B[0], C[0]], "public.kern1.AB": [A[2], B[1]]}
    kerning = [[A[0], A[1], val()],
               ["public.kern1.BC", C[1], val()],
               ["public.kern1.AB", rng.choice([B[2], A[1]]), val()],
               [C[2], C[1], val()],
               [C[0], C[2], val()]]
    if rng.random() < 0.5:
        kerning.append([B[2], B[0], val()])
    extra = by.get("Hira", [])
    if len(extra) >= 2:
        kerning.append([extra[0], extra[1], val()])
    return kerning, groups


def gen(rng, idx, tier):
    r = rng.random()
    stratum = "default"
    scripts = None
    if r < 0.45:
        scripts = rng.sample(["Latn", "Cyrl", "Grek", "Deva", "Hira", "Kana"], rng.choice([1, 2, 2, 3]))
    elif r < 0.75:
        scripts = rng.sample(["Arab", "Hebr"], rng.choice([1, 1, 2]))
    elif r < 0.9:
        scripts = [rng.choice(["Arab", "Hebr"]), rng.choice(["Latn", "Cyrl", "Grek"])]
    chain = r < 0.45 and rng.random() < 0.12
    if chain:
        scripts = rng.sample(["Latn", "Cyrl", "Grek"], 3)
        if rng.random() < 0.5:
            scripts.append("Hira")          # a further, unrelated bucket behind the chain
    glyphs, desc = S.repertoire(rng, scripts=scripts, n=12 if chain else rng.choice([4, 6, 8, 10]))
    writer = rng.choice(["new", "new", "legacy"])
    names = [g["name"] for g in glyphs if g["name"] != ".notdef"]
    rules = S.rules_for(desc)
    skip = []
    if rng.random() < 0.2 and len(names) > 4:
        # the feature file is left untouched by skipExportGlyphs: only skip glyphs it does not name
        in_rules = {n for r_ in rules for n in r_["in"] + [r_["out"]]}
        cands = [n for n in names if n not in in_rules]
        if cands:
            skip = rng.sample(cands, min(len(cands), rng.randint(1, 2)))
    kerning, groups = gen_kerning(rng, names, skip)
    if chain:
        ck = script_chain_kerning(rng, desc, skip)
        if ck:
            kerning, groups = ck
    has_rtl = any(S.script_direction(s_) == "RTL" for d in desc.values() for s_ in d["script_ext"])
    if has_rtl:
        q0 = rng.random()
        if q0 < 0.08:
            stratum = "neutral_pair_rtl"
        elif q0 < 0.16:
            stratum = "bidi_mixed_class"
        else:
            kerning, groups = avoid_listed_mechanisms(rng, desc, rules, writer, kerning, groups)
    if has_rtl and stratum == "default" and rng.random() < 0.4:
        # a first-side class that holds one letter of a left-to-right script and one of a
        # right-to-left script (no neutral member), kerned against single-direction glyphs:
        # after the split by script each part is unambiguous
        ltr = [n for n in names if desc[n]["kind"] == "letter" and desc[n]["script"]
               and all(S.script_direction(x) == "LTR" for x in desc[n]["script"]) and n not in skip]
        rtl = [n for n in names if desc[n]["kind"] == "letter" and desc[n]["script"]
               and all(S.script_direction(x) == "RTL" for x in desc[n]["script"]) and n not in skip]
        if len(ltr) >= 2 and len(rtl) >= 2:
            a, b = rng.sample(ltr, 2)
            c, d_ = rng.sample(rtl, 2)
            for k in list(groups):
                if k.startswith("public.kern1."):
                    groups[k] = [m for m in groups[k] if m not in (a, c)]
                    if not groups[k]:
                        del groups[k]
                        kerning = [kk for kk in kerning if kk[0] != k]
            groups["public.kern1.MIXDIR"] = [a, c]
            kerning = [kk for kk in kerning if tuple(kk[:2]) not in (
                ("public.kern1.MIXDIR", b), ("public.kern1.MIXDIR", d_))]
            kerning.append(["public.kern1.MIXDIR", b, rng.choice([-40, 35])])
            kerning.append(["public.kern1.MIXDIR", d_, rng.choice([-25, 15])])
    used_scripts = sorted({s for d in desc.values() for s in d["script"]
                           if s not in ("Zyyy", "Zinh", "Zzzz")})
    q = rng.random()
    if q < 0.4:
        ls = None
    else:
        tags = [("DFLT", "dflt")]
        for s in used_scripts:
            if q >= 0.7 or rng.random() < 0.5:
                for t in S.ot_script_tags(s):
                    tags.append((t, "dflt"))
        ls = tags
    features, rules = S.gsub_alternates(rng, desc, languagesystems=ls, rules=rules)
    stale_classes = 0
    if rng.random() < 0.15 and groups:
        # glyph classes left in the user's feature file by an earlier export, named the way the
        # writer names its own kerning classes (@kern1.<Script>.<group>) but with other members:
        # the writer has to steer clear of the names, the UFO groups stay what decides
        lines = []
        for gname in sorted(groups):
            side, _, short = gname[len("public."):].partition(".")
            for sc in list(used_scripts) + ["Default"]:
                if rng.random() < 0.6:
                    lines.append("@%s.%s.%s = [%s];" % (
                        side, sc, short, rng.choice([n for n in names if n not in skip] or names)))
        stale_classes = len(lines)
        fl = features.split("\n")
        k = max([i for i, l in enumerate(fl) if l.startswith("languagesystem")] + [-1]) + 1
        features = "\n".join(fl[:k] + lines + fl[k:])
    ds_rules = None
    if stratum == "default" and rng.random() < 0.08:
        # the font as the default master of a two-master designspace with two RULES that swap the
        # same letter for different, unencoded alternates: the alternates are that letter's
        # script and direction (the compilers tell the feature writers about rule substitutions)
        letters_ = [n for n in names if desc[n]["kind"] == "letter" and desc[n]["script"]
                    and n not in skip and not desc[n]["mark"]]
        if has_rtl:
            letters_ = [n for n in letters_ if all(S.script_direction(x) == "RTL" for x in desc[n]["script"])] or letters_
        if letters_:
            x_ = rng.choice(letters_)
            alts_ = [x_ + ".rule1", x_ + ".rule2"]
            if not any(a in desc for a in alts_):
                for a in alts_:
                    glyphs.append(S._spec(rng, a, []))
                    desc[a] = S.describe(a, [], "alternate", [x_])
                kerning = [k for k in kerning if k[0] not in alts_ and k[1] not in alts_]
                kerning.append([alts_[0], alts_[0], rng.choice([-40, 30])])
                kerning.append([alts_[0], alts_[1], rng.choice([-25, 15])])
                kerning.append([x_, alts_[1], -10])
                ds_rules = [[x_, alts_[0]], [x_, alts_[1]]]
                rules = rules + [{"type": "single", "feature": "rvrn", "in": [x_], "out": a}
                                 for a in alts_]
    lib = {}
    cats = rng.random() < 0.5
    if cats:
        c = {}
        for g in glyphs:
            d = desc[g["name"]]
            if d["mark"]:
                c[g["name"]] = "mark"
            elif d["kind"] == "ligature":
                c[g["name"]] = "ligature"
            elif d["kind"] in ("letter", "alternate", "digit"):
                c[g["name"]] = "base"
        lib["public.openTypeCategories"] = c
        if rng.random() < 0.4:
            for g in glyphs:            # spacing combining marks
                if desc[g["name"]]["mark"] and rng.random() < 0.5:
                    g["width"] = 120
    if skip:
        lib["public.skipExportGlyphs"] = skip
    # call history: the same writer OBJECTS first serve another font (a writer passed as an
    # instance to several compiles); nothing of that font may show in this one
    warmup = None
    if stratum == "default" and rng.random() < 0.2:
        wscripts = [rng.choice([s_ for s_ in S.ALL_SCRIPTS if s_ not in (scripts or [])] or S.ALL_SCRIPTS)]
        danda = None
        if rng.random() < 0.5:
            # a character whose Script_Extensions name many scripts (DANDA, U+0964): Devanagari
            # punctuation in the other font, Bengali punctuation in this one
            wscripts = ["Deva"]
            for n_, cp in (("ka-beng", 0x995), ("kha-beng", 0x996), ("danda", 0x964)):
                if not any(g["name"] == n_ for g in glyphs):
                    glyphs.append(S._spec(rng, n_, [cp]))
            kerning = [k for k in kerning if k[:2] != ["danda", "danda"]] + [
                ["danda", "danda", rng.choice([-30, 25])]]
            if rng.random() < 0.3:
                kerning.append(["ka-beng", "kha-beng", -20])
            danda = S._spec(rng, "danda", [0x964])
        wglyphs, wdesc = S.repertoire(rng, scripts=wscripts, n=4)
        if danda:
            wglyphs.append(danda)
        wnames = [g["name"] for g in wglyphs if g["name"] != ".notdef"]
        wk, wg = gen_kerning(rng, wnames, [])
        if danda:
            wk = [list(k) for k in wk] + [["danda", "danda", -10], ["ka-deva", "danda", -5]]
            wk = [list(v) for v in {(a, b): (a, b, c) for a, b, c in wk}.values()]
        warmup = {"glyphs": wglyphs, "kerning": wk, "groups": wg, "features": "", "lib": {},
                  "info": {"unitsPerEm": 1000, "familyName": "W", "styleName": "R"}}
    return {"stratum": stratum, "chain": chain, "warmup": warmup,
            "ufo": {"glyphs": glyphs, "kerning": kerning, "groups": groups, "features": features,
                    "lib": lib, "info": {"unitsPerEm": 1000, "familyName": "T", "styleName": "R"}},
            "rules": rules, "ds_rules": ds_rules, "lib": rng.choice(["defcon", "ufoLib2"]),
            "writer": writer, "stale_classes": stale_classes,
            "quantization": rng.choice([1, 1, 5, 2, 10]), "skip": skip}


def sample_view(case):
    u = case["ufo"]
    return {"glyphs": [(g["name"], g["unicodes"]) for g in u["glyphs"]], "kerning": u["kerning"],
            "groups": u["groups"], "features": u["features"], "writer": case["writer"],
            "quantization": case["quantization"], "lib": u["lib"]}


# ---------------------------------------------------------------- R-kern

class RKern:
    def __init__(self, kerning, groups, exported):
        self.k = {(l, r): v for l, r, v in kerning}
        self.g1, self.g2 = {}, {}
        for name, members in groups.items():
            ms = [m for m in members if m in exported]
            if not ms:
                continue
            if name.startswith("public.kern1."):
                for m in ms:
                    self.g1.setdefault(m, name)
            elif name.startswith("public.kern2."):
                for m in ms:
                    self.g2.setdefault(m, name)

    def lookup(self, a, b):
        """(value, level) with UFO precedence glyph-glyph, glyph-group, group-glyph, group-group."""
        ga, gb = self.g1.get(a), self.g2.get(b)
        for lvl, key in enumerate(((a, b), (a, gb), (ga, b), (ga, gb))):
            if None in key:
                continue
            if key in self.k:
                return self.k[key], lvl, key
        return 0, None, None


def quantize(v, q):
    return q * R.otround(R.fr(v) / q)


def run(case):
    import ufo2ft
    from fontTools import unicodedata as ud
    from fontTools.ttLib import TTFont
    from ufo2ft.featureWriters import GdefFeatureWriter
    if case["writer"] == "new":
        from ufo2ft.featureWriters.kernFeatureWriter import KernFeatureWriter
    else:
        from ufo2ft.featureWriters.kernFeatureWriter2 import KernFeatureWriter

    counters = {}

    def bump(k, n=1):
        counters[k] = counters.get(k, 0) + n

    spec = case["ufo"]
    font = build_ufo(spec, case["lib"])
    q = case["quantization"]
    writers = [KernFeatureWriter(quantization=q)]
    if "public.openTypeCategories" in spec["lib"]:
        writers.append(GdefFeatureWriter())
    if case.get("warmup"):
        try:
            ufo2ft.compileTTF(build_ufo(case["warmup"], case["lib"]), featureWriters=writers,
                              useProductionNames=False)
            bump("writer_objects_reused_after_other_font")
            if any(g["name"] == "danda" for g in spec["glyphs"]):
                bump("writer_objects_reused_shared_multi_script_character")
        except Exception:  # noqa: BLE001 - the other font is not the subject
            bump("warmup_compile_failed")
    try:
        if case.get("ds_rules"):
            import copy
            from vf.build import build_designspace
            other = copy.deepcopy(spec)
            other["info"] = dict(other["info"], styleName="B")
            for g_ in other["glyphs"]:
                g_["width"] = g_["width"] + (20 if g_["width"] else 0)
            other["kerning"] = [[l_, r_, v_ - 5] for l_, r_, v_ in other["kerning"]]
            ds = {"axes": [{"name": "Weight", "tag": "wght", "min": 400, "default": 400, "max": 900}],
                  "ufos": [spec, other],
                  "sources": [{"ufo": 0, "location": {"Weight": 400}, "name": "regular"},
                              {"ufo": 1, "location": {"Weight": 900}, "name": "bold"}],
                  "rules": [{"name": "r%d" % i, "conditionSets": [[{"name": "Weight", "minimum": lo, "maximum": hi}]],
                             "subs": [sub]} for i, (sub, (lo, hi)) in enumerate(zip(
                                 case["ds_rules"], [(600, 750), (750, 900)]))]}
            if case["skip"]:
                # (on the designspace paths the designspace's own list counts)
                ds["lib"] = {"public.skipExportGlyphs": list(case["skip"])}
            doc, _ = build_designspace(ds, case["lib"])
            res = ufo2ft.compileInterpolatableTTFsFromDS(doc, featureWriters=writers,
                                                         useProductionNames=False)
            tt = res.sources[0].font
            bump("fonts_compiled_as_default_master_with_designspace_rules")
        else:
            tt = ufo2ft.compileTTF(font, featureWriters=writers, useProductionNames=False)
        buf = io.BytesIO()
        tt.save(buf)
    except Exception:  # noqa: BLE001
        return {"status": "violated", "counters": counters, "violations": [
            {"mech": "unexpected_exception", "detail": {"trace": traceback.format_exc()[-2500:]}}]}
    tt = TTFont(io.BytesIO(buf.getvalue()))
    skip = set(case["skip"])
    exported = [g["name"] for g in spec["glyphs"] if g["name"] not in skip]
    rk = RKern(spec["kerning"], spec["groups"], set(exported))
    desc = S.desc_from_glyphs([g for g in spec["glyphs"] if g["name"] not in skip], case["rules"])
    rules = [r for r in case["rules"] if r["out"] not in skip and not (set(r["in"]) & skip)]
    scr = S.closure(desc, rules, S.key_scripts)
    bidi = S.closure(desc, rules, lambda u: _bidi(ud, u))
    gp = Gpos(tt)
    no_gpos = "GPOS" not in tt or not gp.graph
    if no_gpos:
        bump("fonts_without_gpos")
    else:
        bump("fonts_judged")
    if case.get("stale_classes"):
        bump("fonts_with_stale_user_classes_named_like_generated_ones")
    if case.get("chain"):
        bump("script_chain_fonts")
    if case["writer"] == "legacy":
        bump("legacy_writer_fonts")
    if q != 1:
        bump("quantized_fonts")
    names = exported[:30]
    violations = []
    nonzero = 0
    marks = {g for g, c in gp.classes.items() if c == 3}
    tag_scripts = {}
    for s in {x for v in scr.values() for x in v}:
        for t in S.ot_script_tags(_unify(s)):
            tag_scripts.setdefault(t, set()).add(_unify(s))
    tags = gp.script_tags() if not no_gpos else sorted(set(tag_scripts) | {"DFLT"})
    for tag in tags:
        feats = ({gp.graph["features"][fi][0] for fi in gp.feature_indices(tag)}
                 if not no_gpos else set())
        if "dist" in feats:
            bump("dist_scripts")
        tscripts = tag_scripts.get(tag, set())
        rtl = any(S.script_direction(s) == "RTL" for s in tscripts)
        for a in names:
            sa = {_unify(s) for s in scr[a]}
            for b in names:
                sb = {_unify(s) for s in scr[b]}
                exp_v, lvl, key = rk.lookup(a, b)
                exp = quantize(exp_v, q)
                if exp_v and (R.fr(exp_v) / q) % 1 == R.fr(0.5):
                    bump("half_step_tie_values_judged")
                res = gp.pair(a, b, tag) if not no_gpos else ZERO
                in_a = (not sa) or bool(sa & tscripts)
                in_b = (not sb) or bool(sb & tscripts)
                if tag == "DFLT":
                    in_a, in_b = not sa, not sb
                # a glyph whose provenance mixes bidi L and R (ligature of a letter with a digit)
                # has no determinate direction: pairs with it are only held to '0 or UFO value'
                opposite = (("R" in bidi[a] and "L" in bidi[b]) or ("L" in bidi[a] and "R" in bidi[b])
                            or {"L", "R"} <= bidi[a] or {"L", "R"} <= bidi[b])
                ncontrib = len([c for c in res["contrib"] if c[1] or c[2]])
                if in_a and in_b and not opposite:
                    bump("pairs_judged")
                    if exp:
                        nonzero += 1
                        bump("nonzero_judged")
                    if lvl is not None and lvl < 3 and _has_more_general(rk, a, b, lvl):
                        bump("exception_overrides_class")
                        if exp_v == 0:
                            bump("zero_exceptions")
                    if rtl:
                        bump("rtl_pairs_judged")
                    if a in marks or b in marks:
                        bump("mark_pairs_judged")
                    det = {"pair": [a, b], "tag": tag, "expected": exp, "ufo_key": list(key or []),
                           "level": lvl, "got_xadv": res["xadv"], "got_xpla": res["xpla"],
                           "contrib": res["contrib"], "scripts": [sorted(sa), sorted(sb)],
                           "bidi": [sorted(bidi[a]), sorted(bidi[b])]}
                    if res["xadv"] != exp:
                        violations.append({"mech": "advance_value", "detail": det})
                    elif ncontrib > 1:
                        violations.append({"mech": "applied_more_than_once", "detail": det})
                    else:
                        has_l = "L" in bidi[a] or "L" in bidi[b]
                        want_pla = exp if (rtl and not has_l) else 0
                        if tag == "DFLT":
                            # direction of a script-neutral run is not determined by the tag
                            if res["xpla"] not in (0, exp):
                                violations.append({"mech": "placement", "detail": det})
                        elif res["xpla"] != want_pla:
                            violations.append({"mech": "placement_rtl" if rtl else "placement_ltr",
                                               "detail": det})
                    if res["yadv"] or res["ypla"] or res["x2adv"] or res["x2pla"]:
                        violations.append({"mech": "unexpected_value_component", "detail": det})
                else:
                    bump("outside_pairs_checked")
                    if res["xadv"] not in (0, exp) or ncontrib > 1:
                        violations.append({"mech": "outside_pair_value", "detail": {
                            "pair": [a, b], "tag": tag, "expected_one_of": [0, exp],
                            "ufo_key": list(key or []), "level": lvl,
                            "got_xadv": res["xadv"], "contrib": res["contrib"]}})
                if len(violations) > 12:
                    break
            if len(violations) > 12:
                break
    # skipped glyphs must not appear anywhere in GPOS
    if skip:
        text = set()
        for lk in gp.lookups:
            from vf.ref import otl
            for role, gl in otl.gpos_lookup_glyphs(lk).items():
                text |= set(gl)
        if text & skip:
            violations.append({"mech": "skipped_glyph_in_gpos", "detail": {
                "glyphs": sorted(text & skip)}})
    return {"status": "violated" if violations else "held", "violations": violations[:12],
            "counters": counters, "nontrivial": nonzero > 0}


ZERO = {"xadv": 0, "xpla": 0, "yadv": 0, "ypla": 0, "x2adv": 0, "x2pla": 0, "contrib": [],
        "contextual": False, "matched": []}


def _unify(s):
    return "Hrkt" if s in ("Hira", "Kana", "Hrkt") else s


def _bidi(ud, u):
    b = ud.bidirectional(chr(u))
    if b in ("R", "AL"):
        return ["R"]
    if b in ("L", "AN", "EN"):
        return ["L"]
    return []


def _has_more_general(rk, a, b, lvl):
    ga, gb = rk.g1.get(a), rk.g2.get(b)
    keys = [(a, b), (a, gb), (ga, b), (ga, gb)]
    return any(None not in k and k in rk.k for k in keys[lvl + 1:])


def classify(v, case):
    m, det = v["mech"], v["detail"]
    if m not in ("advance_value", "placement_rtl", "placement", "outside_pair_value"):
        return None
    if "ufo_key" not in det:
        return None
    spec = case["ufo"]
    skip = set(case["skip"])
    exported = {g["name"] for g in spec["glyphs"] if g["name"] not in skip}
    desc = S.desc_from_glyphs([g for g in spec["glyphs"] if g["name"] not in skip], case["rules"])
    rules = [r for r in case["rules"] if r["out"] not in skip and not (set(r["in"]) & skip)]
    neutral = writer_neutral_glyphs(desc, rules, case["writer"])
    bidi = bidi_labels(desc, rules)
    a, b = det["pair"]
    if m == "outside_pair_value":
        # (3) an exception that is dropped as mixed-direction while its enclosing class pair is
        #     kept: the class value shines through (neither 0 nor the UFO value)
        rk = RKern(spec["kerning"], spec["groups"], exported)
        lvl = det.get("level")
        if lvl is not None and lvl < 3:
            ga, gb = rk.g1.get(a), rk.g2.get(b)
            keys = [(a, b), (a, gb), (ga, b), (ga, gb)]
            general = [quantize(rk.k[k], case["quantization"]) for k in keys[lvl + 1:]
                       if None not in k and k in rk.k]
            if det["got_xadv"] in general and len(det["contrib"]) <= 1:
                return "dropped_mixed_direction_exception_exposes_class_value"
        return None
    # (1) a pair of two direction-neutral glyphs lives in the shared 'Default' lookup, which never
    #     carries x-placement, even when it is reached from a right-to-left script
    if (m in ("placement_rtl",) and det["got_xpla"] == 0 and det["got_xadv"] == det["expected"]
            and a in neutral and b in neutral):
        return "neutral_pair_under_rtl_tag_no_placement"
    # (2) the bidi class is decided per CLASS pair: a class member with bidi L/EN/AN makes the
    #     writer drop (L and R present) or un-place (L present) the whole class pair
    key = det["ufo_key"]
    if key:
        members = set()
        for k in key:
            if k.startswith("public.kern"):
                members |= {g for g in spec["groups"].get(k, []) if g in exported}
            else:
                members.add(k)
        # the writers split every class by script DIRECTION first: only members of scripts
        # with the judged pair's direction (Arabic next to Hebrew, Latin next to Greek) take
        # part in the class pair's bidi decision
        scr_ = S.closure(desc, rules, S.key_scripts)
        dirs = {S.script_direction(x) for side_ in det.get("scripts") or [] for x in side_} - {None}
        # (only when every member has a script direction of its own: a script-neutral member -
        # punctuation, a generic combining mark - keeps the whole class together)
        # (a ligature one of whose inputs is script-neutral counts as neutral for the writer: it
        # is a member of every script's share of the class)
        if len(dirs) == 1 and all(scr_.get(g) and g not in neutral
                                  and None not in {S.script_direction(x) for x in scr_[g]}
                                  for g in members):
            members = {g for g in members if {S.script_direction(x) for x in scr_[g]} & dirs}
        key_bidi = set()
        for g in members:
            key_bidi |= bidi.get(g, set())
        pair_bidi = bidi.get(a, set()) | bidi.get(b, set())
        if key_bidi - pair_bidi:
            if m == "advance_value" and det["got_xadv"] == 0 and {"L", "R"} <= key_bidi:
                return "bidi_decided_per_class_pair"
            if m == "advance_value" and {"L", "R"} <= key_bidi and det.get("level") is not None \
                    and det["level"] < 3 and len(det["contrib"]) <= 1:
                # the dropped rule was an exception (glyph x class, class x glyph): the value of
                # a more general rule that is kept shines through
                rk = RKern(spec["kerning"], spec["groups"], exported)
                ga, gb = rk.g1.get(a), rk.g2.get(b)
                keys = [(a, b), (a, gb), (ga, b), (ga, gb)]
                general = [quantize(rk.k[k], case["quantization"]) for k in keys[det["level"] + 1:]
                           if None not in k and k in rk.k]
                if det["got_xadv"] in general:
                    return "dropped_mixed_direction_exception_exposes_class_value"
            if m == "placement_rtl" and det["got_xpla"] == 0 and "L" in key_bidi:
                return "bidi_decided_per_class_pair"
    return None
