"""C09 - Interpolatable compilation keeps compatible masters compatible.

Run: generated compatible master families (vf/gen/masters.py; curvature of cubic segments
exaggerated per master so that a per-master cu2qu would pick different spline lengths) through
compileInterpolatableTTFs / ...TTFsFromDS / ...OTFsFromDS x flattenComponents, skipExportGlyphs,
custom filters.
Observe: per master font and glyph the point structure (contours, end points, on/off flags in
order; component names and 2x2; CFF operator sequence), glyph sets of sparse masters.
Oracle: structural equality across all masters that contain the glyph; sparse master glyph set
bounds.  Control: each master compiled ALONE with compileTTF - how often that would have diverged.
"""
import io
import traceback

import vf  # noqa: F401
from vf.build import build_ufo, build_designspace
from vf.gen import masters

ID = "C09"
RULE = ("case = generated compatible family (1-2 axes, 2-4 full masters, optional sparse layer "
        "master, cubic / quadratic / mixed curves with per-master exaggerated curvature, components "
        "with per-master offsets and - option - per-master 2x2) x {compileInterpolatableTTFs, "
        "compileInterpolatableTTFsFromDS, compileInterpolatableOTFsFromDS} x flattenComponents / "
        "skipExportGlyphs / custom filters (decomposeTransformedComponents, propagateAnchors) / "
        "optimizeCFF 1-2 on the OTF path (with points collinear in one master only); 4 %: a "
        "component mirrored in one master only; "
        "distinct = sha1 of the case; non-trivial = >= 2 master fonts were produced and compared "
        "glyph by glyph and the family has a cubic curve or a component")
ASSUMPTIONS = [
    "fontTools' glyf / CFF readers are trusted",
    "masters are compatible by construction (one master perturbed in its numbers only)",
    "sparse masters: the glyph set must contain '.notdef' and the layer's glyphs; every other glyph "
    "must be tied to them by component references (it references, or is referenced by, a layer "
    "glyph - transitively); placeholders for missing bases must be empty",
]
NONVACUITY = ["families_compiled", "glyphs_compared", "would_diverge_families",
              "comp2x2_mismatch_families", "sparse_masters", "ttf_runs", "otf_runs",
              "flatten_runs", "cubic_glyphs"]

FUNCS = ["compileInterpolatableTTFs", "compileInterpolatableTTFsFromDS",
         "compileInterpolatableOTFsFromDS"]


def n_cases(tier):
    return 1200 if tier == "quick" else 20000


def budget_s(tier):
    return 150 if tier == "quick" else 1500


def exaggerate(rng, ds):
    """Make curvature differ strongly between masters (same structure): move the off-curve points
    of cubic segments of the non-default masters by large amounts."""
    for ui, u in enumerate(ds["ufos"][1:], 1):
        for g in u["glyphs"]:
            for c in g["contours"]:
                n = len(c)
                for i, p in enumerate(c):
                    if p[2] is None:
                        nxt = next((c[(i + k) % n] for k in range(1, n) if c[(i + k) % n][2]), None)
                        if nxt is not None and nxt[2] == "curve" and rng.random() < 0.7:
                            p[0] += rng.choice([-260, -140, 150, 300])
                            p[1] += rng.choice([-220, 180, 320])
        for lname, layer in (u.get("layers") or {}).items():
            pass


def later_component_2x2(rng, ds):
    """A component-only glyph with >= 2 components whose FIRST component has the same 2x2 in every
    master while a LATER one differs between masters."""
    base = ds["ufos"][0]["glyphs"]
    simple = [g["name"] for g in base if g["contours"] and not g["components"]]
    if not simple:
        return
    target = next((g["name"] for g in base if len(g["components"]) >= 2 and not g["contours"]), None)
    if target is None:
        cands = [g["name"] for g in base if not g["contours"] and g["name"] != ".notdef"]
        cands = cands or [g["name"] for g in base if g["components"] and not g["contours"]]
        if not cands:
            return
        target = cands[0]
    which = rng.randrange(4)
    for ui, u in enumerate(ds["ufos"]):
        gl = {g["name"]: g for g in u["glyphs"]}
        if target not in gl:
            continue
        g = gl[target]
        comps = [c for c in g["components"] if c["base"] in gl][:1]
        if not comps:
            comps = [{"base": simple[0], "t": [1, 0, 0, 1, 0, 0]}]
        first = dict(comps[0])
        first["t"] = [1, 0, 0, 1, first["t"][4], first["t"][5]]
        # exactly ONE entry of the 2x2 differs between masters (which one: per family)
        t2 = [0.5, 0, 0, 0.75]
        t2[which] += (0.25 if which in (0, 3) else 0.125) * ui
        second = {"base": simple[-1], "t": t2 + [40 + 3 * ui, 10]}
        g["components"] = [first, second]
        for lname, layer in (u.get("layers") or {}).items():
            for lg in layer:
                if lg["name"] == target:
                    lg["components"] = [dict(first), dict(second)]


def mirror_in_one_master(rng, ds):
    """Dedicated stratum of a listed finding: one component is mirrored (negative determinant) in
    one non-default master only."""
    base = ds["ufos"][0]["glyphs"]
    cands = [g["name"] for g in base if g["components"]]
    if not cands or len(ds["ufos"]) < 2:
        return False
    target = rng.choice(cands)
    ui = rng.randrange(1, len(ds["ufos"]))
    for g in ds["ufos"][ui]["glyphs"]:
        if g["name"] == target:
            t = g["components"][0]["t"]
            g["components"][0]["t"] = [-t[0], -t[1], t[2], t[3], t[4], t[5]]
            return True
    return False


def _det_sign(t):
    d = t[0] * t[3] - t[1] * t[2]
    return (d > 0) - (d < 0)


def mirrored_in_some_masters(ds, name):
    """Does `name` (or a glyph it references, at any depth) have a component whose orientation
    (sign of the determinant) differs between the masters / layers that define it?"""
    tables = []
    for u in ds["ufos"]:
        tables.append({g["name"]: g for g in u["glyphs"]})
        for layer in (u.get("layers") or {}).values():
            tables.append({g["name"]: g for g in layer})
    seen, todo = set(), [name]
    while todo:
        n = todo.pop()
        if n in seen:
            continue
        seen.add(n)
        signs = {}
        for tb in tables:
            g = tb.get(n)
            if g is None:
                continue
            for i, c in enumerate(g["components"]):
                signs.setdefault(i, set()).add(_det_sign(c["t"]))
                todo.append(c["base"])
        if any(len(v) > 1 for v in signs.values()):
            return True
    return False


def closing_point_coincides_in_some_masters(ds, name):
    """Does `name` (or a glyph it references) have a closed contour whose start point is a
    'line' point that coincides with the contour's last point in some masters / layers but not
    in all of them?  (fontTools' PointToSegmentPen spells the closing line out only when it has
    zero length.)"""
    tables = []
    for u in ds["ufos"]:
        tables.append({g["name"]: g for g in u["glyphs"]})
        for layer in (u.get("layers") or {}).values():
            tables.append({g["name"]: g for g in layer})
    seen, todo = set(), [name]
    while todo:
        n = todo.pop()
        if n in seen:
            continue
        seen.add(n)
        flags = {}
        for tb in tables:
            g = tb.get(n)
            if g is None:
                continue
            for ci, c in enumerate(g["contours"]):
                if len(c) >= 2 and c[0][2] == "line":
                    flags.setdefault(ci, set()).add(
                        (c[0][0], c[0][1]) == (c[-1][0], c[-1][1]) and c[-1][2] is not None)
            todo.extend(cc["base"] for cc in g["components"])
        if any(len(v) > 1 for v in flags.values()):
            return True
    return False


def closing_point_on_start_in_one_master(rng, ds):
    """Dedicated stratum of a listed finding: the last point of a line contour is moved onto
    the contour's start point in ONE master."""
    base = ds["ufos"][0]["glyphs"]
    cands = [(g["name"], ci) for g in base for ci, c in enumerate(g["contours"])
             if len(c) >= 4 and c[0][2] == "line" and c[-1][2] == "line"]
    if not cands or len(ds["ufos"]) < 2:
        return False
    name, ci = rng.choice(cands)
    ui = rng.randrange(len(ds["ufos"]))
    for g in ds["ufos"][ui]["glyphs"]:
        if g["name"] == name and ci < len(g["contours"]):
            c = g["contours"][ci]
            c[-1][0], c[-1][1] = c[0][0], c[0][1]
            return True
    return False


def collinear_in_one_master(rng, ds):
    """Three consecutive on-curve points of a line contour share one y (or x) in ONE master only:
    a per-master charstring optimiser would merge the two line operators there and nowhere
    else."""
    base = ds["ufos"][0]["glyphs"]
    cands = []
    for g in base:
        for ci, c in enumerate(g["contours"]):
            for j in range(1, len(c) - 1):
                if all(c[k][2] == "line" for k in (j - 1, j, j + 1)):
                    cands.append((g["name"], ci, j))
    if not cands:
        return False
    name, ci, j = rng.choice(cands)
    ui = rng.randrange(len(ds["ufos"]))
    ax = rng.choice([0, 1])
    for k, u in enumerate(ds["ufos"]):
        for g in u["glyphs"]:
            if g["name"] != name or ci >= len(g["contours"]):
                continue
            c = g["contours"][ci]
            if k == ui:
                c[j][ax] = c[j - 1][ax]
                c[j + 1][ax] = c[j - 1][ax]
                # (never ON the contour's start / end point: a zero-length closing segment in
                # one master is the stratum of a listed finding)
                if (c[0][0], c[0][1]) == (c[-1][0], c[-1][1]):
                    c[-1][1 - ax] += 13
            elif c[j][ax] == c[j - 1][ax] == c[j + 1][ax]:
                c[j][ax] += 7
    return True


def nested_chain_in_sparse(rng, ds):
    """nest.three -> nest.two -> nest.one -> a simple glyph, in every full master; the sparse
    layer holds nest.three only (its intermediate bases are not in the layer)."""
    sp = (ds.get("meta") or {}).get("sparse")
    base = ds["ufos"][0]["glyphs"]
    simple = [g["name"] for g in base if g["contours"] and not g["components"]]
    if not sp or not simple:
        return False
    s0 = simple[0]

    def chain(k):
        return [
            {"name": "nest.one", "width": 500 + k, "unicodes": [], "contours": [], "anchors": [],
             "components": [{"base": s0, "t": [1, 0, 0, 1, 10 + 3 * k, 5]}]},
            {"name": "nest.two", "width": 510 + k, "unicodes": [], "contours": [], "anchors": [],
             "components": [{"base": "nest.one", "t": [1, 0, 0, 1, 20 + 2 * k, -7 - k]}]},
            {"name": "nest.three", "width": 520 + k, "unicodes": [], "contours": [], "anchors": [],
             "components": [{"base": "nest.two", "t": [1, 0, 0, 1, 30 - k, 11]},
                            {"base": s0, "t": [1, 0, 0, 1, 200 + 5 * k, 0]}]}]
    for k, u in enumerate(ds["ufos"]):
        u["glyphs"].extend(chain(k))
    ds["ufos"][sp["host"]]["layers"][sp["layer"]].append(chain(7)[2])
    return True


def overflow_chain_in_sparse(rng, ds):
    """ovf.two -(x1.5)-> ovf.one -(x1.5)-> a simple glyph that the sparse layer redraws: once the
    two references are merged (flattenComponents) the 2x2 part is 2.25 (dedicated stratum of a
    listed finding)."""
    sp = (ds.get("meta") or {}).get("sparse")
    if not sp:
        return False
    base = {g["name"]: g for g in ds["ufos"][0]["glyphs"]}
    simple = [n for n in sp["glyphs"] if n in base and base[n]["contours"] and not base[n]["components"]]
    if not simple:
        return False
    for k, u in enumerate(ds["ufos"]):
        if not u.get("glyphs"):
            continue
        u["glyphs"].append({"name": "ovf.one", "width": 600 + k, "unicodes": [], "contours": [],
                            "anchors": [], "components": [
                                {"base": simple[0], "t": [1.5, 0, 0, 1.5, 10 + k, 0]}]})
        u["glyphs"].append({"name": "ovf.two", "width": 700 + k, "unicodes": [], "contours": [],
                            "anchors": [], "components": [
                                {"base": "ovf.one", "t": [1.5, 0, 0, 1.5, 20 + 2 * k, 5]}]})
    return True


def sparse_master_as_own_ufo(rng, ds):
    """The sparse layer becomes the DEFAULT layer of a UFO of its own and its source loses the
    layerName: a non-default master that simply lacks most glyphs (also the bases of some of its
    composites)."""
    sp = (ds.get("meta") or {}).get("sparse")
    if not sp:
        return False
    host = ds["ufos"][sp["host"]]
    layer = host["layers"].pop(sp["layer"])
    own = {"glyphs": layer, "kerning": [], "groups": {}, "lib": {}, "features": "",
           "info": dict(host.get("info") or {}, styleName="SparseUFO")}
    ds["ufos"].append(own)
    for s_ in ds["sources"]:
        if s_.get("layerName") == sp["layer"] and s_["ufo"] == sp["host"]:
            s_["ufo"] = len(ds["ufos"]) - 1
            del s_["layerName"]
            s_["sparse_ufo"] = True
    sp["host"] = len(ds["ufos"]) - 1
    sp["as_ufo"] = True
    return True


def sparse_layer_in_support_ufo(rng, ds):
    """Move the sparse layer out of the full master that hosts it into a UFO of its own whose
    default layer holds nothing the layer's composites refer to (sparse masters kept in a
    separate 'support' file)."""
    sp = (ds.get("meta") or {}).get("sparse")
    if not sp:
        return False
    host = ds["ufos"][sp["host"]]
    layer = host["layers"].pop(sp["layer"])
    support = {"glyphs": [], "kerning": [], "groups": {}, "lib": {}, "features": "",
               "info": dict(host.get("info") or {}, styleName="Support"),
               "layers": {sp["layer"]: layer}}
    ds["ufos"].append(support)
    for s_ in ds["sources"]:
        if s_.get("layerName") == sp["layer"] and s_["ufo"] == sp["host"]:
            s_["ufo"] = len(ds["ufos"]) - 1
    sp["host"] = len(ds["ufos"]) - 1
    return True


def lone_full_master(rng, ds):
    """Every master but the default one becomes a sparse master (a UFO of its own that only
    redraws some component bases): the composites - a mixed one and a plain one are added - then
    exist in ONE source only, yet hold glyphs that change along the axis."""
    di = masters.default_source_index(ds)
    dflt = ds["ufos"][ds["sources"][di]["ufo"]]
    simple = [g["name"] for g in dflt["glyphs"] if g["contours"] and not g["components"]
              and g["name"] != ".notdef"]
    if not simple:
        return False
    base = simple[0]
    dflt["glyphs"].append({"name": "ld.mixed", "width": 640, "unicodes": [], "anchors": [],
                           "contours": [[[0, 0, "line"], [90, 0, "line"], [40, 70, "line"]]],
                           "components": [{"base": base, "t": [1, 0, 0, 1, 120, 0]}]})
    dflt["glyphs"].append({"name": "ld.alias", "width": 650, "unicodes": [], "anchors": [],
                           "contours": [], "components": [{"base": base, "t": [1, 0, 0, 1, 15, 0]}]})
    done = False
    for k, s_ in enumerate(ds["sources"]):
        if k == di or s_.get("layerName") or s_.get("sparse_ufo") or s_["ufo"] == ds["sources"][di]["ufo"]:
            continue
        u = ds["ufos"][s_["ufo"]]
        keep = {base} | set(rng.sample(simple, rng.randint(0, min(2, len(simple)))))
        u["glyphs"] = [g for g in u["glyphs"] if g["name"] in keep]
        u["kerning"], u["groups"] = [], {}
        s_["sparse_ufo"] = True
        done = True
    return done


def gen(rng, idx, tier):
    func = rng.choice(FUNCS)
    kinds = rng.choice([["line", "curve"], ["line", "curve", "qcurve"], ["curve"], ["line", "qcurve"]])
    sparse = rng.random() < 0.3 and func != "compileInterpolatableTTFs"
    more = {"n_axes": 2} if sparse and rng.random() < 0.4 else {}
    ds = masters.family(rng, kinds=kinds, sparse=sparse, n_glyphs=rng.choice([4, 5, 6, 8]),
                        comp_2x2=rng.random() < 0.35, components=True, missing_glyph=False,
                        extra_glyph=False, rules=0, kerning=rng.choice(["none", "aligned"]),
                        coord_mode=rng.choice(["int", "half", "float"]), **more)
    sparse_omits_axis = False
    if (ds.get("meta") or {}).get("sparse") and len(ds["axes"]) == 2 and rng.random() < 0.6:
        # the sparse source spells its location without the axis it leaves at the default
        # (valid: a missing axis means the default)
        from vf.ref import varmodel as V
        dflt = V.full_location(ds["axes"], {})
        for s_ in ds["sources"]:
            if s_.get("layerName"):
                for name in list(s_["location"]):
                    if len(s_["location"]) > 1 and V.fr(s_["location"][name]) == dflt[name]:
                        del s_["location"][name]
                        sparse_omits_axis = True
    if rng.random() < 0.8:
        exaggerate(rng, ds)
    if rng.random() < 0.35:
        later_component_2x2(rng, ds)
    stratum = "default"
    if rng.random() < 0.04 and mirror_in_one_master(rng, ds):
        stratum = "mirrored_in_one_master"
    support = False
    opts = {}
    skip_ovf = False
    if func == "compileInterpolatableTTFsFromDS" and rng.random() < 0.2 \
            and overflow_chain_in_sparse(rng, ds):
        if rng.random() < 0.5:
            # merged by flattening: repaired in /repo (the flattened glyph is defined at the
            # sparse location first), must hold
            opts["flattenComponents"] = True
            stratum = "merged_reference_overflow_by_flattening"
        else:
            # merged by inlining a non-exported glyph: the listed finding
            skip_ovf = True
            stratum = "merged_reference_overflow"
    elif "TTF" in func and rng.random() < 0.35:
        opts["flattenComponents"] = True
        if rng.random() < 0.6 and nested_chain_in_sparse(rng, ds):
            opts["_nested_in_sparse"] = True
    if "OTF" in func and rng.random() < 0.5:
        # the masters must stay unoptimised whatever the caller asks for (optimisation is a
        # per-font decision and would break compatibility)
        opts["optimizeCFF"] = 1
        if collinear_in_one_master(rng, ds):
            opts["_collinear"] = True
        if stratum == "default" and rng.random() < 0.12 and closing_point_on_start_in_one_master(rng, ds):
            stratum = "closing_point_on_start_in_one_master"
        if rng.random() < 0.1:
            # SUBROUTINIZE: every master goes through the subroutiniser; with a sparse master
            # this is the stratum of a listed finding (tx needs a cmap)
            opts["optimizeCFF"] = 2
            stratum = "otf_masters_subroutinized"
    if func != "compileInterpolatableTTFs" and rng.random() < 0.4:
        if "TTF" in func and not opts.get("_nested_in_sparse") and rng.random() < 0.7:
            # make sure the layer holds a composite whose bases are not in the layer
            if nested_chain_in_sparse(rng, ds):
                opts["_composite_in_sparse"] = True
        if rng.random() < 0.35 and func != "compileInterpolatableTTFs":
            support = False
            sparse_master_as_own_ufo(rng, ds)
        else:
            support = sparse_layer_in_support_ufo(rng, ds)
    if (ds.get("meta") or {}).get("sparse") and rng.random() < 0.3 and not any(
            g["name"] == ".notdef" for g in ds["ufos"][0]["glyphs"]):
        # a '.notdef' WITHOUT contours of its own (empty, or a composite) in every full master;
        # the sparse layer has none
        simple = [g["name"] for g in ds["ufos"][0]["glyphs"] if g["contours"] and not g["components"]]
        kind = rng.choice(["empty", "composite"]) if simple else "empty"
        for k, u in enumerate(ds["ufos"]):
            if not u["glyphs"]:
                continue
            nd = {"name": ".notdef", "width": 500 + k, "unicodes": [], "contours": [], "anchors": [],
                  "components": ([{"base": simple[0], "t": [1, 0, 0, 1, 10 + k, 0]}]
                                 if kind == "composite" else [])}
            u["glyphs"].insert(0, nd)
        opts["_notdef_without_contours"] = kind
    skip = []
    names = [g["name"] for g in ds["ufos"][0]["glyphs"] if g["name"] != ".notdef"]
    if rng.random() < 0.25:
        used = [c["base"] for g in ds["ufos"][0]["glyphs"] for c in g["components"]]
        pool = used or names
        skip = [rng.choice(pool)]
    if skip_ovf:
        skip = ["ovf.one"]
    filt = rng.choice([None, None, "DecomposeTransformedComponentsFilter", "PropagateAnchorsFilter",
                       "DecomposeComponentsFilter:post"])
    filter_via = "argument"
    if filt and ":" not in filt and rng.random() < 0.5:
        # the same filter declared in every master's lib (what glyphsLib writes): equal but
        # distinct filter objects per master, which must still act as ONE joint filter
        filter_via = "lib"
        entry = {"name": filt[0].lower() + filt[1:-len("Filter")], "pre": True}
        for u in ds["ufos"]:
            u.setdefault("lib", {})["com.github.googlei18n.ufo2ft.filters"] = [dict(entry)]
        if filt.startswith("DecomposeTransformed") and len(ds["ufos"]) >= 2:
            # a composite whose (first) 2x2 part is the identity in all masters but one
            names0 = [g["name"] for g in ds["ufos"][0]["glyphs"]
                      if g["components"] and not g["contours"]]
            if names0:
                tgt = rng.choice(names0)
                k = rng.randrange(len(ds["ufos"]))
                for ui, u in enumerate(ds["ufos"]):
                    for gl in [u["glyphs"]] + list((u.get("layers") or {}).values()):
                        for g in gl:
                            if g["name"] == tgt and g["components"]:
                                t = g["components"][0]["t"]
                                g["components"][0]["t"] = ([0.75, 0, 0, 1] if ui == k else [1, 0, 0, 1]) + list(t[4:])
    lone = False
    if func != "compileInterpolatableTTFs" and stratum == "default" and not skip \
            and len(ds["axes"]) == 1 and rng.random() < 0.1:
        lone = lone_full_master(rng, ds)
    return {"func": func, "ds": ds, "opts": opts, "skip": skip, "filter": filt, "filter_via": filter_via,
            "lone_full_master": lone, "sparse_omits_axis": sparse_omits_axis, "stratum": stratum, "support_ufo": support, "lib": rng.choice(["defcon", "ufoLib2"])}


def sample_view(case):
    return {"func": case["func"], "opts": case["opts"], "skip": case["skip"],
            "filter": case["filter"], "lib": case["lib"], "meta": case["ds"].get("meta"),
            "sources": case["ds"]["sources"],
            "glyphs": [(g["name"], [len(c) for c in g["contours"]],
                        [c["base"] for c in g["components"]]) for g in case["ds"]["ufos"][0]["glyphs"]]}


def structure_tt(tt, name):
    g = tt["glyf"][name]
    if g.isComposite():
        comps = []
        for c in g.components:
            t = getattr(c, "transform", ((1, 0), (0, 1)))
            comps.append((c.glyphName, round(t[0][0], 4), round(t[0][1], 4), round(t[1][0], 4),
                          round(t[1][1], 4)))
        return ("composite", tuple(comps))
    if g.numberOfContours <= 0:
        return ("empty",)
    return ("simple", tuple(g.endPtsOfContours), tuple(f & 0x81 for f in g.flags))


def structure_cff(tt, name):
    """Point structure of a CFF glyph as DRAWN (subroutines expanded, specialised operators
    generalised): the sequence of path operations with their point counts.  The property speaks
    of points and their types, not of charstring operators: per-master subroutines or operator
    choices that draw the same points are not a difference, a merged or dropped point is."""
    from fontTools.pens.recordingPen import RecordingPen
    rec = RecordingPen()
    tt.getGlyphSet()[name].draw(rec)
    return ("cff", tuple((op, len(args)) for op, args in rec.value))


def tied_glyphs(glyphs, seeds):
    """Glyphs tied to `seeds` by component references in either direction, transitively."""
    refs = {g["name"]: {c["base"] for c in g["components"]} for g in glyphs}
    tied = set(seeds)
    changed = True
    while changed:
        changed = False
        for n, bs in refs.items():
            if n not in tied and bs & tied:
                tied.add(n)
                changed = True
            if n in tied and not bs <= tied:
                tied |= bs
                changed = True
    return tied


def run(case):
    import ufo2ft
    from fontTools.ttLib import TTFont
    counters = {}

    def bump(k, n=1):
        counters[k] = counters.get(k, 0) + n

    ds = case["ds"]
    func = case["func"]
    doc, fonts = build_designspace(ds, case["lib"])
    kw = {k: v for k, v in case["opts"].items() if not k.startswith("_")}
    kw["useProductionNames"] = False
    if case["filter"] and case["filter"].endswith(":post"):
        # a decomposition that runs AFTER the curve conversion (custom post filter): composites
        # that are still references then are resolved from converted, reversed masters
        import ufo2ft.filters as F
        kw["filters"] = [..., getattr(F, case["filter"][:-5])(pre=False)]
        bump("post_conversion_decompose_filter_runs")
    elif case["filter"] and case.get("filter_via", "argument") == "argument":
        import ufo2ft.filters as F
        kw["filters"] = [getattr(F, case["filter"])()]
    elif case["filter"]:
        bump("filter_declared_in_every_master_lib")
    if case["skip"]:
        if func == "compileInterpolatableTTFs":
            kw["skipExportGlyphs"] = list(case["skip"])
        else:
            doc.lib["public.skipExportGlyphs"] = list(case["skip"])
    try:
        if func == "compileInterpolatableTTFs":
            srcs = [s for s in doc.sources]
            out = list(ufo2ft.compileInterpolatableTTFs(
                [s.font for s in srcs], layerNames=[s.layerName for s in srcs], **kw))
            layer_names = [s.layerName for s in srcs]
        else:
            res = getattr(ufo2ft, func)(doc, **kw)
            out = [s.font for s in res.sources]
            layer_names = [s.layerName for s in res.sources]
        loaded = []
        for f in out:
            buf = io.BytesIO()
            f.save(buf)
            loaded.append(TTFont(io.BytesIO(buf.getvalue())))
    except Exception:  # noqa: BLE001
        return {"status": "violated", "counters": counters, "violations": [
            {"mech": "unexpected_exception", "detail": {"trace": traceback.format_exc()[-2500:]}}]}
    bump("families_compiled")
    if case.get("stratum", "default") != "default":
        bump("mirrored_stratum_cases")
    if case.get("support_ufo"):
        bump("sparse_layer_in_support_ufo")
    if case.get("lone_full_master"):
        bump("families_with_one_full_master_and_sparse_masters_only")
    is_tt = "glyf" in loaded[0]
    bump("ttf_runs" if is_tt else "otf_runs")
    if case["opts"].get("flattenComponents"):
        bump("flatten_runs")
        if case["opts"].get("_nested_in_sparse"):
            bump("flatten_nested_composite_in_sparse_master")
    if case["opts"].get("_notdef_without_contours"):
        bump("default_notdef_without_contours_" + case["opts"]["_notdef_without_contours"])
    if case["opts"].get("optimizeCFF"):
        bump("otf_runs_with_optimizeCFF")
        if case["opts"].get("_collinear"):
            bump("collinear_in_one_master_families")
    violations = []
    struct = structure_tt if is_tt else structure_cff
    default_glyphs = ds["ufos"][ds["sources"][masters.default_source_index(ds)]["ufo"]]["glyphs"]
    all_names = set()
    for tt in loaded:
        all_names |= set(tt.getGlyphOrder())
    for name in sorted(all_names):
        seen = []
        for i, tt in enumerate(loaded):
            if name in tt.getGlyphOrder():
                st = struct(tt, name)
                # a placeholder in a sparse master (empty base for a composite) is exempt
                if (layer_names[i] or ds["sources"][i].get("sparse_ufo")) and st in (("empty",), ("cff", ())):
                    continue
                seen.append((i, st))
        if len(seen) < 2:
            continue
        bump("glyphs_compared")
        first = seen[0][1]
        for i, st in seen[1:]:
            if st != first:
                violations.append({"mech": "structure_differs_across_masters", "detail": {
                    "glyph": name, "masters": [seen[0][0], i],
                    "a": str(first)[:500], "b": str(st)[:500]}})
                break
    # ---------------- sparse master glyph sets
    for i, (tt, ln) in enumerate(zip(loaded, layer_names)):
        if not ln and not ds["sources"][i].get("sparse_ufo"):
            continue
        bump("sparse_masters")
        if case.get("sparse_omits_axis"):
            bump("sparse_masters_location_without_default_axis")
        src = ds["sources"][i]
        if ln:
            layer = ds["ufos"][src["ufo"]]["layers"][ln]
        else:
            # a sparse master kept as a UFO of its own: its default layer IS the sparse layer
            layer = ds["ufos"][src["ufo"]]["glyphs"]
            bump("sparse_masters_given_as_their_own_ufo")
        layer_names_set = {g["name"] for g in layer} - set(case["skip"])
        got = set(tt.getGlyphOrder())
        if ".notdef" not in got:
            violations.append({"mech": "sparse_master_without_notdef", "detail": {"master": i}})
        missing = layer_names_set - got
        if missing:
            violations.append({"mech": "sparse_master_lacks_layer_glyph", "detail": {
                "master": i, "glyphs": sorted(missing)}})
        # ties are judged on the sources: a composite of a (later skipped) layer glyph must be
        # rebuilt at the layer's location because the reference is replaced by the glyph's content
        tied = tied_glyphs(default_glyphs, {g["name"] for g in layer})
        extra = got - layer_names_set - {".notdef"} - tied
        if extra:
            violations.append({"mech": "sparse_master_unrelated_glyph", "detail": {
                "master": i, "glyphs": sorted(extra), "layer": sorted(layer_names_set)}})
        # joint decision to decompose: a glyph whose component references were replaced by
        # their contents in the full masters, and which (transitively) referred to a glyph this
        # layer redraws, must be decomposed HERE too (from the composite interpolated at this
        # location) - otherwise the copies of the layer glyph inside it stay behind
        dflt_tt = loaded[masters.default_source_index(ds)]
        by_name = {g["name"]: g for g in default_glyphs}
        for g in default_glyphs:
            n = g["name"]
            if not g["components"] or n in case["skip"] or n not in dflt_tt.getGlyphOrder():
                continue
            st = struct(dflt_tt, n)
            decomposed = (st[0] == "simple") if is_tt else (len(st[1]) > 0)
            if not decomposed:
                continue
            reach, todo = set(), [c["base"] for c in g["components"]]
            while todo:
                b = todo.pop()
                if b in reach or b not in by_name:
                    continue
                reach.add(b)
                todo.extend(c["base"] for c in by_name[b]["components"])
            hit = reach & layer_names_set & got
            if not hit:
                continue
            bump("decomposed_composites_of_layer_glyphs")
            if n not in got:
                violations.append({"mech": "decomposed_composite_missing_from_sparse_master", "detail": {
                    "master": i, "glyph": n, "layer_glyphs_it_contains": sorted(hit),
                    "source_location": src["location"], "sparse_master_glyphs": sorted(got)}})
    # ---------------- control: would the masters diverge when compiled alone?
    if is_tt and len(ds["ufos"]) >= 2:
        try:
            alone = []
            for u in ds["ufos"]:
                f = build_ufo(u, case["lib"])
                t = ufo2ft.compileTTF(f, useProductionNames=False)
                alone.append(t)
            div = False
            for n in alone[0].getGlyphOrder():
                sts = {structure_tt(t, n) for t in alone if n in t.getGlyphOrder()}
                if len(sts) > 1:
                    div = True
                    break
            if div:
                bump("would_diverge_families")
        except Exception:  # noqa: BLE001
            bump("control_compile_failed")
    if ds.get("meta", {}).get("comp_2x2"):
        bump("comp2x2_mismatch_families")
    cubic = any(p[2] == "curve" for g in default_glyphs for c in g["contours"] for p in c)
    if cubic:
        bump("cubic_glyphs")
    comp = any(g["components"] for g in default_glyphs)
    return {"status": "violated" if violations else "held", "violations": violations[:8],
            "counters": counters, "nontrivial": len(loaded) >= 2 and (cubic or comp)}


def composed_2x2_overflows(glyphs, name):
    """Does some chain of component references below `name` compose to a 2x2 part with an entry
    beyond what a TrueType composite can store (|v| >= 2)?"""
    from vf.ref import render as R

    def walk(n, m, depth):
        if depth > 8 or n not in glyphs:
            return False
        for c in glyphs[n]["components"]:
            cm = R.compose(m, R.mat(c["t"]))
            if depth >= 1 and any(abs(float(cm[i])) >= 2 - 2 ** -14 for i in range(4)):
                return True
            if walk(c["base"], cm, depth + 1):
                return True
        return False

    return walk(name, R.IDENT, 0)


def classify(v, case):
    if (v["mech"] == "unexpected_exception" and "xAvgCharWidth" in v["detail"].get("trace", "")
            and "does not fit" in v["detail"]["trace"]
            and any(s_.get("sparse_ufo") for s_ in case["ds"]["sources"])):
        # a non-default source that is a UFO of its own lacking most glyphs: the bases its
        # composites refer to are added as placeholders with the advance 0xFFFF (the sentinel
        # varLib skips); unlike a layer master this font gets an OS/2 table, whose average
        # advance then exceeds an int16 when placeholders make up about half of the glyphs
        return "sparse_ufo_master_placeholder_advances_overflow_avg_char_width"
    if (v["mech"] == "structure_differs_across_masters" and "OTF" in case["func"]
            and closing_point_coincides_in_some_masters(case["ds"], v["detail"]["glyph"])):
        return "closing_point_on_start_point_in_some_masters_only"
    if (v["mech"] == "decomposed_composite_missing_from_sparse_master"
            and "TTF" in case["func"] and case["skip"]):
        # nested references are merged into one (flattening, or inlining a non-exported
        # glyph): when the composed 2x2 part cannot be stored in a TrueType composite the glyf
        # builder decomposes the glyph, in every full master separately - no joint decision and
        # no copy in the sparse master (same root as C13's inlined_reference_overflows_...)
        by = {g["name"]: g for g in case["ds"]["ufos"][case["ds"]["sources"][
            masters.default_source_index(case["ds"])]["ufo"]]["glyphs"]}
        reach_, todo_ = set(), [v["detail"]["glyph"]]
        while todo_:
            n_ = todo_.pop()
            if n_ in reach_ or n_ not in by:
                continue
            reach_.add(n_)
            todo_.extend(c_["base"] for c_ in by[n_]["components"])
        if composed_2x2_overflows(by, v["detail"]["glyph"]) and (set(case["skip"]) & reach_):
            return "merged_reference_overflows_f2dot14_decomposed_without_sparse_master"
    if (v["mech"] == "structure_differs_across_masters" and "TTF" in case["func"]
            and (case["opts"].get("flattenComponents") or case["skip"])):
        # same root as merged_reference_overflows_...: nested references merged into one whose
        # composed 2x2 part cannot be stored are decomposed by the glyf builder, master by
        # master; in a sparse master that lacks one of the bases (an empty placeholder stands
        # in for it) the decomposed glyph lacks that base's contours
        ds_ = case["ds"]
        by = {g["name"]: g for g in ds_["ufos"][ds_["sources"][
            masters.default_source_index(ds_)]["ufo"]]["glyphs"]}
        gname = v["detail"]["glyph"]
        reach_, todo_ = set(), [gname]
        while todo_:
            n_ = todo_.pop()
            if n_ in reach_ or n_ not in by:
                continue
            reach_.add(n_)
            todo_.extend(c_["base"] for c_ in by[n_]["components"])
        leaves_ = {n_ for n_ in reach_ if by[n_]["contours"]}
        lacking = False
        for s_ in ds_["sources"]:
            if s_.get("layerName") or s_.get("sparse_ufo"):
                u_ = ds_["ufos"][s_["ufo"]]
                have = {g["name"] for g in (u_["layers"][s_["layerName"]] if s_.get("layerName")
                                            else u_["glyphs"])}
                if leaves_ - have:
                    lacking = True
        if lacking and gname in by and composed_2x2_overflows(by, gname):
            return "merged_reference_overflows_f2dot14_decomposed_over_placeholder_bases"
    if v["mech"] == "structure_differs_across_masters":
        # the decomposition reverses the contours of a mirrored component (negative
        # determinant) master by master: a component that is mirrored in some masters only
        # yields contours of opposite direction / start point there
        if mirrored_in_some_masters(case["ds"], v["detail"]["glyph"]):
            return "component_mirrored_in_some_masters_only"
    if (v["mech"] == "unexpected_exception" and case["opts"].get("optimizeCFF") == 2
            and "tx:" in v["detail"].get("trace", "") and "can't find cmap" in v["detail"]["trace"]
            and any(s_.get("layerName") for s_ in case["ds"]["sources"])):
        return "interpolatable_otf_subroutinize_fails_on_sparse_master"
    if (v["mech"] == "unexpected_exception" and case["opts"].get("optimizeCFF") == 2
            and "AttributeError" in v["detail"].get("trace", "") and "charset" in v["detail"]["trace"]
            and "OTF" in case["func"]):
        # a sparse master whose glyph order is a prefix of the predefined ISOAdobe charset
        # ('.notdef space'): cffsubr's output then uses the predefined charset id, which
        # fontTools cannot compile again (C04's listed finding, reached through a sparse master)
        from vf.props.c04 import ISO_PREFIX
        for s_ in case["ds"]["sources"]:
            u_ = case["ds"]["ufos"][s_["ufo"]]
            gl_ = u_["layers"][s_["layerName"]] if s_.get("layerName") else u_["glyphs"]
            names_ = [g["name"] for g in gl_ if g["name"] not in set(case["skip"])]
            if ".notdef" not in names_:
                names_ = [".notdef"] + names_
            if (s_.get("layerName") or s_.get("sparse_ufo")) and \
                    sorted(names_) == sorted(ISO_PREFIX[:len(names_)]):
                return "cffsubr_predefined_charset_unsavable"
    if v["mech"] == "unexpected_exception":
        # TrueType path: the same per-master reversal makes the masters disagree in point types,
        # which the joint cubic-to-quadratic conversion rejects
        import re
        tr = v["detail"].get("trace", "")
        m = re.search(r"IncompatibleFontsError: fonts contains incompatible glyphs: (.*)", tr)
        if m:
            names = re.findall(r"'([^']+)'", m.group(1))
            if names and all(mirrored_in_some_masters(case["ds"], n) for n in names):
                return "component_mirrored_in_some_masters_only"
    return None
