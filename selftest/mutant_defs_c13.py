def define(M):
    F = "Lib/ufo2ft/filters/skipExportGlyphs.py"
    # (decomposeNested=True was tried: it only turns kept TrueType composites into simple glyphs,
    #  the rendering - all the property speaks about - is unchanged, so it is not a C13 mutant)
    M("C13", "unreferenced_skipped_not_deleted", F,
      "        if not self.options.skipExportGlyphs:\n            return self.context.modified  # nothing to do\n\n        modified = super().__call__(font, glyphSet)\n\n        # now that",
      "        if not self.options.skipExportGlyphs:\n            return self.context.modified  # nothing to do\n\n        modified = super().__call__(font, glyphSet)\n        if not modified:\n            return modified\n\n        # now that")
    M("C13", "groups_not_pruned", "Lib/ufo2ft/featureWriters/kernFeatureWriter.py",
      "                members = {g for g in members if g in allGlyphs}\n",
      "                members = set(members)\n")
    M("C13", "arg_does_not_override_lib", "Lib/ufo2ft/_compilers/baseCompiler.py",
      "        if self.skipExportGlyphs is None:\n            if isinstance(ufo_or_ufos, (list, tuple)):",
      "        if self.skipExportGlyphs is None or (not isinstance(ufo_or_ufos, (list, tuple)) and ufo_or_ufos.lib.get(\"public.skipExportGlyphs\")):\n            if isinstance(ufo_or_ufos, (list, tuple)):")
    M("C13", "reverse_flipped_lost_in_skip", "Lib/ufo2ft/util.py",
      "        reverseFlipped=reverseFlipped,", "        reverseFlipped=reverseFlipped and include is None,")
    M("C13", "skip_only_first_reference", F,
      "        if not glyph.components or self.options.skipExportGlyphs.isdisjoint(\n            comp.baseGlyph for comp in glyph.components\n        ):",
      "        if not glyph.components or glyph.components[0].baseGlyph not in self.options.skipExportGlyphs:")
    M("C13", "ds_lib_ignored", "Lib/ufo2ft/_compilers/baseCompiler.py",
      "        self.skipExportGlyphs = designSpaceDoc.lib.get(\"public.skipExportGlyphs\", [])",
      "        self.skipExportGlyphs = []")
