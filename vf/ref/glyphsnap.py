"""Glyph snapshots and outline comparison helpers for before/after-filter oracles (C15).

* `read_glyph` / `read_glyphset`: real defcon / ufoLib2 glyph objects (or any mapping of them)
  -> the glyph-spec format of vf/build.py, through the point-pen protocol only (library agnostic);
* `Snap(glyphs).cycles(name)`: exact-rational closed cycles of the fully resolved glyph
  (R.resolve + R.ref_cycles: composed matrices, reversal by composed determinant), cached;
* exact comparison (multiset of direction-sensitive canonical cycles, order recorded) and
  tolerance comparison (bipartite matching of cycles, every point within `dev`);
* `anchor_candidates`: closure of the positions where *some* component path puts an anchor of a
  given name (weak oracle for anchor propagation, no selection heuristics).
"""
import re
from fractions import Fraction as F

from vf.ref import render as R


class _Collector:
    """Minimal point pen (duck-typed: beginPath/addPoint/endPath/addComponent)."""

    def __init__(self):
        self.contours = []
        self.components = []
        self._cur = None

    def beginPath(self, identifier=None, **kwargs):
        self._cur = []

    def addPoint(self, pt, segmentType=None, smooth=False, name=None, identifier=None, **kwargs):
        self._cur.append([pt[0], pt[1], segmentType, bool(smooth)])

    def endPath(self):
        self.contours.append(self._cur)
        self._cur = None

    def addComponent(self, baseGlyphName, transformation, identifier=None, **kwargs):
        self.components.append({"base": baseGlyphName, "t": [v for v in transformation]})


def read_glyph(glyph):
    pen = _Collector()
    glyph.drawPoints(pen)
    return {
        "name": glyph.name,
        "width": glyph.width,
        "height": glyph.height,
        "contours": pen.contours,
        "components": pen.components,
        "anchors": [{"name": a.name, "x": a.x, "y": a.y} for a in glyph.anchors],
    }


def read_glyphset(mapping):
    """font (iterable of glyphs with keys()) or dict name->glyph  ->  {name: glyph spec}"""
    return {name: read_glyph(mapping[name]) for name in mapping.keys()}


# ----------------------------------------------------------------------------------------------
# outlines


def exactify(g):
    """Glyph spec with all coordinates / matrix entries as exact rationals (converted once)."""
    return {
        "name": g.get("name"),
        "contours": [[[R.fr(p[0]), R.fr(p[1]), p[2], bool(p[3]) if len(p) > 3 else False]
                      for p in c] for c in g.get("contours", [])],
        "components": [{"base": c["base"], "t": R.mat(c["t"])} for c in g.get("components", [])],
    }


class Snap:
    """A glyph set (name -> spec) with cached exact resolutions."""

    def __init__(self, glyphs):
        self.glyphs = {n: exactify(g) for n, g in glyphs.items()}
        self._res = {}
        self._cyc = {}

    def resolved(self, name):
        r = self._res.get(name)
        if r is None:
            r = self._res[name] = R.resolve(self.glyphs, name)
        return r

    def cycles(self, name):
        """Closed cycles [(start, segs)] of the fully resolved glyph, exact rationals; quadratics
        kept (implied on-curve points made explicit); flipped leaves reversed."""
        c = self._cyc.get(name)
        if c is None:
            c = self._cyc[name] = R.ref_cycles(self.resolved(name), keep_quadratic=True)
        return c

    def n_flipped(self, name):
        return sum(1 for _, flip in self.resolved(name) if flip)

    def draws_nothing(self, name):
        return not any(segs for _, segs in self.cycles(name))


def drawing(glyphs, name):
    return R.ref_cycles(R.resolve(glyphs, name), keep_quadratic=True)


def map_cycles(m, cycles):
    """Apply the affine 6-tuple m (exact) to every point; NO reversal (the statement says the
    outline is mapped by exactly the matrix)."""
    out = []
    for start, segs in cycles:
        out.append((R.apply(m, *start),
                    [(s[0],) + tuple(R.apply(m, *p) for p in s[1:]) for s in segs]))
    return out


def cycle_points(cycles):
    for start, segs in cycles:
        yield start
        for s in segs:
            for p in s[1:]:
                yield p


def max_abs(cycles):
    m = F(0)
    for p in cycle_points(cycles):
        a, b = abs(p[0]), abs(p[1])
        if a > m:
            m = a
        if b > m:
            m = b
    return m


def _as_closed(start, segs):
    """Cyclic segment list of one contour; NOTHING is cleaned away (the filters pass every point
    through, so zero-length segments and single points must survive as they are)."""
    if not segs:
        return [("p", start)]
    return list(segs)


def canon_raw(cycles):
    out = []
    for start, segs in cycles:
        if not segs:
            out.append((("p", start),))
        else:
            out.append(R.canon_cycle(list(segs)))
    return out


def compare_exact(ref, got):
    """Exact comparison of two drawings as multisets of direction-sensitive closed cycles
    (start point free).  -> (same_multiset, same_order)"""
    from collections import Counter
    a = canon_raw(ref)
    b = canon_raw(got)
    if a == b:
        return True, True
    return Counter(a) == Counter(b), False


def _match(ref, got, dev):
    n = len(ref)
    if n != len(got):
        return False
    for k in range(n):
        ok = True
        for i in range(n):
            a, b = ref[i], got[(i + k) % n]
            if a[0] != b[0] or len(a) != len(b):
                ok = False
                break
            for p, q in zip(a[1:], b[1:]):
                if abs(p[0] - q[0]) > dev or abs(p[1] - q[1]) > dev:
                    ok = False
                    break
            if not ok:
                break
        if ok:
            return True
    return False


def compare_tol(ref, got, dev, undirected=False):
    """Multiset comparison of closed cycles with every point within dev (per coordinate),
    direction-sensitive (unless `undirected`: a cycle may also match reversed - diagnostic
    only), start point free.  -> (ok, same_order)"""
    a = [_as_closed(s, segs) for s, segs in ref]
    b = [_as_closed(s, segs) for s, segs in got]
    if len(a) != len(b):
        return False, False
    if undirected:
        rev = [_as_closed(*R.reverse_cycle(s, segs)) if segs else [("p", s)] for s, segs in ref]

        def m(i, j):
            return _match(a[i], b[j], dev) or _match(rev[i], b[j], dev)
    else:
        def m(i, j):
            return _match(a[i], b[j], dev)
    n = len(a)
    if all(m(i, i) for i in range(n)):
        return True, True
    # bipartite matching (augmenting paths); contour counts are small
    adj = [[j for j in range(n) if m(i, j)] for i in range(n)]
    owner = [None] * n

    def try_assign(i, seen):
        for j in adj[i]:
            if j in seen:
                continue
            seen.add(j)
            if owner[j] is None or try_assign(owner[j], seen):
                owner[j] = i
                return True
        return False

    for i in range(n):
        if not try_assign(i, set()):
            return False, False
    return True, False


def show(cycles, limit=6):
    out = []
    for start, segs in cycles[:limit]:
        out.append([[float(start[0]), float(start[1])]] +
                   [[s[0]] + [[float(p[0]), float(p[1])] for p in s[1:]] for s in segs][:12])
    return out


# ----------------------------------------------------------------------------------------------
# components


def is_identity_2x2(t):
    return R.fr(t[0]) == 1 and R.fr(t[1]) == 0 and R.fr(t[2]) == 0 and R.fr(t[3]) == 1


def depth_of(glyphs, name, _stack=()):
    d = 0
    for c in glyphs[name].get("components", []):
        if c["base"] in glyphs and c["base"] not in _stack:
            d = max(d, 1 + depth_of(glyphs, c["base"], _stack + (name,)))
    return d


def reaches(glyphs, name):
    """Names of all glyphs reachable through component references (excluding name itself unless
    cyclic)."""
    out = set()
    todo = [c["base"] for c in glyphs[name].get("components", [])]
    while todo:
        n = todo.pop()
        if n in out or n not in glyphs:
            continue
        out.add(n)
        todo.extend(c["base"] for c in glyphs[n].get("components", []))
    return out


def component_only(g):
    return bool(g.get("components")) and not g.get("contours")


# ----------------------------------------------------------------------------------------------
# anchors

_NUMBERED = re.compile(r"^(.+)_(\d+)$")


def anchor_candidates(glyphs, name, anchor_name, _memo=None, _stack=()):
    """All positions (exact) where some component path starting at glyph `name` puts an anchor
    called `anchor_name` (or, for a numbered name n_k, an anchor called n) of the glyph at the end
    of the path; own anchors of `name` itself are NOT included (see anchor_positions)."""
    if _memo is None:
        _memo = {}
    key = ("C", name, anchor_name)
    if key in _memo:
        return _memo[key]
    out = set()
    if name in _stack:
        return out
    names = [anchor_name]
    m = _NUMBERED.match(anchor_name)
    if m:
        names.append(m.group(1))
    for comp in glyphs[name].get("components", []):
        if comp["base"] not in glyphs:
            continue
        t = R.mat(comp["t"])
        for n in names:
            for (x, y) in anchor_positions(glyphs, comp["base"], n, _memo, _stack + (name,)):
                out.add(R.apply(t, x, y))
    _memo[key] = out
    return out


def anchor_positions(glyphs, name, anchor_name, _memo=None, _stack=()):
    """Own anchors of `name` called anchor_name plus everything propagation could give it."""
    if _memo is None:
        _memo = {}
    key = ("P", name, anchor_name)
    if key in _memo:
        return _memo[key]
    out = set()
    for a in glyphs[name].get("anchors", []):
        if a["name"] == anchor_name:
            out.add((R.fr(a["x"]), R.fr(a["y"])))
    out |= anchor_candidates(glyphs, name, anchor_name, _memo, _stack)
    _memo[key] = out
    return out
