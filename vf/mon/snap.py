"""M-snap / M-alias / M-trip: state monitors for source fonts and designspace documents.

* snapshot(font): deep, library-agnostic structural value of a defcon / ufoLib2 font (every layer,
  every glyph: points with types/smooth/names/identifiers, components, anchors, width/height,
  unicodes, lib; layer libs; font lib; info; kerning; groups; features text; data/images listing).
* diff(a, b): list of (path, before, after) differences.
* ds_snapshot(doc): axes, sources (incl. identity of .font), rules, lib, instances, variable fonts.
* alias_report(glyphSet, font, layerName): objects shared between a working glyph set and the
  source layer (only meaningful when inplace is false).
* TripDict: dict subclass that records every write together with the innermost ufo2ft frame.
"""
import copy
import sys
import traceback

INFO_ATTRS = None


def _info_attrs():
    global INFO_ATTRS
    if INFO_ATTRS is None:
        from fontTools.ufoLib import fontInfoAttributesVersion3
        INFO_ATTRS = sorted(fontInfoAttributesVersion3)
    return INFO_ATTRS


def _plain(v):
    """Deep copy of a plist-like value into plain dict/list/scalars (order of dict items kept as
    a list of pairs so that re-ordering is visible too)."""
    if isinstance(v, dict):
        return {"__order__": [str(k) for k in v], "items": {str(k): _plain(x) for k, x in v.items()}}
    if isinstance(v, (list, tuple)):
        return [_plain(x) for x in v]
    if isinstance(v, (str, int, float, bool, bytes)) or v is None:
        return v
    if hasattr(v, "items"):
        return {"__order__": [str(k) for k in v.keys()],
                "items": {str(k): _plain(x) for k, x in v.items()}}
    try:
        return copy.deepcopy(v)
    except Exception:  # noqa: BLE001
        return repr(v)


def glyph_snapshot(g):
    contours = []
    for c in g:
        pts = []
        points = c.points if hasattr(c, "points") else list(c)
        for p in points:
            st = getattr(p, "type", None)
            if st is None and hasattr(p, "segmentType"):
                st = p.segmentType
            pts.append((p.x, p.y, st, bool(p.smooth), getattr(p, "name", None),
                        getattr(p, "identifier", None)))
        contours.append((pts, getattr(c, "identifier", None)))
    comps = [(c.baseGlyph, tuple(c.transformation), getattr(c, "identifier", None))
             for c in g.components]
    anchors = [(a.name, a.x, a.y, getattr(a, "color", None), getattr(a, "identifier", None))
               for a in g.anchors]
    guides = [(getattr(x, "x", None), getattr(x, "y", None), getattr(x, "angle", None),
               getattr(x, "name", None)) for x in (getattr(g, "guidelines", None) or [])]
    return {"width": g.width, "height": g.height, "unicodes": list(g.unicodes),
            "contours": contours, "components": comps, "anchors": anchors, "guidelines": guides,
            "lib": _plain(g.lib), "note": getattr(g, "note", None)}


def snapshot(font):
    snap = {"layers": {}, "layer_order": [], "default_layer": None}
    for layer in font.layers:
        snap["layer_order"].append(layer.name)
        snap["layers"][layer.name] = {
            "glyphs": {g.name: glyph_snapshot(g) for g in layer},
            "order": [g.name for g in layer] if not hasattr(layer, "keys") else sorted(layer.keys()),
            "lib": _plain(layer.lib),
        }
    snap["default_layer"] = font.layers.defaultLayer.name
    snap["lib"] = _plain(font.lib)
    snap["info"] = {a: _plain(getattr(font.info, a, None)) for a in _info_attrs()}
    snap["kerning"] = sorted((k[0], k[1], v) for k, v in font.kerning.items())
    snap["groups"] = {k: list(v) for k, v in font.groups.items()}
    snap["features"] = font.features.text
    try:
        snap["data"] = sorted(font.data.fileNames)
    except Exception:  # noqa: BLE001
        snap["data"] = None
    try:
        snap["images"] = sorted(font.images.fileNames)
    except Exception:  # noqa: BLE001
        snap["images"] = None
    snap["glyphOrder"] = list(font.glyphOrder)
    return snap


def diff(a, b, path="", out=None, limit=12):
    out = [] if out is None else out
    if len(out) >= limit:
        return out
    if type(a) != type(b) and not (isinstance(a, (int, float)) and isinstance(b, (int, float))):
        out.append((path, _short(a), _short(b)))
        return out
    if isinstance(a, dict):
        for k in sorted(set(a) | set(b), key=str):
            if k not in a:
                out.append((f"{path}/{k}", "<absent>", _short(b[k])))
            elif k not in b:
                out.append((f"{path}/{k}", _short(a[k]), "<absent>"))
            else:
                diff(a[k], b[k], f"{path}/{k}", out, limit)
            if len(out) >= limit:
                break
        return out
    if isinstance(a, (list, tuple)):
        if len(a) != len(b):
            out.append((path + "#len", len(a), len(b)))
            # show the first differing element too
        for i, (x, y) in enumerate(zip(a, b)):
            diff(x, y, f"{path}[{i}]", out, limit)
            if len(out) >= limit:
                break
        return out
    if a != b:
        out.append((path, _short(a), _short(b)))
    return out


def _short(v):
    s = repr(v)
    return s if len(s) < 200 else s[:200] + "..."


def ds_snapshot(doc):
    def loc(d):
        return sorted((k, v) for k, v in (d or {}).items())
    snap = {
        "axes": [(a.name, a.tag, getattr(a, "minimum", None), getattr(a, "default", None),
                  getattr(a, "maximum", None), list(getattr(a, "map", None) or []),
                  sorted((getattr(a, "labelNames", None) or {}).items()))
                 for a in doc.axes],
        "sources": [(s.name, s.filename, s.path, s.layerName, s.familyName, s.styleName,
                     loc(s.location), id(s.font), s.copyLib, s.copyInfo, s.copyGroups,
                     s.copyFeatures, s.muteKerning, s.muteInfo, sorted(s.mutedGlyphNames or []))
                    for s in doc.sources],
        "rules": [(r.name, [[sorted(c.items()) for c in cs] for cs in r.conditionSets],
                   [tuple(x) for x in r.subs]) for r in doc.rules],
        "rulesProcessingLast": doc.rulesProcessingLast,
        "lib": _plain(doc.lib),
        "instances": [(i.name, i.familyName, i.styleName, loc(i.location), i.filename)
                      for i in doc.instances],
        "variableFonts": [(v.name, v.filename) for v in getattr(doc, "variableFonts", [])],
        "n_sources": len(doc.sources),
    }
    return snap


# ---------------------------------------------------------------- M-alias

def alias_report(glyphSet, font, layerName=None):
    """Objects of the working glyph set that ARE objects of the source layer."""
    layer = font.layers[layerName] if layerName is not None else font.layers.defaultLayer
    shared = []
    if getattr(glyphSet, "lib", None) is layer.lib:
        shared.append("layer.lib")
    src_ids = {}
    for g in layer:
        src_ids[id(g)] = ("glyph", g.name)
        src_ids[id(g.lib)] = ("glyph.lib", g.name)
        for c in g:
            src_ids[id(c)] = ("contour", g.name)
        for c in g.components:
            src_ids[id(c)] = ("component", g.name)
        for a in g.anchors:
            src_ids[id(a)] = ("anchor", g.name)
    for name, g in glyphSet.items():
        objs = [g, getattr(g, "lib", None)]
        try:
            objs += list(g) + list(g.components) + list(g.anchors)
        except Exception:  # noqa: BLE001
            pass
        for o in objs:
            if o is not None and id(o) in src_ids:
                shared.append("%s of %s" % src_ids[id(o)])
                if len(shared) > 6:
                    return shared
    return shared


# ---------------------------------------------------------------- M-trip

class TripDict(dict):
    """A dict that logs every mutation with the innermost ufo2ft frame (call-site keyed
    findings).  The real dict is updated in the same call, so the log cannot disagree with it."""

    log = []           # shared event log: (label, op, key, site)
    armed = True

    def __init__(self, *a, label="", **kw):
        super().__init__(*a, **kw)
        self._label = label

    def _rec(self, op, key):
        if not TripDict.armed:
            return
        site = None
        f = sys._getframe(2)
        while f is not None:
            fn = f.f_code.co_filename
            if "/ufo2ft/" in fn and "/verif/" not in fn:
                site = "%s:%s" % (fn.split("/ufo2ft/")[-1], f.f_code.co_name)
                break
            f = f.f_back
        TripDict.log.append((self._label, op, repr(key)[:80], site))

    def __setitem__(self, k, v):
        self._rec("set", k)
        super().__setitem__(k, v)

    def __delitem__(self, k):
        self._rec("del", k)
        super().__delitem__(k)

    def pop(self, k, *d):
        if k in self:
            self._rec("pop", k)
        return super().pop(k, *d)

    def popitem(self):
        self._rec("popitem", None)
        return super().popitem()

    def clear(self):
        self._rec("clear", None)
        super().clear()

    def update(self, *a, **kw):
        self._rec("update", None)
        super().update(*a, **kw)

    def setdefault(self, k, d=None):
        if k not in self:
            self._rec("setdefault", k)
        return super().setdefault(k, d)

    def __ior__(self, other):
        self._rec("ior", None)
        return super().__ior__(other)

    def __deepcopy__(self, memo):
        return {k: copy.deepcopy(v, memo) for k, v in self.items()}

    def __reduce__(self):
        return (dict, (dict(self),))


def _trip_value(v, label):
    if isinstance(v, dict) and not isinstance(v, TripDict):
        return TripDict({k: _trip_value(x, label + "/" + str(k)) for k, x in v.items()}, label=label)
    if isinstance(v, list):
        return [_trip_value(x, label) for x in v]
    return v


def arm_ufolib2(font, label="font"):
    """Replace lib dicts (font, layers, glyphs; nested dict values too) of a ufoLib2 font by
    TripDicts.  Returns the number of dicts armed."""
    n = 0
    TripDict.armed = False
    try:
        font.lib = _trip_value(dict(font.lib), label + ".lib")
        n += 1
        for layer in font.layers:
            try:
                layer._lib = _trip_value(dict(layer.lib), "%s.layer[%s].lib" % (label, layer.name))
                n += 1
            except Exception:  # noqa: BLE001
                pass
            for g in layer:
                g.lib = _trip_value(dict(g.lib), "%s.glyph[%s].lib" % (label, g.name))
                n += 1
    finally:
        TripDict.armed = True
    return n


# ---------------------------------------------------------------- M-fail

class InjectedFault(Exception):
    pass


class Failpoints:
    """Source-free failpoints through sys.monitoring PY_START events restricted to code objects
    of the repository's ufo2ft package: count() numbers the function entries of one execution,
    arm(k) makes the k-th entry raise InjectedFault."""

    TOOL = 3

    def __init__(self, repo_lib):
        self.prefix = repo_lib.rstrip("/") + "/ufo2ft/"
        self.n = 0
        self.target = None
        self.fired_at = None

    def _cb(self, code, offset):
        mon = sys.monitoring
        if not code.co_filename.startswith(self.prefix):
            return mon.DISABLE
        self.n += 1
        if self.target is not None and self.n == self.target:
            self.fired_at = "%s:%s" % (code.co_filename[len(self.prefix):], code.co_name)
            raise InjectedFault(self.fired_at)
        return None

    def __enter__(self):
        mon = sys.monitoring
        mon.use_tool_id(self.TOOL, "vf-failpoints")
        mon.register_callback(self.TOOL, mon.events.PY_START, self._cb)
        mon.set_events(self.TOOL, mon.events.PY_START)
        mon.restart_events()
        self.n = 0
        self.fired_at = None
        return self

    def __exit__(self, *exc):
        mon = sys.monitoring
        mon.set_events(self.TOOL, 0)
        mon.register_callback(self.TOOL, mon.events.PY_START, None)
        mon.free_tool_id(self.TOOL)
        return False
