"""Glyph snapshots and outline comparison helpers for before/after-filter oracles (C15).

* `read_glyph` / `read_glyphset`: real defcon / ufoLib2 glyph objects (or any mapping of them)
  -> the glyph-spec format of vf/build.py, through the point-pen protocol only (library agnostic);
* `drawing(glyphs, name)`: exact-rational closed cycles of the fully resolved glyph (R.resolve
  + R.ref_cycles: composed matrices, reversal by composed determinant);
* exact comparison (multiset of direction-sensitive canonical cycles, order recorded) and
  tolerance comparison (bipartite matching of cycles, every point within `dev`);
* `anchor_candidates`: closure of the positions where *some* component path puts an anchor of a
  given name (weak oracle for anchor propagation, no selection heuristics).
"""
import re
from fractions import Fraction as F

from vf.ref import render as R


class _Collector:
    """Minimal point pen (duck-typed: beginPath/addPoint/endPath/addComponent)."""

    def __init__(self):
        self.contours = []
        self.components = []
        self._cur = None

    def beginPath(self, identifier=None, **kwargs):
        self._cur = []

    def addPoint(self, pt, segmentType=None, smooth=False, name=None, identifier=None, **kwargs):
        self._cur.append([pt[0], pt[1], segmentType, bool(smooth)])

    def endPath(self):
        self.contours.append(self._cur)
        self._cur = None

    def addComponent(self, baseGlyphName, transformation, identifier=None, **kwargs):
        self.components.append({"base": baseGlyphName, "t": [v for v in transformation]})


def read_glyph(glyph):
    pen = _Collector()
    glyph.drawPoints(pen)
    return {
        "name": glyph.name,
        "width": glyph.width,
        "height": glyph.height,
        "contours": pen.contours,
        "components": pen.components,
        "anchors": [{"name": a.name, "x": a.x, "y": a.y} for a in glyph.anchors],
    }


def read_glyphset(mapping):
    """font (iterable of glyphs with keys()) or dict name->glyph  ->  {name: glyph spec}"""
    return {name: read_glyph(mapping[name]) for name in mapping.keys()}


# ----------------------------------------------------------------------------------------------
# outlines


def drawing(glyphs, name):
    """Closed cycles [(start, segs)] of the fully resolved glyph, exact rationals; quadratics
    kept (implied on-curve points made explicit)."""
    return R.ref_cycles(R.resolve(glyphs, name), keep_quadratic=True)


def n_flipped(glyphs, name):
    return sum(1 for _, flip in R.resolve(glyphs, name) if flip)


def map_cycles(m, cycles):
    """Apply the affine 6-tuple m (exact) to every point; NO reversal (the statement says the
    outline is mapped by exactly the matrix)."""
    out = []
    for start, segs in cycles:
        out.append((R.apply(m, *start),
                    [(s[0],) + tuple(R.apply(m, *p) for p in s[1:]) for s in segs]))
    return out


def cycle_points(cycles):
    for start, segs in cycles:
        yield start
        for s in segs:
            for p in s[1:]:
                yield p


def max_abs(cycles):
    m = F(0)
    for p in cycle_points(cycles):
        a, b = abs(p[0]), abs(p[1])
        if a > m:
            m = a
        if b > m:
            m = b
    return m


def compare_exact(ref, got):
    """-> (same_multiset, same_order)"""
    a = R.canon_drawing(ref)
    b = R.canon_drawing(got)
    if a == b:
        return True, True
    key = lambda c: R._flat(c)  # noqa: E731
    return sorted(a, key=key) == sorted(b, key=key), False


def _prep_tol(cycles, dev):
    """Clean cycles for a tolerance comparison: exact draws-nothing operations removed, then
    segments all of whose points lie within 2*dev of the segment's start removed (they are
    indistinguishable from a zero-length segment at the granted precision)."""
    out = []
    for s, segs in cycles:
        c = R.clean_cycle(s, segs)
        if not c:
            continue
        kept = []
        for i in range(len(c)):
            a = c[i - 1][-1]
            if all(abs(p[0] - a[0]) <= 2 * dev and abs(p[1] - a[1]) <= 2 * dev for p in c[i][1:]):
                continue
            kept.append(c[i])
        if kept:
            out.append(kept)
    return out


def _match(ref, got, dev):
    n = len(ref)
    if n != len(got):
        return None
    for k in range(n):
        ok = True
        for i in range(n):
            a, b = ref[i], got[(i + k) % n]
            if a[0] != b[0] or len(a) != len(b):
                ok = False
                break
            for p, q in zip(a[1:], b[1:]):
                if abs(p[0] - q[0]) > dev or abs(p[1] - q[1]) > dev:
                    ok = False
                    break
            if not ok:
                break
        if ok:
            return True
    return None


def compare_tol(ref, got, dev):
    """Multiset comparison of closed cycles with every point within dev (per coordinate),
    direction-sensitive, start point free.  -> (ok, same_order)"""
    a = _prep_tol(ref, dev)
    b = _prep_tol(got, dev)
    if len(a) != len(b):
        return False, False
    if all(_match(x, y, dev) for x, y in zip(a, b)):
        return True, True
    # bipartite matching (augmenting paths); contour counts are small
    n = len(a)
    adj = [[j for j in range(n) if _match(a[i], b[j], dev)] for i in range(n)]
    owner = [None] * n

    def try_assign(i, seen):
        for j in adj[i]:
            if j in seen:
                continue
            seen.add(j)
            if owner[j] is None or try_assign(owner[j], seen):
                owner[j] = i
                return True
        return False

    for i in range(n):
        if not try_assign(i, set()):
            return False, False
    return True, False


def show(cycles, limit=6):
    out = []
    for start, segs in cycles[:limit]:
        out.append([[float(start[0]), float(start[1])]] +
                   [[s[0]] + [[float(p[0]), float(p[1])] for p in s[1:]] for s in segs][:12])
    return out


# ----------------------------------------------------------------------------------------------
# components


def is_identity_2x2(t):
    return R.fr(t[0]) == 1 and R.fr(t[1]) == 0 and R.fr(t[2]) == 0 and R.fr(t[3]) == 1


def depth_of(glyphs, name, _stack=()):
    d = 0
    for c in glyphs[name].get("components", []):
        if c["base"] in glyphs and c["base"] not in _stack:
            d = max(d, 1 + depth_of(glyphs, c["base"], _stack + (name,)))
    return d


def reaches(glyphs, name):
    """Names of all glyphs reachable through component references (excluding name itself unless
    cyclic)."""
    out = set()
    todo = [c["base"] for c in glyphs[name].get("components", [])]
    while todo:
        n = todo.pop()
        if n in out or n not in glyphs:
            continue
        out.add(n)
        todo.extend(c["base"] for c in glyphs[n].get("components", []))
    return out


def component_only(g):
    return bool(g.get("components")) and not g.get("contours")


# ----------------------------------------------------------------------------------------------
# anchors

_NUMBERED = re.compile(r"^(.+)_(\d+)$")


def anchor_candidates(glyphs, name, anchor_name, _memo=None, _stack=()):
    """All positions (exact) where some component path starting at glyph `name` puts an anchor
    called `anchor_name` (or, for a numbered name n_k, an anchor called n) of the glyph at the end
    of the path; own anchors of `name` itself are NOT included (see anchor_positions)."""
    if _memo is None:
        _memo = {}
    key = ("C", name, anchor_name)
    if key in _memo:
        return _memo[key]
    out = set()
    if name in _stack:
        return out
    names = [anchor_name]
    m = _NUMBERED.match(anchor_name)
    if m:
        names.append(m.group(1))
    for comp in glyphs[name].get("components", []):
        if comp["base"] not in glyphs:
            continue
        t = R.mat(comp["t"])
        for n in names:
            for (x, y) in anchor_positions(glyphs, comp["base"], n, _memo, _stack + (name,)):
                out.add(R.apply(t, x, y))
    _memo[key] = out
    return out


def anchor_positions(glyphs, name, anchor_name, _memo=None, _stack=()):
    """Own anchors of `name` called anchor_name plus everything propagation could give it."""
    if _memo is None:
        _memo = {}
    key = ("P", name, anchor_name)
    if key in _memo:
        return _memo[key]
    out = set()
    for a in glyphs[name].get("anchors", []):
        if a["name"] == anchor_name:
            out.add((R.fr(a["x"]), R.fr(a["y"])))
    out |= anchor_candidates(glyphs, name, anchor_name, _memo, _stack)
    _memo[key] = out
    return out
