"""Run checks against the seeded breaking changes kept under /verif/seeded/<name>/.

Each seeded change is applied to a scratch COPY of /repo (never to /repo itself), the checks named
on the command line (default: the property the change targets) are run against the copy through
VERIF_REPO with evidence / replay output redirected to the scratch directory, and the copy is
deleted.  `python selftest/seeded_eval.py [name ...] [--checks=C01,C12 | --all-checks] [--thorough]
[--record]` (--record stores the verdicts in seeded/<name>/meta.json)."""
import json
import os
import shutil
import subprocess
import sys
import tempfile
import time

HERE = os.path.dirname(os.path.abspath(__file__))
VERIF = os.path.dirname(HERE)
SEEDED = os.path.join(VERIF, "seeded")


def run(name, checks, tier="quick"):
    d = os.path.join(SEEDED, name)
    meta = json.load(open(os.path.join(d, "meta.json")))
    tmp = tempfile.mkdtemp(prefix="vfseed_")
    out = []
    try:
        repo = os.path.join(tmp, "repo")
        shutil.copytree("/repo", repo, ignore=shutil.ignore_patterns(".git", "__pycache__"))
        p = subprocess.run(["patch", "-p1", "-s", "-i", os.path.join(d, "patch.diff")], cwd=repo,
                           capture_output=True, text=True)
        if p.returncode != 0:
            return [(name, "-", "PATCH-FAILED", p.stdout + p.stderr)]
        for chk in checks or [meta["property"]]:
            env = dict(os.environ, VERIF_REPO=repo, VERIF_EVIDENCE_DIR=os.path.join(tmp, "ev"),
                       VERIF_REPLAY_DIR=os.path.join(tmp, "rp"))
            t0 = time.time()
            r = subprocess.run([os.path.join(VERIF, "check"), chk, "--tier", tier], env=env,
                               capture_output=True, text=True, timeout=3600)
            mech = "; ".join(l.split("mechanism=")[-1] for l in r.stdout.splitlines()
                             if l.startswith("VIOLATION"))[:300]
            verdict = {0: "MISSED", 1: "CAUGHT", 2: "INCONCLUSIVE"}.get(r.returncode, "rc%d" % r.returncode)
            out.append((name, chk, verdict, "%s (%.0fs)" % (mech, time.time() - t0)))
    finally:
        shutil.rmtree(tmp, ignore_errors=True)
    return out


def main():
    args = [a for a in sys.argv[1:] if not a.startswith("--")]
    checks = None
    tier = "quick"
    for a in sys.argv[1:]:
        if a.startswith("--checks="):
            checks = a.split("=", 1)[1].split(",")
        elif a == "--all-checks":
            checks = ["C%02d" % i for i in range(1, 21)]
        elif a == "--thorough":
            tier = "thorough"
    names = args or sorted(n for n in os.listdir(SEEDED) if os.path.isdir(os.path.join(SEEDED, n)))
    record = "--record" in sys.argv
    for n in names:
        rows = run(n, checks, tier)
        for row in rows:
            print("%s %s: %s %s" % row, flush=True)
        if record:
            # results are kept next to the change (meta.json: checks -> {check: verdict ...})
            mp = os.path.join(SEEDED, n, "meta.json")
            meta = json.load(open(mp))
            for _n, chk, verdict, info in rows:
                meta.setdefault("checks", {})[chk] = {
                    "tier": tier, "verdict": verdict,
                    "mechanisms": info.rsplit(" (", 1)[0]}
            json.dump(meta, open(mp, "w"), indent=1)


if __name__ == "__main__":
    main()
