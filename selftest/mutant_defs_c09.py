def define(M):
    P = "Lib/ufo2ft/preProcessor.py"
    M("C09", "nonmatching_components_check_disabled", P,
      "        self.check_for_nonmatching_components(needs_decomposition)\n", "        pass\n")
    M("C09", "per_font_quadratic_conversion", P,
      "            if fonts_to_quadratic(\n                self.glyphSets,\n                max_err=self._conversionErrors,",
      "            if any([fonts_to_quadratic([gs], max_err=[e], reverse_direction=self._reverseDirection, all_quadratic=self.allQuadratic) for gs, e in zip(self.glyphSets, self._conversionErrors)]) and False and fonts_to_quadratic(\n                self.glyphSets,\n                max_err=self._conversionErrors,")
    # (needs_decomposition computed from the first master only, and DecomposeTransformedComponents
    #  requiring ALL masters to be transformed, were tried: under the property's premise - compatible
    #  masters - they cannot change the outcome (the 2x2 mismatch check decomposes those glyphs first))
    M("C09", "sparse_master_gets_all_glyphs", "Lib/ufo2ft/filters/base.py",
      "                if self.hashableLocation(interpolatedLayer.location) in locationsToAdd:",
      "                if True:")
    M("C09", "flatten_only_default_master", "Lib/ufo2ft/filters/flattenComponents.py",
      "            glyph = glyphSet.get(glyphName)\n            if glyph is not None:\n                flattened = _flattenGlyphComponents(",
      "            glyph = glyphSet.get(glyphName)\n            if glyph is not None and glyphSet is defaultGlyphSet:\n                flattened = _flattenGlyphComponents(")
