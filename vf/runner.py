"""Parent process: shards cases over fresh worker interpreters, aggregates their event logs,
classifies violations against the committed known-findings file, writes the evidence file
and decides the exit code.

Exit codes: 0 = everything explored held (listed findings print KNOWN-FINDING lines);
            1 = at least one unlisted violation (VIOLATION property=<id> replay=<path>);
            2 = INCONCLUSIVE: a verdict-bearing monitor observed nothing (broken harness; never
                expected on any tree, never folded into 0).
"""
import argparse
import hashlib
import importlib
import json
import os
import subprocess
import sys
import time

import vf
from vf import VERIF, REPO

KNOWN = os.path.join(VERIF, "known_findings.json")
EVID_DIR = os.environ.get("VERIF_EVIDENCE_DIR", os.path.join(VERIF, "evidence"))
REPLAY_DIR = os.environ.get("VERIF_REPLAY_DIR", os.path.join(VERIF, "replay"))


def case_sig(case):
    return hashlib.sha1(
        json.dumps(case, sort_keys=True, default=str).encode()
    ).hexdigest()


def load_known(prop):
    try:
        data = json.load(open(KNOWN))
    except FileNotFoundError:
        return {}
    out = {}
    for e in data.get("findings", []):
        if e.get("property") == prop:
            out[e["key"]] = e
    return out


def load_prop(prop):
    return importlib.import_module("vf.props." + prop.lower())


def spawn_workers(prop, tier, seed, jobs, n_cases, budget, workdir, extra_env=None):
    """Start `jobs` fresh interpreters; shard i handles idx = i, i+jobs, ...  Returns list of
    per-case records (dicts) plus bookkeeping about crashes / timeouts."""
    env = dict(os.environ)
    if extra_env:
        env.update(extra_env)
    procs = []
    for i in range(jobs):
        out = os.path.join(workdir, f"shard{i}.jsonl")
        if os.path.exists(out):
            os.unlink(out)
        procs.append(_start(prop, tier, seed, i, jobs, n_cases, budget, out, 0, env))
    records, book = [], {"crashed": [], "timed_out_shards": 0, "not_run": 0, "restarts": 0}
    deadline = time.time() + budget + 180
    pending = list(procs)
    while pending:
        nxt = []
        for p in pending:
            rc = p["proc"].poll()
            if rc is None:
                if time.time() > deadline:
                    p["proc"].kill()
                    p["proc"].wait()
                    book["timed_out_shards"] += 1
                else:
                    nxt.append(p)
                continue
            if rc != 0:
                # worker died (native crash / hard error): find the case it was in, resume after it
                started, done = _scan(p["out"])
                crashed = [s for s in started if s not in done]
                err = ""
                try:
                    err = open(p["out"] + ".err").read()[-2000:]
                except OSError:
                    pass
                for c in crashed:
                    book["crashed"].append({"idx": c, "rc": rc, "stderr": err})
                if p["restarts"] < 5 and time.time() < deadline:
                    resume = (max(started) + 1) if started else None
                    if resume is not None:
                        book["restarts"] += 1
                        q = _start(prop, tier, seed, p["shard"], jobs, n_cases, budget,
                                   p["out"], resume, env, restarts=p["restarts"] + 1)
                        nxt.append(q)
                    elif not started:
                        book["crashed"].append({"idx": None, "rc": rc, "stderr": err})
        pending = nxt
        if pending:
            time.sleep(0.2)
    for i in range(jobs):
        out = os.path.join(workdir, f"shard{i}.jsonl")
        if not os.path.exists(out):
            continue
        for line in open(out):
            try:
                r = json.loads(line)
            except ValueError:
                continue
            if r.get("ev") == "case":
                records.append(r)
            elif r.get("ev") == "not_run":
                book["not_run"] += r["n"]
    return records, book


def _start(prop, tier, seed, shard, jobs, n_cases, budget, out, resume, env, restarts=0):
    cmd = [sys.executable, "-m", "vf.worker", prop, tier, str(seed), str(shard), str(jobs),
           str(n_cases), str(budget), out, str(resume)]
    errf = open(out + ".err", "ab")
    proc = subprocess.Popen(cmd, cwd=VERIF, env=env, stdout=subprocess.DEVNULL, stderr=errf)
    return {"proc": proc, "shard": shard, "out": out, "restarts": restarts}


def _scan(path):
    started, done = [], set()
    try:
        for line in open(path):
            try:
                r = json.loads(line)
            except ValueError:
                continue
            if r.get("ev") == "start":
                started.append(r["idx"])
            elif r.get("ev") == "case":
                done.add(r["idx"])
    except OSError:
        pass
    return started, done


def validate_evidence(ev):
    try:
        import jsonschema
        schema = json.load(open("/root/.vp/EVIDENCE.schema.json"))
        jsonschema.validate(ev, schema)
        return None
    except FileNotFoundError:
        return None
    except Exception as e:  # noqa: BLE001
        return str(e)[:500]


def main(argv=None):
    ap = argparse.ArgumentParser()
    ap.add_argument("prop")
    ap.add_argument("--tier", default=os.environ.get("VERIF_TIER", "quick"),
                    choices=["quick", "thorough"])
    ap.add_argument("--replay")
    ap.add_argument("--jobs", type=int, default=int(os.environ.get("VERIF_JOBS", "16")))
    ap.add_argument("--cases", type=int, default=None, help="override case count")
    args = ap.parse_args(argv)
    prop = args.prop.upper()
    seed = int(os.environ.get("VERIF_SEED", "0"))
    mod = load_prop(prop)

    if args.replay:
        return replay(mod, prop, args.replay)

    t0 = time.time()
    tier = args.tier
    workdir = os.path.join(VERIF, ".work", f"{prop}-{tier}-{os.getpid()}")
    os.makedirs(workdir, exist_ok=True)
    # every temporary file of the run (ufo2ft itself leaves a copy of the feature text behind
    # whenever feature compilation fails) goes below the work directory, removed at the end
    tmpd = os.path.join(workdir, "tmp")
    os.makedirs(tmpd, exist_ok=True)
    os.environ["TMPDIR"] = tmpd
    import tempfile
    tempfile.tempdir = tmpd
    n_cases = args.cases if args.cases is not None else mod.n_cases(tier)
    budget = mod.budget_s(tier)
    jobs = max(1, min(args.jobs, n_cases)) if n_cases else 0

    records, book = ([], {"crashed": [], "timed_out_shards": 0, "not_run": 0, "restarts": 0})
    if n_cases:
        records, book = spawn_workers(prop, tier, seed, jobs, n_cases, budget, workdir)
    extra_info = {}
    if hasattr(mod, "extra"):
        ctx = {"tier": tier, "seed": seed, "jobs": args.jobs, "workdir": workdir}
        xr, extra_info = mod.extra(ctx)
        records.extend(xr)

    # ---------------- aggregate ----------------
    known = load_known(prop)
    counters = {}
    status = {}
    nontrivial_sigs = set()
    sigs = set()
    samples = []
    unlisted, listed_hits = [], {}
    harness_errors = []
    secs = 0.0
    for r in records:
        status[r["status"]] = status.get(r["status"], 0) + 1
        secs += r.get("secs", 0)
        for k, v in (r.get("counters") or {}).items():
            counters[k] = counters.get(k, 0) + v
        sigs.add(r["sig"])
        if r.get("nontrivial"):
            nontrivial_sigs.add(r["sig"])
            if len(samples) < 3 and r.get("sample") is not None:
                samples.append(r["sample"])
        if r["status"] == "harness_error":
            harness_errors.append({"idx": r["idx"], "note": r.get("note", "")[-1500:]})
        for v in r.get("violations") or []:
            key = v.get("known_key")
            ent = known.get(key) if key else None
            if ent is not None and ent.get("status") == "finding":
                h = listed_hits.setdefault(key, {"count": 0, "example": None})
                h["count"] += 1
                if h["example"] is None:
                    h["example"] = {"idx": r["idx"], "detail": v.get("detail")}
            else:
                unlisted.append((r, v))
    if not samples:
        for r in records:
            if r.get("sample") is not None:
                samples.append(r["sample"])
                if len(samples) >= 2:
                    break

    # replay files for unlisted violations (one per mechanism, at most 8)
    replay_paths = []
    seen_mech = {}
    for r, v in unlisted:
        m = v.get("mech", "violation")
        seen_mech[m] = seen_mech.get(m, 0) + 1
        if seen_mech[m] > 1 or len(replay_paths) >= 8:
            continue
        os.makedirs(REPLAY_DIR, exist_ok=True)
        path = os.path.join(REPLAY_DIR, f"{prop}-{m}-{r['sig'][:10]}.json")
        json.dump({"property": prop, "tier": tier, "seed": seed, "idx": r["idx"],
                   "case": r.get("case"), "violation": v,
                   "all_violations": r.get("violations")},
                  open(path, "w"), indent=1, default=str)
        replay_paths.append((m, path))

    nonvac = list(getattr(mod, "NONVACUITY", []))
    if callable(getattr(mod, "nonvacuity", None)):
        nonvac = mod.nonvacuity(tier)
    missing = [c for c in nonvac if counters.get(c, 0) <= 0]
    n_eval = len(records)
    too_many_errors = (len(harness_errors) + len(book["crashed"])) > max(3, 0.03 * max(1, n_eval))
    missing_findings = [k for k, e in known.items()
                        if e.get("status") == "finding" and k not in listed_hits
                        and tier in e.get("tiers", ["quick", "thorough"])]

    wall = time.time() - t0
    ev = {
        "property_id": prop,
        "tier": tier,
        "seed": seed,
        "level": getattr(mod, "LEVEL", "exploration"),
        "coverage": {
            "evaluations": n_eval,
            "distinct_nontrivial": len(nontrivial_sigs),
            "distinct": len(sigs),
            "rule": mod.RULE,
            "samples": samples,
            "status_counts": status,
            "monitor_counters": dict(sorted(counters.items())),
            "nonvacuity_required": nonvac,
            "nonvacuity_missing": missing,
            "known_finding_hits": {k: v["count"] for k, v in listed_hits.items()},
            "known_findings_not_hit": missing_findings,
            "unlisted_violation_mechanisms": seen_mech,
            "harness_errors": harness_errors[:5],
            "n_harness_errors": len(harness_errors),
            "worker_crashes": book["crashed"][:5],
            "n_worker_crashes": len(book["crashed"]),
            "cases_not_run_budget": book["not_run"],
            "timed_out_shards": book["timed_out_shards"],
            "cpu_s_in_cases": round(secs, 1),
            "ufo2ft_file": _ufo2ft_file(),
            "repo": REPO,
            **extra_info,
        },
        "assumptions": list(getattr(mod, "ASSUMPTIONS", [])),
        "wall_s": round(wall, 2),
        "violations": len(unlisted),
    }
    if getattr(mod, "EXHAUSTIVE_NOTE", None):
        ev["coverage"]["exhaustive_subspace"] = mod.EXHAUSTIVE_NOTE
    err = validate_evidence(ev)
    if err:
        ev["coverage"]["schema_error"] = err
    os.makedirs(EVID_DIR, exist_ok=True)
    json.dump(ev, open(os.path.join(EVID_DIR, f"{prop}.json"), "w"), indent=1,
              default=str)

    # ---------------- report ----------------
    print(f"{prop} tier={tier} seed={seed} cases={n_eval} distinct_nontrivial={len(nontrivial_sigs)} "
          f"status={status} wall={wall:.1f}s")
    keys = sorted(counters)
    print("monitors: " + ", ".join(f"{k}={counters[k]}" for k in keys))
    for k, h in sorted(listed_hits.items()):
        print(f"KNOWN-FINDING: property={prop} {k}: {known[k].get('what', '')} (hits={h['count']})")
    for k in missing_findings:
        print(f"warning: listed finding {k} was not reproduced by this run")
    if book["not_run"]:
        print(f"note: {book['not_run']} cases not run (per-shard wall budget reached)")
    if harness_errors:
        print(f"note: {len(harness_errors)} harness errors (inconclusive cases), first: "
              f"{harness_errors[0]['note'][-400:]}")
    if book["crashed"]:
        print(f"note: {len(book['crashed'])} worker crashes (inconclusive cases)")
    _cleanup(workdir)
    if unlisted:
        for m, path in replay_paths:
            print(f"VIOLATION property={prop} replay={path} mechanism={m} count={seen_mech[m]}")
        return 1
    if n_eval == 0 or missing or too_many_errors:
        print(f"INCONCLUSIVE property={prop} evaluations={n_eval} missing_counters={missing} "
              f"harness_errors={len(harness_errors)} crashes={len(book['crashed'])}")
        return 2
    print(f"HELD property={prop} on everything explored")
    return 0


def _ufo2ft_file():
    try:
        import ufo2ft
        return ufo2ft.__file__
    except Exception as e:  # noqa: BLE001
        return "import failed: %r" % (e,)


def _cleanup(workdir):
    import shutil
    shutil.rmtree(workdir, ignore_errors=True)


def replay(mod, prop, path):
    data = json.load(open(path))
    case = data["case"]
    from vf.worker import run_one
    rec = run_one(mod, case, data.get("idx", -1))
    known = load_known(prop)
    bad = 0
    for v in rec.get("violations") or []:
        ent = known.get(v.get("known_key"))
        if ent is not None and ent.get("status") == "finding":
            print(f"KNOWN-FINDING: property={prop} {v.get('known_key')}")
            continue
        bad += 1
        print(json.dumps(v, indent=1, default=str)[:6000])
    print(f"replay status={rec['status']} counters={rec.get('counters')}")
    if bad:
        print(f"VIOLATION property={prop} replay={path}")
        return 1
    return 0


if __name__ == "__main__":
    sys.exit(main())
