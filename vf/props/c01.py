"""C01 - CFF outlines and advances equal the source with components resolved.

Run: generated UFOs (component DAGs, hostile coordinates) x {defcon, ufoLib2} x roundTolerance
x cffVersion x optimizeCFF -> compileOTF -> save -> reload.
Observe: the reloaded glyph drawing (RecordingPen), hmtx, charstring width.
Oracle: exact-rational resolver (composed matrices, reversal by composed determinant) + otround,
compared in the normal form of DESIGN 4.1 / 4.2.
"""
import io
import traceback

import vf  # noqa: F401
from vf.build import build_ufo
from vf.gen import outlines
from vf.ref import render as R

ID = "C01"
RULE = ("case = seeded random UFO (3-14 glyphs, component DAG depth<=5, line/cubic/quadratic "
        "contours, integer/half/dyadic/float/negative/large coordinates, dyadic+mirrored+rotated "
        "transforms) x UFO library x roundTolerance x cffVersion x optimizeCFF (10 %: with a skipExportGlyphs list of glyphs used as components; contour multisets compared there); distinct = sha1 of "
        "the case description; non-trivial = the font compiled and at least one glyph with a "
        "component or a fractional coordinate was compared against the exact-rational resolver")
ASSUMPTIONS = [
    "fontTools' CFF reader (TTFont load, getGlyphSet().draw) is trusted to report what is stored",
    "coordinates bounded to |v| <= 16000; <= 14 glyphs; nesting depth <= 5",
    "normal form of DESIGN 4.1: draws-nothing operations removed, contours compared as "
    "direction-sensitive cycles; at optimizeCFF>=1 collinear points on axis-parallel lines may merge",
    "inexact float arithmetic within 2^-20 of a rounding boundary accepts both neighbours; exact "
    "halves are strict",
]
NONVACUITY = ["glyphs_checked", "neg_det_leaves", "depth3_glyphs", "half_ties_pos",
              "half_ties_neg", "quad_sources", "tolerance_mode_glyphs", "rejected_negative_width"]


def n_cases(tier):
    return 1600 if tier == "quick" else 40000


def budget_s(tier):
    return 150 if tier == "quick" else 1500


def gen(rng, idx, tier):
    stratum = "default"
    r = rng.random()
    if r < 0.03:
        stratum = "negative_width"
    elif r < 0.05:
        stratum = "cycle"
    mode = rng.choice(["mixed", "mixed", "dyadic", "int"])
    glyphs = bounded_font(rng, mode)
    if r >= 0.05 and r < 0.06:
        stratum = "all_empty"
        for g in glyphs:
            g["contours"] = []
    if stratum == "negative_width":
        g = rng.choice(glyphs)
        g["width"] = -rng.choice([1, 0.5, 0.6, 250, 3.2])
    elif stratum == "cycle" and len(glyphs) >= 2:
        a, b = rng.sample(range(len(glyphs)), 2)
        glyphs[a]["components"].append({"base": glyphs[b]["name"], "t": [1, 0, 0, 1, 0, 0]})
        glyphs[b]["components"].append({"base": glyphs[a]["name"], "t": [1, 0, 0, 1, 10, 0]})
    skip = []
    tol_choice = rng.choice([None, None, None, 0.5, 0, 0.25])
    if stratum == "default" and rng.random() < 0.1:
        # non-exported glyphs: references to them are resolved into the exported glyph early
        # (same reversal rule for mirrored references); contour ORDER may then differ from the
        # source order (C13), so this stratum compares contour multisets
        used = sorted({c["base"] for g in glyphs for c in g["components"]} - {".notdef"})
        if used:
            skip = rng.sample(used, min(len(used), rng.choice([1, 1, 2])))
            tol_choice = rng.choice([None, 0.5])
    info = {"unitsPerEm": 1000, "familyName": "T", "styleName": "R"}
    if rng.random() < 0.2:
        # explicit CFF width bases ("integer or float" in the UFO spec): a glyph's advance must
        # not depend on them - equal to a glyph width, fractional, zero
        ws = [g["width"] for g in glyphs] or [500]
        info["postscriptDefaultWidthX"] = rng.choice([rng.choice(ws), 500.5, 400, 0, 600.25, -10])
        info["postscriptNominalWidthX"] = rng.choice([rng.choice(ws), 92.5, 93, 0, 250.75, -40, -250.5])
    ufo_lib = {}
    if stratum == "default" and rng.random() < 0.15:
        # lib filters that must not change what is drawn (glyphsLib writes the first one):
        # decomposing / flattening early keeps every contour where full decomposition puts it
        gnames = [g["name"] for g in glyphs if g["name"] != ".notdef"]
        ufo_lib["com.github.googlei18n.ufo2ft.filters"] = [rng.choice([
            {"name": "decomposeTransformedComponents", "pre": True},
            {"name": "decomposeTransformedComponents", "pre": True},
            {"name": "flattenComponents", "pre": True},
            {"name": "decomposeTransformedComponents"},
            # the default decomposition, asked for a SUBSET of the glyphs only: the others
            # are decomposed (with mirrored parts reversed) all the same
            {"name": "decomposeComponents", "pre": True,
             "include": rng.sample(gnames, rng.randint(1, max(1, len(gnames) // 2)))},
            {"name": "decomposeComponents", "pre": True,
             "exclude": rng.sample(gnames, rng.randint(1, max(1, len(gnames) // 2)))}])]
    return {
        "stratum": stratum,
        "skip": skip,
        "ufo": {"glyphs": glyphs, "info": info, "lib": ufo_lib},
        # defcon's own change notifications recurse for ever on a cyclic component graph while the
        # font is being BUILT (before ufo2ft sees it), so cycles are only built with ufoLib2
        "lib": "ufoLib2" if stratum == "cycle" else rng.choice(["defcon", "ufoLib2"]),
        "roundTolerance": tol_choice,
        "cffVersion": rng.choice([1, 1, 2]),
        "optimizeCFF": rng.choice([0, 1, 2, 2]),
    }


def max_abs_coord(glyphs_list):
    glyphs = {g["name"]: g for g in glyphs_list}
    m = 0
    for n in glyphs:
        for pts, _ in R.resolve(glyphs, n):
            for p in pts:
                m = max(m, abs(p[0]), abs(p[1]))
    return m


MAX_RESOLVED_POINTS = 150


def prune_size(glyphs_list, limit=MAX_RESOLVED_POINTS):
    """Keep the fully resolved size of every glyph bounded (nested shared bases grow
    exponentially; a subroutiniser then needs minutes per font): drop trailing components of a
    glyph until its resolved outline has at most `limit` points."""
    glyphs = {g["name"]: g for g in glyphs_list}
    for g in glyphs_list:         # bases come before the glyphs that use them
        while g["components"]:
            n = sum(len(pts) for pts, _ in R.resolve(glyphs, g["name"]))
            if n <= limit:
                break
            g["components"].pop()


def bounded_font(rng, mode, **kw):
    """Component font whose RESOLVED coordinates stay within the stated bound (|v| <= 16000, so
    that CFF deltas and glyf int16 stay encodable), whose resolved glyphs have at most
    MAX_RESOLVED_POINTS points, and that has at least one outline."""
    big = rng.random() < 0.15
    for _ in range(8):
        glyphs = outlines.component_font(rng, mode=mode, big=big, **kw)
        prune_size(glyphs)
        if max_abs_coord(glyphs) <= 16000 and any(g["contours"] for g in glyphs):
            return glyphs
        big = False
    for g in glyphs:
        g["components"] = []
    if not any(g["contours"] for g in glyphs):
        glyphs[0]["contours"] = [[[0, 0, "line"], [100, 0, "line"], [50, 100, "line"]]]
    return glyphs


def sample_view(case):
    g = case["ufo"]["glyphs"]
    return {"lib": case["lib"], "roundTolerance": case["roundTolerance"],
            "cffVersion": case["cffVersion"], "optimizeCFF": case["optimizeCFF"],
            "n_glyphs": len(g), "first_glyphs": g[:2]}


def depth_of(glyphs, name, seen=()):
    g = glyphs[name]
    d = 0
    for c in g.get("components", []):
        if c["base"] in glyphs and c["base"] not in seen:
            d = max(d, 1 + depth_of(glyphs, c["base"], seen + (name,)))
    return d


def has_cycle(glyphs):
    for n in glyphs:
        try:
            R.resolve(glyphs, n)
        except ValueError:
            return True
    return False


def compare_glyph(ref_exact, out_cycles, tol, optimize, npoints):
    """Returns (ok, how, detail)."""
    if tol is None or tol >= 0.5:
        rounded = [R.round_cycle(s, segs) for s, segs in ref_exact]
        a = R.canon_drawing(rounded)
        b = R.canon_drawing(out_cycles)
        if a == b:
            return True, "strict", None
        if optimize >= 1:
            am = R.canon_drawing(rounded, merge=True)
            bm = R.canon_drawing(out_cycles, merge=True)
            if am == bm:
                return True, "axis_merge", None
        nt = R.tie_coords(ref_exact)
        if nt:
            # inexact arithmetic next to a rounding boundary: accept either neighbour (tolerant)
            ok = _tolerant_int_match(ref_exact, out_cycles, optimize)
            if ok:
                return True, "tie_band", None
        return False, "mismatch", {"expected": _show(a), "got": _show(b)}
    # tolerance modes: every coordinate may move by at most tol (+ number-format slack: 16.16
    # fixed deltas accumulate over the glyph; the default subroutiniser (cffsubr/tx) re-encodes
    # reals with 2 decimals)
    unit = 0.005 if optimize >= 2 else 2.0 ** -16
    dev = tol + (npoints + 1) * unit + 1e-6
    ref = got = None
    drift = (npoints + 1) * unit
    def model(v):
        # what the charstring pen stores: the nearest integer when it is within tol, else v
        r = R.otround(v)
        return r if abs(v - r) <= tol else v
    ref_model = [((model(s[0]), model(s[1])),
                  [(sg[0],) + tuple((model(p[0]), model(p[1])) for p in sg[1:]) for sg in segs])
                 for s, segs in ref_exact]
    # the specialiser merges runs of horizontal / vertical lines: such runs exist only after the
    # tolerance rounding has aligned the points, so the merged comparison is also tried on the
    # modelled stored values (every stored point must still lie within dev of its source point)
    variants = [(False, ref_exact)] + ([(True, ref_exact), (True, ref_model)] if optimize >= 1 else [])
    for merge, ref_src in variants:
        # the re-encoded contour may fail to return exactly to its start (accumulated format
        # error): a closing sliver shorter than the drift is the implicit closing line
        for close_slack in (drift, 2 * drift, drift / 2):
            ref = _prep_tol(ref_src, merge, 4 * unit, close_slack)
            got = _prep_tol(out_cycles, merge, 4 * unit, close_slack)
            if len(ref) != len(got):
                continue
            ok = True
            for rc, gc in zip(ref, got):
                if R.match_cycle_tol(rc, gc, dev) is None:
                    ok = False
                    break
            if ok:
                return True, "tolerance" + ("_merge" if merge else ""), None
    # the decision to merge is taken per contour by the optimiser (a run of points is "aligned"
    # or not within the number format's precision): when every variant keeps the same number
    # of contours, each contour may match under its own variant
    if optimize >= 1:
        for close_slack in (drift, 2 * drift, drift / 2):
            rlists = [_prep_tol(src, m, 4 * unit, close_slack)
                      for m, src in ((False, ref_exact), (True, ref_exact), (True, ref_model))]
            glists = [_prep_tol(out_cycles, m, 4 * unit, close_slack) for m in (False, True)]
            n = len(rlists[0])
            if any(len(x) != n for x in rlists + glists):
                continue
            if all(any(R.match_cycle_tol(rl[i], gl[i], dev) is not None
                       for rl in rlists for gl in glists) for i in range(n)):
                return True, "tolerance_per_contour", None
    return False, "mismatch_tol", {"expected": _show([R.canon_cycle(c) for c in ref]),
                                   "got": _show([R.canon_cycle(c) for c in got]),
                                   "allowed_deviation": dev}


def _prep_tol(cycles, merge, tiny, close_slack=0.0):
    """Clean cycles for the tolerance comparison: exact draws-nothing operations removed, then
    segments all of whose points lie within `tiny` (a few units of the number format's
    precision, NOT scaled by the glyph size) of the segment's start removed on both sides: a
    zero-length source segment survives re-encoding as such a sliver."""
    out = []
    for s, segs in cycles:
        c = R.clean_cycle(s, segs)
        if merge:
            c = R.merge_axis_cyclic(c, eps=tiny)
        if not c:
            continue
        kept = []
        n = len(c)
        for i in range(n):
            a = c[i - 1][-1]
            if all(abs(float(p[0]) - float(a[0])) <= tiny and abs(float(p[1]) - float(a[1])) <= tiny
                   for p in c[i][1:]):
                continue
            kept.append(c[i])
        if len(kept) > 1 and kept[-1][0] == "l":
            a, b = kept[-2][-1], kept[-1][1]
            if (0 < max(abs(float(a[0]) - float(b[0])), abs(float(a[1]) - float(b[1])))
                    <= close_slack):
                kept.pop()
        if kept:
            out.append(kept)
    return out


def _choice_match(ref_exact, out_cycles):
    """Tie-band match without enumeration: contour i of the output must be a rotation of contour
    i of the reference (cleaned under the nominal rounding) with every coordinate among the
    admissible roundings of the exact value.  Handles any number of near-tie coordinates (e.g.
    two 45-degree references that compose to a quarter turn of half-integer offsets); does not
    cover outputs in which the optimiser merged or dropped something."""
    if len(ref_exact) != len(out_cycles):
        return False
    for (rs, rsegs), (gs, gsegs) in zip(ref_exact, out_cycles):
        # nominal rounding decides which operations draw nothing
        nom = R.round_cycle(rs, rsegs)
        keep = []
        cur = nom[0]
        for sg_n, sg_e in zip(nom[1], rsegs):
            if all(p == cur for p in sg_n[1:]):
                continue
            keep.append(sg_e)
            cur = sg_n[-1]
        closing = [("l", rs)] if keep and cur != nom[0] else []
        ref_seq = keep + closing
        got_seq = R.clean_cycle(gs, gsegs)
        n = len(ref_seq)
        if n != len(got_seq):
            return False
        if n == 0:
            continue
        ok = False
        for k in range(n):
            good = True
            for i in range(n):
                a, b = ref_seq[i], got_seq[(i + k) % n]
                if a[0] != b[0] or len(a) != len(b):
                    good = False
                    break
                for p, q in zip(a[1:], b[1:]):
                    if q[0] not in R.round_choices(p[0]) or q[1] not in R.round_choices(p[1]):
                        good = False
                        break
                if not good:
                    break
            if good:
                ok = True
                break
        if not ok:
            return False
    return True


def _tolerant_int_match(ref_exact, out_cycles, optimize):
    if _choice_match(ref_exact, out_cycles):
        return True
    return _tolerant_int_match_enum(ref_exact, out_cycles, optimize)


def _tolerant_int_match_enum(ref_exact, out_cycles, optimize):
    """Accept either neighbour for every coordinate inside the tie band.  The alternatives are
    enumerated per contour (ties of different contours are independent: <= 2^10 per contour),
    then the contour sequences are aligned in order; a contour whose rounding draws nothing may be
    absent."""
    import itertools
    per_contour = []
    for start, segs in ref_exact:
        pts = [start] + [q for s in segs for q in s[1:]]
        slots = []
        for pi, p in enumerate(pts):
            for ax in (0, 1):
                ch = R.round_choices(p[ax])
                if len(ch) > 1:
                    slots.append((pi, ax, ch))
        if len(slots) > 10:
            return False
        alts = []
        for combo in itertools.product(*[s[2] for s in slots]):
            override = {(s[0], s[1]): v for s, v in zip(slots, combo)}
            pi = [0]

            def rp(p, pi=pi, override=override):
                x = override.get((pi[0], 0), R.otround(p[0]))
                y = override.get((pi[0], 1), R.otround(p[1]))
                pi[0] += 1
                return (x, y)
            rs = rp(start)
            alts.append((rs, [(s[0],) + tuple(rp(p) for p in s[1:]) for s in segs]))
        per_contour.append(alts)
    for merge in ([False, True] if optimize >= 1 else [False]):
        got = R.canon_drawing(out_cycles, merge)
        forms = []
        for alts in per_contour:
            f = set()
            for alt in alts:
                cd = R.canon_drawing([alt], merge)
                f.add(cd[0] if cd else None)
            forms.append(f)
        # ordered alignment: reach[j] = the first i contours can produce the first j cycles
        reach = {0}
        for f in forms:
            nxt = set()
            for j in reach:
                if None in f:
                    nxt.add(j)
                if j < len(got) and got[j] in f:
                    nxt.add(j + 1)
            reach = nxt
            if not reach:
                break
        if len(got) in reach:
            return True
    return False


def _show(canon):
    return [[[str(x) if not isinstance(x, (str, int, float)) else x for x in _flat(item)]
             for item in c] for c in canon][:6]


def _flat(item):
    out = []
    for part in item:
        if isinstance(part, str):
            out.append(part)
        else:
            out.extend([float(part[0]), float(part[1])])
    return out


def run(case):
    import ufo2ft
    from fontTools.pens.recordingPen import RecordingPen
    from fontTools.ttLib import TTFont
    from ufo2ft.errors import InvalidFontData

    spec = case["ufo"]
    glyphs = {g["name"]: g for g in spec["glyphs"]}
    counters = {}

    def bump(k, n=1):
        counters[k] = counters.get(k, 0) + n

    font = build_ufo(spec, case["lib"])
    neg = [g["name"] for g in spec["glyphs"] if R.otround(g["width"]) < 0]
    cyc = has_cycle(glyphs)
    kwargs = dict(useProductionNames=False, cffVersion=case["cffVersion"],
                  optimizeCFF=case["optimizeCFF"])
    if case["roundTolerance"] is not None:
        kwargs["roundTolerance"] = case["roundTolerance"]
    skip = set(case.get("skip") or [])
    if skip:
        kwargs["skipExportGlyphs"] = sorted(skip)
        bump("skip_export_cases")
    try:
        otf = ufo2ft.compileOTF(font, **kwargs)
        buf = io.BytesIO()
        otf.save(buf)
    except ValueError as e:
        if neg and "width should not be negative" in str(e):
            bump("rejected_negative_width")
            return {"status": "rejected_ok", "counters": counters}
        if cyc and isinstance(e, InvalidFontData):
            bump("rejected_cycle")
            return {"status": "rejected_ok", "counters": counters}
        return {"status": "violated", "counters": counters, "violations": [
            {"mech": "unexpected_exception", "detail": {"trace": traceback.format_exc()[-3000:]}}]}
    except RecursionError:
        if cyc:
            bump("rejected_cycle_recursion")
            return {"status": "rejected_ok", "counters": counters}
        raise
    except Exception:  # noqa: BLE001
        if cyc:
            bump("rejected_cycle_other")
            return {"status": "rejected_ok", "counters": counters}
        return {"status": "violated", "counters": counters, "violations": [
            {"mech": "unexpected_exception", "detail": {"trace": traceback.format_exc()[-3000:]}}]}
    if neg:
        return {"status": "violated", "counters": counters, "violations": [
            {"mech": "negative_width_accepted", "detail": {"glyphs": neg}}]}
    if cyc:
        return {"status": "violated", "counters": counters, "violations": [
            {"mech": "cycle_accepted", "detail": {}}]}
    buf.seek(0)
    tt = TTFont(buf)
    gs = tt.getGlyphSet()
    hmtx = tt["hmtx"]
    tol = case["roundTolerance"]
    violations = []
    nontrivial = False
    cff1 = tt["CFF "].cff.topDictIndex[0].CharStrings if "CFF " in tt else None
    if ("CFF2" in tt) != (case["cffVersion"] == 2):
        violations.append({"mech": "wrong_cff_version", "detail": {"tables": sorted(tt.keys())}})
    for name, g in glyphs.items():
        if name in skip:
            if name in gs:
                violations.append({"mech": "skipped_glyph_exported", "detail": {"glyph": name}})
            continue
        if name not in gs:
            violations.append({"mech": "glyph_missing", "detail": {"glyph": name}})
            continue
        resolved = R.resolve(glyphs, name)
        ref = R.ref_cycles(resolved)
        rec = RecordingPen()
        gs[name].draw(rec)
        try:
            out = R.recording_to_cycles(rec.value)
        except ValueError as e:
            violations.append({"mech": "unexpected_drawing_op", "detail": {"glyph": name,
                                                                          "err": str(e)}})
            continue
        npoints = sum(1 + sum(len(s) - 1 for s in segs) for _, segs in ref)
        if skip:
            # multiset comparison: both sides in a canonical contour order
            if {c["base"] for c in g.get("components", [])} & skip or any(
                    True for _ in ()):
                bump("skip_glyphs_referencing_skipped")
            def key(c):
                # canonical form after the optimiser's merging of axis-parallel runs (idempotent,
                # so both sides get the same key whenever they draw the same contour)
                cl = R.clean_cycle(*c)
                m = R.merge_axis_cyclic(cl)
                # (zero-area contours collapse to nothing when merged: the unmerged canonical
                # form breaks the tie between several of them)
                return (R._flat(R.canon_cycle(m)) if m else [],
                        R._flat(R.canon_cycle(cl)) if cl else [])
            ref = sorted(ref, key=lambda c: key(R.round_cycle(*c)))
            out = sorted(out, key=key)
            # a coordinate on a rounding boundary may differ by one between the two sides and
            # change the sort key: re-align `out` to `ref` by nearest contour of equal structure

            def nums(c):
                k = key(c)
                return k[0] or k[1]
            rk = [nums(R.round_cycle(*c)) for c in ref]
            ok_ = [nums(c) for c in out]
            if len(rk) == len(ok_):
                used, order = set(), []
                for a in rk:
                    best, bj = None, None
                    for j, b in enumerate(ok_):
                        if j in used or len(a) != len(b):
                            continue
                        if any((x[0] != y[0]) for x, y in zip(a, b)) or any(
                                x[0] == 0 and x[1] != y[1] for x, y in zip(a, b)):
                            continue
                        dev = max((max(abs(x[1][0] - y[1][0]), abs(x[1][1] - y[1][1]))
                                   for x, y in zip(a, b) if x[0] == 1), default=0)
                        if best is None or dev < best:
                            best, bj = dev, j
                    if bj is None:
                        order = None
                        break
                    used.add(bj)
                    order.append(bj)
                if order is not None:
                    out = [out[j] for j in order]
        ok, how, detail = compare_glyph(ref, out, tol, case["optimizeCFF"], npoints)
        bump("glyphs_checked")
        bump("how_" + how)
        if tol is not None and tol < 0.5:
            bump("tolerance_mode_glyphs")
        # non-vacuity bookkeeping
        if any(flip for _, flip in resolved):
            bump("neg_det_leaves")
        if depth_of(glyphs, name) >= 3:
            bump("depth3_glyphs")
        if g.get("components"):
            nontrivial = True
        for start, segs in ref:
            for p in [start] + [q for s in segs for q in s[1:]]:
                for v in p:
                    if v.denominator == 2:
                        bump("half_ties_pos" if v > 0 else "half_ties_neg")
                    if v.denominator != 1:
                        nontrivial = True
        if any(p[2] == "qcurve" or (p[2] is None) for c in g.get("contours", []) for p in c):
            if any(p[2] == "qcurve" for c in g.get("contours", []) for p in c) or any(
                    all(p[2] is None for p in c) for c in g.get("contours", [])):
                bump("quad_sources")
        if not ok:
            violations.append({"mech": "outline_" + how, "detail": dict(detail or {}, glyph=name)})
        # advance
        exp_adv = R.otround(g["width"])
        adv = hmtx[name][0]
        if adv != exp_adv:
            violations.append({"mech": "advance", "detail": {"glyph": name, "width": g["width"],
                                                             "expected": exp_adv, "got": adv}})
        if cff1 is not None:
            cs = cff1[name]
            cs.draw(RecordingPen())
            if cs.width != adv:
                violations.append({"mech": "charstring_width", "detail": {
                    "glyph": name, "hmtx": adv, "charstring": cs.width}})
            bump("cff1_width_checked")
            if "postscriptNominalWidthX" in spec["info"]:
                bump("cff1_width_checked_with_explicit_width_bases")
    if (spec.get("lib") or {}).get("com.github.googlei18n.ufo2ft.filters"):
        bump("fonts_with_lib_filters")
    order = tt.getGlyphOrder()
    extra = [n for n in order if n not in glyphs and n != ".notdef"]
    if extra:
        violations.append({"mech": "extra_glyphs", "detail": {"glyphs": extra}})
    return {"status": "violated" if violations else "held", "violations": violations,
            "counters": counters, "nontrivial": nontrivial}


def no_glyph_draws_anything(glyphs, round_tolerance=None):
    """Every contour of every glyph collapses to one point in the charstring: its points all
    coincide (as written: rounded to integers unless a rounding tolerance below 1/2 keeps the
    fractions)."""
    def key(p):
        if round_tolerance is not None and round_tolerance < 0.5:
            return (float(p[0]), float(p[1]))
        return (R.otround(R.fr(p[0])), R.otround(R.fr(p[1])))
    return all(len({key(p) for p in c}) <= 1 for g in glyphs for c in g["contours"])


def classify(v, case):
    tr = v["detail"].get("trace", "") if v["mech"] == "unexpected_exception" else ""
    if ("AttributeError" in tr and "charset" in tr and case["cffVersion"] == 1
            and case["optimizeCFF"] >= 2):
        # the exported glyph order is a prefix of the predefined ISOAdobe charset (e.g. only
        # '.notdef' is left once the non-exported glyphs are gone): C04's listed finding
        from vf.props.c04 import ISO_PREFIX
        skip = set(case.get("skip") or [])
        names = [g["name"] for g in case["ufo"]["glyphs"] if g["name"] not in skip]
        if ".notdef" not in names:
            names = [".notdef"] + names
        if sorted(names) == sorted(ISO_PREFIX[:len(names)]):
            return "cffsubr_predefined_charset_unsavable"
    if v["mech"] == "unexpected_exception" and "tx:" in v["detail"].get("trace", ""):
        if (case["cffVersion"] == 2 and case["optimizeCFF"] >= 2
                and no_glyph_draws_anything(case["ufo"]["glyphs"], case.get("roundTolerance"))):
            # no glyph of the font has a path: no contours at all, or only contours whose
            # points all coincide (single points, zero-length lines), which tx discards
            # ("moveto preceeds closepath")
            return "cffsubr_cff2_all_glyphs_empty"
    return None
