"""C10 - A variable font reproduces each master at that master's location.

Run: generated compatible families with per-master kerning and anchors (1-2 axes, intermediate and
sparse masters, axis maps) -> compileVariableTTF / compileVariableCFF2 x variableFeatures on/off.
Observe: fontTools' instancer (trusted reader) at every full master's location -> outlines, hmtx,
GPOS evaluated by R-gpos; the interpolatable master compiled by the C09 path; the master's data.
Oracle: outlines / advances within one unit of the interpolatable master; kerning = the master's
UFO kerning lookup (rounded); mark attachment one of the master's anchor-difference candidates.
"""
import io
import traceback

import vf  # noqa: F401
from vf.build import build_ufo, build_designspace
from vf.gen import masters
from vf.props.c05 import RKern, quantize
from vf.props.c06 import parse_anchor, q_anchor
from vf.ref import render as R
from vf.ref import varmodel as V
from vf.ref.gpos import Gpos

ID = "C10"
RULE = ("case = generated compatible family (1-2 axes, 2-4 full masters, optional intermediate / "
        "sparse layer masters, axis maps, aligned or ragged per-master kerning with exceptions, "
        "per-master anchors) x {compileVariableTTF, compileVariableCFF2} x variableFeatures on/off (8 %: PropagateAnchors pre-filter, reference = master compiled alone with the filter); "
        "the variable font is instantiated at every full master's location; distinct = sha1 of the "
        "case; non-trivial = the variable font compiled and >= 2 master locations were judged with "
        ">= 1 moving outline point")
ASSUMPTIONS = [
    "fontTools.varLib.instancer is the trusted reader of the variable font (it evaluates gvar / "
    "CFF2 blends / GPOS variation data at a location)",
    "outlines and advances: within 1 unit of the interpolatable master (delta rounding + IUP "
    "tolerance), point structure identical",
    "kerning is judged for the glyph pairs for which a static compile of that master alone already "
    "yields the master's UFO value under the same script tag (mechanisms of the static writers are "
    "C05's business); 'that master's kerning' = UFO lookup on the master's kerning with its groups "
    "(groups are identical in all masters of a generated family)",
    "mark attachment: candidates from that master's anchors as in C06",
]
NONVACUITY = ["vfs_compiled", "master_locations_judged", "points_compared", "advances_compared",
              "kerning_pairs_judged", "kerning_pairs_absent_in_some_master", "mark_pairs_judged",
              "variable_features_path", "merge_path", "ttf_vfs", "cff2_vfs", "axis_map_families",
              "intermediate_master_families", "prefilter_cases", "prefilter_only_mark_pairs"]


def n_cases(tier):
    return 800 if tier == "quick" else 8000


def budget_s(tier):
    return 170 if tier == "quick" else 1700


def user_location(ds, design_loc):
    out = {}
    for a in ds["axes"]:
        dv = design_loc.get(a["name"])
        if dv is None:
            dv = V.map_forward(a, a["default"])
        out[a["tag"]] = float(V.map_backward(a, dv))
    return out


def snap_axes_to_integers(ds):
    """Families without axis maps: replace the distinct design values of every axis by integers
    100, 200, ... in the same order (user == design there), so that user-space master locations
    are integral and the variable-features path is exercised outside the listed finding."""
    for a in ds["axes"]:
        if a.get("map"):
            return False
    for a in ds["axes"]:
        vals = {a["min"], a["default"], a["max"]}
        for s_ in ds["sources"]:
            if a["name"] in s_["location"]:
                vals.add(s_["location"][a["name"]])
        order = sorted(vals)
        new = {v: 100 * (i + 1) for i, v in enumerate(order)}
        a["min"], a["default"], a["max"] = new[a["min"]], new[a["default"]], new[a["max"]]
        for s_ in ds["sources"]:
            if a["name"] in s_["location"]:
                s_["location"][a["name"]] = new[s_["location"][a["name"]]]
    return True


def groups_only_in_one_master(rng, ds):
    """A class pair whose two kerning groups exist in ONE non-default full master only."""
    di = masters.default_source_index(ds)
    full = [s_["ufo"] for i, s_ in enumerate(ds["sources"]) if not s_.get("layerName") and i != di]
    full = [u for u in full if u != ds["sources"][di]["ufo"]]
    if not full:
        return False
    u = ds["ufos"][rng.choice(full)]
    grouped = {m for ms in (u.get("groups") or {}).values() for m in ms}
    for other in ds["ufos"]:
        grouped |= {m for ms in (other.get("groups") or {}).values() for m in ms}
    free = [g["name"] for g in u["glyphs"] if g["name"] not in grouped and g["name"] != ".notdef"]
    if len(free) < 2:
        return False
    a, b = rng.sample(free, 2)
    u.setdefault("groups", {})
    u["groups"]["public.kern1.ONLYHERE"] = [a]
    u["groups"]["public.kern2.ONLYHERE"] = [b]
    u.setdefault("kerning", []).append(["public.kern1.ONLYHERE", "public.kern2.ONLYHERE",
                                        rng.choice([-45, -30, 25])])
    ds.setdefault("meta", {})["groups_only_in_one_master"] = [a, b]
    return True


def min_master_gap(ds):
    """Smallest distance between two distinct source positions on one axis, as a fraction of the
    axis' design range."""
    gap = 1.0
    for a in ds["axes"]:
        lo, _d, hi = V.design_bounds(a)
        vals = sorted({V.full_location(ds["axes"], s["location"])[a["name"]] for s in ds["sources"]})
        for x, y in zip(vals, vals[1:]):
            gap = min(gap, float(y - x) / float(hi - lo))
    return gap


def gen(rng, idx, tier):
    r = rng.random()
    stratum = "default"
    kern = rng.choice(["aligned", "aligned", "ragged"])
    want_multi = rng.random() < 0.1
    more = {"n_axes": 2, "shuffle_sources": True} if want_multi else {}
    for _attempt in range(8):
        ds = masters.family(rng, n_glyphs=rng.choice([4, 5, 6]), kerning=kern, anchors=True,
                            missing_glyph=False, extra_glyph=False, rules=0,
                            comp_2x2=rng.random() < 0.3,
                            kinds=rng.choice([["line", "curve"], ["line", "qcurve"], ["line"]]),
                            coord_mode=rng.choice(["int", "half"]), kern_values="int",
                            sparse=rng.random() < 0.25 and not want_multi, **more)
        # axis coordinates are stored as F2Dot14 (fvar / avar / regions): two masters closer
        # than a few percent of the axis turn that quantisation (2^-14) into whole font units
        # at the neighbouring master - a limit of the format, not the statement's "one unit"
        if min_master_gap(ds) >= 0.04:
            break
    if rng.random() < 0.2:
        # a composite whose FIRST component keeps its 2x2 while a later one differs between
        # masters (a variable font cannot vary a 2x2: the glyph has to be decomposed)
        from vf.props.c09 import later_component_2x2
        later_component_2x2(rng, ds)
    if rng.random() < 0.12:
        groups_only_in_one_master(rng, ds)
    if rng.random() < 0.7:
        snap_axes_to_integers(ds)
    func = rng.choice(["compileVariableTTF", "compileVariableCFF2"])
    varfea = rng.random() < 0.6
    locs = [user_location(ds, s["location"]) for s in ds["sources"]]
    fractional = any(float(v) != int(v) for l in locs for v in l.values())
    if fractional and varfea:
        if r < 0.15:
            stratum = "fractional_axis_variable_features"
        else:
            varfea = False
    if kern == "ragged" and varfea and stratum == "default":
        stratum = "ragged_variable_features"
    filters = None
    if stratum == "default" and rng.random() < 0.08 and prefilter_anchors(rng, ds):
        # anchors that exist only after a pre-filter ran (PropagateAnchors): the layout of the
        # variable font must still match the master compiled alone with the same filter
        stratum = "prefilter_anchors"
        filters = ["PropagateAnchorsFilter"]
    if stratum == "default" and kern == "aligned" and rng.random() < 0.3:
        categories_with_mark_kerning(rng, ds)
    if stratum == "default" and varfea and kern == "aligned" and rng.random() < 0.1:
        # kerning in the non-default masters only: the default master kerns nothing
        di_ = masters.default_source_index(ds)
        ds["ufos"][ds["sources"][di_]["ufo"]]["kerning"] = []
        ds.setdefault("meta", {})["default_master_without_kerning"] = True
    legacy = False
    if stratum in ("default", "ragged_variable_features") and rng.random() < 0.2:
        # the older kern writer, selected through every master's lib (as glyphsLib users do)
        for u in ds["ufos"]:
            if u.get("glyphs"):
                u.setdefault("lib", {})["com.github.googlei18n.ufo2ft.featureWriters"] = [
                    {"module": "ufo2ft.featureWriters.kernFeatureWriter2", "class": "KernFeatureWriter"},
                    {"class": "MarkFeatureWriter"}, {"class": "GdefFeatureWriter"},
                    {"class": "CursFeatureWriter"}]
        legacy = True
    if stratum == "default" and not varfea and len(ds["ufos"]) >= 2 and rng.random() < 0.015:
        # dedicated stratum of a listed finding: two caret anchors of one glyph coincide in one
        # non-default master only
        tgt = rng.choice([g["name"] for g in ds["ufos"][0]["glyphs"] if g["name"] != ".notdef"])
        k = rng.randrange(1, len(ds["ufos"]))
        for ui, u in enumerate(ds["ufos"]):
            for gl in [u["glyphs"]] + list((u.get("layers") or {}).values()):
                for g in gl:
                    if g["name"] == tgt:
                        g["anchors"] = [a for a in g["anchors"] if not a["name"].startswith("caret_")] + [
                            {"name": "caret_1", "x": 200 + 10 * ui, "y": 0},
                            {"name": "caret_2", "x": (200 if ui == k else 300) + 10 * ui, "y": 0}]
        stratum = "carets_coincide_in_one_master"
    multi = False
    if stratum == "default" and rng.random() < 0.05:
        sub = sub_range_family(rng)
        if sub is not None:
            ds, varfea = sub, True
            multi = True
            stratum = "sub_range_variable_font"
    if want_multi and stratum == "default" and len(ds["axes"]) == 2:
        # a designspace that defines several variable fonts: the whole space, and one axis alone
        # with the other axis left at its default (that font uses a subset of the sources; the
        # sources are in shuffled order)
        a0, a1 = ds["axes"][0]["name"], ds["axes"][1]["name"]
        vfs = [{"name": "VF-Full", "axisSubsets": [{"name": a0}, {"name": a1}]},
               {"name": "VF-%s" % ds["axes"][0]["tag"], "axisSubsets": [{"name": a0}]}]
        if rng.random() < 0.5:
            vfs.append({"name": "VF-%s" % ds["axes"][1]["tag"], "axisSubsets": [{"name": a1}]})
        rng.shuffle(vfs)
        ds["variableFonts"] = vfs
        multi = True
    # a sibling family compiled earlier in the same session: same axis names / tags and master
    # design locations, but no axis mapping (its user coordinates ARE the design coordinates)
    prior = bool(varfea and (ds.get("meta") or {}).get("axis_map") and rng.random() < 0.35)
    return {"stratum": stratum, "ds": ds, "func": func, "variableFeatures": varfea,
            "prior_unmapped_sibling": prior,
            "multi_vf": multi, "filters": filters, "legacy_kern_writer": legacy,
            "lib": rng.choice(["defcon", "ufoLib2"])}


def categories_with_mark_kerning(rng, ds):
    """Every master declares its glyph categories in the UFO lib (public.openTypeCategories:
    glyphs with a '_x' anchor are marks) and kerns one base against one mark, with a value of
    its own: such a pair only applies when the kern writer knows the mark set (it has to stay
    out of the lookups that ignore marks)."""
    base0 = ds["ufos"][0]["glyphs"]
    marks = [g["name"] for g in base0 if any(a["name"].startswith("_") for a in g["anchors"])]
    bases = [g["name"] for g in base0 if g["name"] not in marks and g["name"] != ".notdef"]
    if not marks or not bases:
        return False
    cats = {n: "mark" for n in marks}
    cats.update({n: "base" for n in bases})
    b, m = rng.choice(bases), rng.choice(marks)
    swap = rng.random() < 0.3
    for ui, u in enumerate(ds["ufos"]):
        if not u.get("glyphs"):
            continue
        u.setdefault("lib", {})["public.openTypeCategories"] = dict(cats)
        pair = [m, b] if swap else [b, m]
        u["kerning"] = [k for k in (u.get("kerning") or []) if k[:2] != pair]
        u["kerning"].append(pair + [-15 - 10 * ui])
    ds.setdefault("meta", {})["mark_kerning"] = {"pair": [m, b] if swap else [b, m]}
    return True


def sub_range_family(rng):
    """Three full masters on one axis (user = design 100 / 200 / 300, default 100) and ONE
    variable font that covers 200..300 with its own default at 200; one attaching anchor exists
    in the masters at 200 and 300 only - all masters of that variable font have it."""
    ds = masters.family(rng, n_axes=1, n_masters=3, default_pos="min", axis_map=False, sparse=False,
                        n_glyphs=rng.choice([4, 5, 6]), kerning="aligned", anchors=True,
                        missing_glyph=False, extra_glyph=False, rules=0, comp_2x2=False,
                        kinds=rng.choice([["line", "curve"], ["line", "qcurve"]]),
                        coord_mode="int", kern_values="int", shuffle_sources=False)
    if not snap_axes_to_integers(ds) and any(a.get("map") for a in ds["axes"]):
        return None
    ax = ds["axes"][0]
    locs = sorted({s_["location"][ax["name"]] for s_ in ds["sources"] if not s_.get("layerName")})
    if len(locs) != 3 or ax["default"] != locs[0]:
        return None
    di = masters.default_source_index(ds)
    dflt_ufo = ds["ufos"][ds["sources"][di]["ufo"]]
    cands = [(g["name"], a["name"]) for g in dflt_ufo["glyphs"] for a in g["anchors"]
             if not a["name"].startswith("_") and a["name"] in ("top", "bottom", "ogonek")]
    if cands:
        gname, aname = rng.choice(cands)
        for g in dflt_ufo["glyphs"]:
            if g["name"] == gname:
                g["anchors"] = [a for a in g["anchors"] if a["name"] != aname]
        ds.setdefault("meta", {})["anchor_absent_from_designspace_default"] = [gname, aname]
    ds["variableFonts"] = [{"name": "VF-Heavy", "axisSubsets": [
        {"name": ax["name"], "range": [locs[1], locs[1], locs[2]]}]}]
    return ds


def prefilter_anchors(rng, ds):
    """Make one component-only glyph anchorless while its first base carries 'top' and some
    other glyph carries '_top' in every master (coordinates differ per master)."""
    base = ds["ufos"][0]["glyphs"]
    names = {g["name"] for g in base}
    comps = [g for g in base if g["components"] and not g["contours"]
             and g["components"][0]["base"] in names and g["name"] != ".notdef"]
    if not comps:
        return False
    target = rng.choice(comps)["name"]
    first = next(g for g in base if g["name"] == target)["components"][0]["base"]
    others = [n for n in sorted(names) if n not in (target, first, ".notdef")]
    if not others:
        return False
    mark = rng.choice(others)
    for ui, u in enumerate(ds["ufos"]):
        tables = [u["glyphs"]] + list((u.get("layers") or {}).values())
        for gl in tables:
            for g in gl:
                if g["name"] == target:
                    g["anchors"] = []
                elif g["name"] == first:
                    g["anchors"] = [a for a in g["anchors"] if a["name"] != "top"] + [
                        {"name": "top", "x": 210 + 17 * ui, "y": 640 + 9 * ui}]
                elif g["name"] == mark:
                    g["anchors"] = [a for a in g["anchors"] if a["name"] not in ("_top", "top")] + [
                        {"name": "_top", "x": 30 + 5 * ui, "y": 600 - 4 * ui}]
    ds.setdefault("meta", {})["prefilter"] = {"composite": target, "base": first, "mark": mark}
    return True


def sample_view(case):
    return {"stratum": case["stratum"], "func": case["func"],
            "variableFeatures": case["variableFeatures"], "lib": case["lib"],
            "meta": case["ds"].get("meta"), "axes": case["ds"]["axes"],
            "sources": case["ds"]["sources"],
            "kerning_master0": case["ds"]["ufos"][0].get("kerning")}


def outline_points(tt, name):
    """List of (x, y) of every stored point / charstring operand position in drawing order."""
    if "glyf" in tt:
        g = tt["glyf"][name]
        if g.isComposite():
            # the 2x2 part cannot vary in a variable font: it is part of the structure that has
            # to equal the master's
            return ("composite", [(c.glyphName, c.x, c.y) for c in g.components], tuple(
                tuple(round(v, 4) for row in getattr(c, "transform", ((1, 0), (0, 1))) for v in row)
                for c in g.components))
        if g.numberOfContours <= 0:
            return ("empty", [])
        return ("simple", [(x, y) for x, y in g.coordinates], tuple(g.endPtsOfContours),
                tuple(f & 1 for f in g.flags))
    from fontTools.pens.recordingPen import RecordingPen
    rec = RecordingPen()
    tt.getGlyphSet()[name].draw(rec)
    pts, ops = [], []
    for op, args in rec.value:
        ops.append(op)
        pts.extend(tuple(a) for a in args if a is not None)
    return ("cff", pts, tuple(ops))


def run(case):
    import ufo2ft
    from fontTools.ttLib import TTFont
    from fontTools.varLib import instancer

    counters = {}

    def bump(k, n=1):
        counters[k] = counters.get(k, 0) + n

    ds = case["ds"]
    func = case["func"]
    is_tt = func == "compileVariableTTF"
    doc, fonts = build_designspace(ds, case["lib"])
    fkw = {}
    if (ds.get("meta") or {}).get("groups_only_in_one_master"):
        bump("groups_only_in_one_master_families")
    if case.get("filters"):
        import ufo2ft.filters as F
        fkw["filters"] = [...] + [getattr(F, n)(pre=True) for n in case["filters"]]
        bump("prefilter_cases")
    if case.get("prior_unmapped_sibling"):
        import copy
        from vf.ref import varmodel as V_
        sib = copy.deepcopy(ds)
        sib.pop("variableFonts", None)
        for ax in sib["axes"]:
            if ax.get("map"):
                dvals = [m[1] for m in ax["map"]]
                ax["min"], ax["max"] = min(dvals), max(dvals)
                d_ = float(V_.full_location(ds["axes"], {})[ax["name"]])
                ax["default"] = int(d_) if d_ == int(d_) else d_
                del ax["map"]
        try:
            sdoc, _ = build_designspace(sib, case["lib"])
            getattr(ufo2ft, func)(sdoc, variableFeatures=True, useProductionNames=False)
            bump("sessions_that_compiled_an_unmapped_sibling_family_first")
        except Exception:  # noqa: BLE001 - only the history matters
            bump("sibling_family_failed")
    targets = []     # (variable font name, saved bytes, source indices, axis tags kept | None)
    try:
        if case.get("multi_vf"):
            res_ = getattr(ufo2ft, func + "s")(doc, variableFeatures=case["variableFeatures"],
                                               useProductionNames=False, **fkw)
            axes_by_name = {a["name"]: a for a in ds["axes"]}
            for vfd in ds["variableFonts"]:
                buf = io.BytesIO()
                res_[vfd["name"]].save(buf)
                ranged = [sub["name"] for sub in vfd["axisSubsets"] if "value" not in sub]
                limits = {sub["name"]: sub["range"] for sub in vfd["axisSubsets"] if "range" in sub}
                idx = []
                for si_, src_ in enumerate(ds["sources"]):
                    full = V.full_location(ds["axes"], src_["location"])
                    dflt = V.full_location(ds["axes"], {})
                    ul_ = user_location(ds, src_["location"])
                    if all(full[n_] == dflt[n_] for n_ in axes_by_name if n_ not in ranged) and all(
                            lim[0] <= ul_[axes_by_name[n_]["tag"]] <= lim[2] for n_, lim in limits.items()):
                        idx.append(si_)
                targets.append((vfd["name"], buf.getvalue(), idx,
                                [axes_by_name[n_]["tag"] for n_ in ranged]))
            bump("multi_vf_designspaces")
            if any(len(t[2]) < len(ds["sources"]) for t in targets):
                bump("multi_vf_fonts_using_a_subset_of_the_sources",
                     sum(1 for t in targets if len(t[2]) < len(ds["sources"])))
        else:
            vf_ = getattr(ufo2ft, func)(doc, variableFeatures=case["variableFeatures"],
                                        useProductionNames=False, **fkw)
            buf = io.BytesIO()
            vf_.save(buf)
            targets.append((None, buf.getvalue(), list(range(len(ds["sources"]))), None))
    except Exception:  # noqa: BLE001
        return {"status": "violated", "counters": counters, "violations": [
            {"mech": "unexpected_exception", "detail": {"trace": traceback.format_exc()[-2500:]}}]}
    bump("vfs_compiled")
    if case.get("legacy_kern_writer"):
        bump("vfs_with_legacy_kern_writer_from_lib")
    if (ds.get("meta") or {}).get("default_master_without_kerning"):
        bump("vfs_whose_default_master_has_no_kerning")
    bump("ttf_vfs" if is_tt else "cff2_vfs")
    bump("variable_features_path" if case["variableFeatures"] else "merge_path")
    meta = ds.get("meta", {})
    if meta.get("axis_map"):
        bump("axis_map_families")
    if meta.get("n_full_masters", 2) > 2 and meta.get("layout") == "1axis":
        bump("intermediate_master_families")
    # interpolatable masters through the C09 path
    doc2, _ = build_designspace(ds, case["lib"])
    try:
        if is_tt:
            res = ufo2ft.compileInterpolatableTTFsFromDS(doc2, useProductionNames=False, **fkw)
        else:
            res = ufo2ft.compileInterpolatableOTFsFromDS(doc2, useProductionNames=False, **fkw)
        imasters = [s.font for s in res.sources]
    except Exception:  # noqa: BLE001
        return {"status": "inconclusive", "counters": dict(counters, interpolatable_failed=1)}
    violations = []
    moving = False
    judged = 0
    all_kern_keys = [set((l, r) for l, r, _ in u.get("kerning") or []) for u in ds["ufos"]]
    for vf_name, vf_bytes, si, keep_tags in [(t[0], t[1], i_, t[3]) for t in targets for i_ in t[2]]:
        src = ds["sources"][si]
        if src.get("layerName"):
            continue
        uloc = user_location(ds, src["location"])
        if keep_tags is not None:
            uloc = {t_: v_ for t_, v_ in uloc.items() if t_ in keep_tags}
            bump("multi_vf_master_locations")
        try:
            inst = instancer.instantiateVariableFont(TTFont(io.BytesIO(vf_bytes)), uloc)
            b = io.BytesIO()
            inst.save(b)
            inst = TTFont(io.BytesIO(b.getvalue()))
        except Exception:  # noqa: BLE001
            # the trusted reader itself cannot evaluate this font: nothing can be judged here
            bump("instancer_failed_locations")
            continue
        judged += 1
        exact = None
        bump("master_locations_judged")
        # a master strictly inside another master's support is reproduced through fractional
        # scalars times ROUNDED deltas: values may be off by one there (stated bound)
        norm = V.normalise(ds["axes"], V.full_location(ds["axes"], src["location"]))
        intermediate = any(0 < abs(x) < 1 for x in norm.values())
        if intermediate:
            bump("intermediate_locations_judged")
        im = imasters[si]
        ufo = ds["ufos"][src["ufo"]]
        glyphs = {g["name"]: g for g in ufo["glyphs"]}
        # ---------------- outlines and advances
        for name in inst.getGlyphOrder():
            if name not in glyphs or name not in im.getGlyphOrder():
                continue
            a, m = outline_points(inst, name), outline_points(im, name)
            if a[0] != m[0] or a[2:] != m[2:] or len(a[1]) != len(m[1]):
                violations.append({"mech": "structure_differs_from_master", "detail": {
                    "glyph": name, "master": si, "instance": str(a)[:300], "imaster": str(m)[:300]}})
                continue
            for pi_, (p, q) in enumerate(zip(a[1], m[1])):
                if a[0] == "composite":
                    if p[0] != q[0]:
                        violations.append({"mech": "component_base_differs", "detail": {
                            "glyph": name}})
                        break
                    p, q = p[1:], q[1:]
                bump("points_compared")
                # 'within one font unit' of the master as a font stores it (integers)
                q = (R.otround(q[0]), R.otround(q[1]))
                if (abs(p[0] - q[0]) > 1 or abs(p[1] - q[1]) > 1) and keep_tags is None:
                    # the reader was handed USER coordinates: it normalises them and applies
                    # avar in 2.14 fixed point, so it evaluates up to a few 2^-14 beside the
                    # master - visible where neighbouring masters differ by thousands of units.
                    # Decide at the master's design location itself (avar bypassed), and judge
                    # the avar mapping on its own
                    if exact is None:
                        exact = _instance_at_design_location(vf_bytes, ds, src, uloc, bump)
                    if exact.get("avar_error") is not None:
                        violations.append({"mech": "avar_maps_master_location_wrong", "detail": dict(
                            exact["avar_error"], master=si, location=uloc)})
                        break
                    if exact.get("font") is not None and name in exact["font"].getGlyphOrder():
                        a2 = outline_points(exact["font"], name)
                        if a2[0] == a[0] and a2[2:] == a[2:] and len(a2[1]) == len(a[1]):
                            p2 = a2[1][pi_]
                            if a[0] == "composite":
                                p2 = p2[1:]
                            if abs(p2[0] - q[0]) <= 1 and abs(p2[1] - q[1]) <= 1:
                                bump("points_off_only_through_2_14_location_rounding")
                                continue
                if abs(p[0] - q[0]) > 1 or abs(p[1] - q[1]) > 1:
                    violations.append({"mech": "outline_off_by_more_than_one", "detail": {
                        "glyph": name, "master": si, "location": uloc, "instance": list(p),
                        "imaster": list(q)}})
                    break
            exp_adv = R.otround(glyphs[name]["width"])
            bump("advances_compared")
            if abs(inst["hmtx"][name][0] - exp_adv) > 1:
                violations.append({"mech": "advance_differs", "detail": {
                    "glyph": name, "master": si, "expected": exp_adv,
                    "got": inst["hmtx"][name][0]}})
        if si > 0:
            g0 = {g["name"]: g for g in ds["ufos"][ds["sources"][0]["ufo"]]["glyphs"]}
            for n, g in glyphs.items():
                if n in g0 and g["contours"] != g0[n]["contours"]:
                    moving = True
        # ---------------- layout
        violations.extend(judge_layout(case, ufo, inst, si, uloc, all_kern_keys, bump,
                                       1 if intermediate else 0))
        if len(violations) > 10:
            break
    return {"status": "violated" if violations else "held", "violations": violations[:10],
            "counters": counters, "nontrivial": judged >= 2 and moving}


def _instance_at_design_location(vf_bytes, ds, src, uloc, bump):
    """The variable font evaluated at the master's own (design) location: avar removed, every
    axis set to the user value whose plain normalisation IS the master's normalised design
    coordinate.  Also checks that avar sends the master's user location there (within 4 steps
    of 2^-14: the user value, both knots and the result are rounded)."""
    from fontTools.ttLib import TTFont
    from fontTools.varLib import instancer
    from fontTools.varLib.models import normalizeValue, piecewiseLinearMap
    out = {"font": None, "avar_error": None}
    try:
        t = TTFont(io.BytesIO(vf_bytes))
        norm = V.normalise(ds["axes"], V.full_location(ds["axes"], src["location"]))
        by_tag = {a["tag"]: a["name"] for a in ds["axes"]}
        segs = t["avar"].segments if "avar" in t else {}
        loc = {}
        for a in t["fvar"].axes:
            n = float(norm[by_tag[a.axisTag]])
            loc[a.axisTag] = (a.defaultValue + n * (a.maxValue - a.defaultValue) if n >= 0
                              else a.defaultValue + n * (a.defaultValue - a.minValue))
            un = normalizeValue(uloc[a.axisTag], (a.minValue, a.defaultValue, a.maxValue))
            un = round(un * 16384) / 16384
            mapped = piecewiseLinearMap(un, segs[a.axisTag]) if a.axisTag in segs else un
            if abs(mapped - n) > 4.0 / 16384:
                out["avar_error"] = {"axis": a.axisTag, "avar_gives": mapped, "master_is_at": n}
                return out
        if "avar" in t:
            del t["avar"]
        inst = instancer.instantiateVariableFont(t, loc)
        b = io.BytesIO()
        inst.save(b)
        out["font"] = TTFont(io.BytesIO(b.getvalue()))
        bump("master_locations_re_evaluated_at_the_design_location")
    except Exception:  # noqa: BLE001 - the second opinion is not available: the first one stands
        bump("design_location_evaluation_failed")
    return out


def judge_layout(case, ufo, inst, si, uloc, all_kern_keys, bump, tol=0):
    import ufo2ft
    from fontTools.ttLib import TTFont
    out = []
    names = [g["name"] for g in ufo["glyphs"]]
    exported = set(names)
    rk = RKern(ufo.get("kerning") or [], ufo.get("groups") or {}, exported)
    gi = Gpos(inst)
    # static compile of this master alone (same writers, non-variable path)
    try:
        skw = {}
        if case.get("filters"):
            import ufo2ft.filters as F
            skw["filters"] = [...] + [getattr(F, n)(pre=True) for n in case["filters"]]
        st = ufo2ft.compileTTF(build_ufo(ufo, case["lib"]), useProductionNames=False, **skw)
        b = io.BytesIO()
        st.save(b)
        gs = Gpos(TTFont(io.BytesIO(b.getvalue())))
    except Exception:  # noqa: BLE001
        bump("static_master_compile_failed")
        return out
    if not gs.graph:
        return out
    if not gi.graph:
        # no GPOS in the instance although the master alone has one
        for tag in gs.script_tags():
            for a in names:
                for b_ in names:
                    if gs.pair(a, b_, tag)["xadv"]:
                        return [{"mech": "instance_without_gpos", "detail": {"master": si}}]
        return out
    keys_here = all_kern_keys[ufo_index(case, ufo)]
    tags = [t for t in gs.script_tags() if t in gi.script_tags()]
    anchors = {}
    for g in ufo["glyphs"]:
        d = {"mark": {}, "plain": {}}
        for a in g["anchors"]:
            im_, key, num = parse_anchor(a["name"])
            pt = (q_anchor(a["x"], 1), q_anchor(a["y"], 1))
            if im_:
                d["mark"].setdefault(key, pt)
            elif num is None:
                d["plain"].setdefault(key, pt)
        anchors[g["name"]] = d
    for tag in tags:
        for a in names:
            for b_ in names:
                exp_v, lvl, key = rk.lookup(a, b_)
                exp = quantize(exp_v, 1)
                rs = gs.pair(a, b_, tag)
                if rs["xadv"] == exp:
                    ri = gi.pair(a, b_, tag)
                    bump("kerning_pairs_judged")
                    if exp and [a, b_] == (case["ds"].get("meta") or {}).get("mark_kerning", {}).get("pair"):
                        bump("base_mark_kerning_pairs_with_lib_categories_judged")
                    union = set().union(*all_kern_keys)
                    ga, gb = rk.g1.get(a), rk.g2.get(b_)
                    cover = [k for k in ((a, b_), (a, gb), (ga, b_), (ga, gb)) if None not in k]
                    if any(k in union and k not in keys_here for k in cover):
                        bump("kerning_pairs_absent_in_some_master")
                    if abs(ri["xadv"] - exp) > tol or abs(ri["xpla"] - rs["xpla"]) > tol:
                        out.append({"mech": "kerning_at_master", "detail": {
                            "pair": [a, b_], "tag": tag, "master": si, "location": uloc,
                            "expected": exp, "ufo_key": list(key or []), "level": lvl,
                            "got": ri["xadv"], "static_master": rs["xadv"],
                            "ufo_index": ufo_index(case, ufo),
                            "covering_keys_per_master": [
                                [list(k) for k in cover if k in ks] for ks in all_kern_keys]}})
                # marks
                cands = set()
                for k, pt in anchors[a]["plain"].items():
                    if k in anchors[b_]["mark"]:
                        mp = anchors[b_]["mark"][k]
                        cands.add((pt[0] - mp[0], pt[1] - mp[1]))
                ms = gs.attach(a, b_, tag)
                if case.get("filters") and not cands and ms["offset"] is not None:
                    # the attachment exists only through the pre-filter: the master compiled
                    # alone with the same filter is the reference
                    cands = {tuple(ms["offset"])}
                    bump("prefilter_only_mark_pairs")
                if cands and ms["offset"] is not None and tuple(ms["offset"]) in cands:
                    mi = gi.attach(a, b_, tag)
                    bump("mark_pairs_judged")
                    got = mi["offset"]
                    # two anchors (base and mark), each off by at most `tol`
                    if got is None or not any(abs(got[0] - c[0]) <= 2 * tol
                                              and abs(got[1] - c[1]) <= 2 * tol for c in cands):
                        out.append({"mech": "mark_attachment_at_master", "detail": {
                            "base": a, "mark": b_, "tag": tag, "master": si,
                            "candidates": sorted(cands), "got": got,
                            "static_master": ms["offset"]}})
            if len(out) > 8:
                return out
    return out


def ufo_index(case, ufo):
    for i, u in enumerate(case["ds"]["ufos"]):
        if u is ufo:
            return i
    return 0


def classify(v, case):
    det = v["detail"]
    if v["mech"] == "instance_without_gpos" and not case["variableFeatures"]:
        return "merge_path_fails_on_structurally_different_master_gpos"
    if v["mech"] == "unexpected_exception" and not case["variableFeatures"]:
        tr = det.get("trace", "")
        if "varLib/merger.py" in tr and "GPOS" in tr:
            return "merge_path_fails_on_structurally_different_master_gpos"
        if "varLib/merger.py" in tr and ("GDEF.table.MarkGlyphSetsDef" in tr or "GDEF.table.Version" in tr
                                         or ("_merge_OTL" in tr and "Base master not found" in tr)):
            # (or, when the DEFAULT master is the one that lacks the pair, from the merger's
            # sub-model: 'Base master not found')
            # the same structural difference seen from GDEF: with glyph categories the kern
            # writer puts pairs that involve marks into lookups with a mark filtering set; a
            # master whose only such pair has value 0 (dropped) or lacks the key has one
            # filtering set fewer
            kerns = [u.get("kerning") or [] for u in case["ds"]["ufos"] if u.get("glyphs")]
            keysets = [{(k[0], k[1]) for k in ks if k[2] != 0} for ks in kerns]
            if any(ks != keysets[0] for ks in keysets[1:]):
                return "merge_path_fails_on_structurally_different_master_gpos"
        if "varLib/merger.py" in tr and "GDEF.table.LigCaretList" in tr and ".CaretCount" in tr:
            # ligature carets are collected in a set per master (ufo2ft's GDEF writer, then
            # feaLib): two caret anchors that coincide in ONE master give that master fewer
            # carets than the others and the master GDEFs cannot be merged
            return "merge_path_fails_on_carets_coinciding_in_one_master"
    if v["mech"] == "unexpected_exception" and case["variableFeatures"] and case.get("filters"):
        tr = det.get("trace", "")
        if "_getAnchor" in tr and "cannot unpack non-iterable NoneType" in tr:
            return "variable_features_read_anchors_from_source_fonts"
    if v["mech"] == "unexpected_exception" and case["variableFeatures"]:
        tr = det.get("trace", "")
        if (("Base master not found" in tr or "Default value could not be found" in tr)
                and case["stratum"] == "fractional_axis_variable_features"):
            return "fractional_axis_location_truncated_in_variable_features"
    if (case["stratum"] == "fractional_axis_variable_features"
            and v["mech"] in ("kerning_at_master", "mark_attachment_at_master")):
        # same root: master locations with a fractional user coordinate are written into the
        # variable feature code as integers, so the values peak slightly beside the master
        return "fractional_axis_location_truncated_in_variable_features"
    if v["mech"] == "kerning_at_master" and case["variableFeatures"]:
        # The variable kern writer builds one variable value per KEY of the union of all masters'
        # keys and substitutes, where a master lacks the key, that master's UFO lookup OF THE KEY.
        # For the pair (a, b) the compiled font applies the highest-precedence key of the union.
        # When that key is the half-exception (a, @B), master M lacks it and M covers the pair
        # through the OTHER half-exception (@A, b), M's substitute for (a, @B) is (@A, @B) or 0 -
        # not M's own value for (a, b).
        per = det.get("covering_keys_per_master") or []
        mi = det.get("ufo_index")
        a, b = det["pair"]
        union = {tuple(k) for ks in per for k in ks}
        here = {tuple(k) for k in per[mi]} if mi is not None and mi < len(per) else set()
        glyph_group = [k for k in union if k[0] == a and k[1].startswith("public.kern2.")]
        group_glyph = [k for k in here if k[0].startswith("public.kern1.") and k[1] == b]
        if ((a, b) not in union and glyph_group and not any(k in here for k in glyph_group)
                and group_glyph):
            return "ragged_kerning_cross_level_variable_features"
    return None
