def define(M):
    M("C12", "width_omitted_when_nominal", "Lib/ufo2ft/outlineCompiler.py",
      "        if width == defaultWidth:\n            # if width equals the default it can be omitted from charstring",
      "        if width == nominalWidth:\n            # if width equals the default it can be omitted from charstring", cases=64)
    M("C12", "cff2_conversion_skipped", "Lib/ufo2ft/postProcessor.py",
      "                convertCFFToCFF2(self.otf)", "                pass", cases=64)
    M("C12", "unrounded_when_not_optimized", "Lib/ufo2ft/outlineCompiler.py",
      "        pen = T2CharStringPen(width, self.allGlyphs, roundTolerance=self.roundTolerance)",
      "        pen = T2CharStringPen(width, self.allGlyphs, roundTolerance=self.roundTolerance if self.optimizeCFF else 0.25)", cases=64)
    M("C12", "compreffor_cff2_accepted", "Lib/ufo2ft/postProcessor.py",
      "        if cls._get_cff_version(otf) != CFFVersion.CFF or cffVersion != CFFVersion.CFF:",
      "        if cls._get_cff_version(otf) != CFFVersion.CFF:", cases=64)
    M("C12", "subroutinize_only_cff1_default", "Lib/ufo2ft/postProcessor.py",
      "            if subroutinizer is None:\n                backend = self.DEFAULT_SUBROUTINIZER_FOR_CFF_VERSION[cffOutputVersion]",
      "            if subroutinizer is None:\n                backend = self.DEFAULT_SUBROUTINIZER_FOR_CFF_VERSION[cffOutputVersion]\n                cffOutputVersion = cffInputVersion",
      cases=64)
