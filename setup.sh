#!/bin/sh
# Offline install of contract / schema libraries beside the repository's interpreter.
# Everything lands in /verif/.deps (git-ignored); ./check re-runs this when .deps is missing.
set -e
cd "$(dirname "$0")"
if [ ! -f .deps/.ok ]; then
  rm -rf .deps
  PIP_NO_INDEX=1 /venv/bin/pip install -q --no-index --find-links /opt/veriftools/wheels \
      --target .deps icontract deal jsonschema >/dev/null 2>&1 || {
      echo "setup: pip install failed" >&2; exit 3; }
  touch .deps/.ok
fi
mkdir -p evidence replay
echo "setup ok"
