"""Mutants for the monitors / strata added after the sixth round of seeded changes."""


def define(M):
    # C14 pipeline stratum: the pre-processor's handling of the filters' reports
    M("C14", "pipeline_interpolatable_step_never_refreshes", "Lib/ufo2ft/preProcessor.py",
      "        modified = filter_(self.ufos, self.glyphSets, self.instantiator)\n        if modified:\n            self._update_instantiator()",
      "        modified = filter_(self.ufos, self.glyphSets, self.instantiator)")
    M("C14", "pipeline_per_master_step_never_refreshes", "Lib/ufo2ft/preProcessor.py",
      "                modified |= filter_(ufo, glyphSet)\n        if modified:\n            self._update_instantiator()",
      "                modified |= filter_(ufo, glyphSet)")
    M("C14", "pipeline_per_master_report_first_master_only", "Lib/ufo2ft/preProcessor.py",
      "                modified |= filter_(ufo, glyphSet)",
      "                _r = filter_(ufo, glyphSet)\n                modified = modified or _r")
    M("C14", "replace_source_layers_keeps_model_cache", "Lib/ufo2ft/instantiator.py",
      "        # this forces to reload the glyph variation models when an instance is requested\n        self.glyph_mutators.clear()",
      "        # this forces to reload the glyph variation models when an instance is requested")
    # C09: composites of layer glyphs must follow into the sparse master
    M("C09", "composite_not_defined_at_component_locations", "Lib/ufo2ft/filters/decomposeComponents.py",
      "        self.ensureCompositeDefinedAtComponentLocations(glyphName)\n", "")
    # C13: master list, union of the lib keys
    M("C13", "skip_list_from_first_master_lib_only", "Lib/ufo2ft/_compilers/baseCompiler.py",
      "                for ufo in ufo_or_ufos:\n                    self.skipExportGlyphs.update(",
      "                for ufo in ufo_or_ufos[:1]:\n                    self.skipExportGlyphs.update(")
    # C20: languages in statement order
    M("C20", "languages_sorted_then_first_skipped", "Lib/ufo2ft/featureWriters/ast.py",
      "        for language in languages or ():\n            if language == \"dflt\":\n                continue",
      "        for language in list(languages or ())[1:]:")
    # C05: rounding of exact half steps
    M("C05", "quantize_rounds_half_down", "Lib/ufo2ft/util.py",
      "    return factor * otRound(number / factor)",
      "    import math\n    return factor * math.ceil(number / factor - 0.5)")
    # C18: a class alone is enough for the statement
    M("C18", "glyphclassdef_needs_base_or_mark", "Lib/ufo2ft/featureWriters/gdefFeatureWriter.py",
      "            if not any(ctx.openTypeCategories):",
      "            if not (ctx.openTypeCategories.base or ctx.openTypeCategories.mark):")
    # C12: global subroutines must be saved
    M("C12", "global_subrs_replaced_before_save", "Lib/ufo2ft/outlineCompiler.py",
      "        cff.GlobalSubrs = globalSubrs\n",
      "        cff.GlobalSubrs = GlobalSubrsIndex()\n")
    # C11: regression mutant of the repaired defect (8f678c5)
    M("C11", "empty_production_name_kept", "Lib/ufo2ft/postProcessor.py",
      "                if not valid_name or len(valid_name) > self.MAX_GLYPH_NAME_LENGTH:",
      "                if len(valid_name) > self.MAX_GLYPH_NAME_LENGTH:")
    # C06: regression mutant of the repaired defect (7e74af1)
    M("C06", "markclass_clash_decided_per_glyph_again", "Lib/ufo2ft/featureWriters/markFeatureWriter.py",
      "            if self._markClassClashes(\n                currentClasses.get(className), glyphAnchorPairs\n            ):",
      "            if False:")
    # C10: regression mutant of the repaired defect (faddc87)
    M("C10", "sub_space_default_not_kept_among_needed_sources", "Lib/ufo2ft/_compilers/baseCompiler.py",
      "                if subDocDefault is not None:\n                    sourcesToCompile.add(subDocDefault.name)",
      "                if subDocDefault is not None:\n                    pass")
    # C09: regression mutant of the repaired defect (flatten filter, sparse masters)
    M("C09", "flatten_ifilter_does_not_define_composite_at_sparse_locations", "Lib/ufo2ft/filters/flattenComponents.py",
      "            self.ensureCompositeDefinedAtComponentLocations(glyphName)\n", "            pass\n")
    # C18: regression mutant of the repaired defect (de3470c): doubly encoded glyphs neutral again
    M("C18", "glyph_with_script_and_neutral_code_points_neutral_again", "Lib/ufo2ft/util.py",
      "    for glyphs in glyphSets.values():\n        neutralGlyphs -= glyphs\n", "")
    # C08: regression mutant of the repaired defect (e1cb1f0): curs anchors from the source font again
    M("C08", "curs_anchors_looked_up_in_source_font_again", "Lib/ufo2ft/featureWriters/cursFeatureWriter.py",
      "                return self._getAnchor(glyph.name, anchorName, anchor=anchor)",
      "                return self._getAnchor(glyph.name, anchorName)")
    # C04: regression mutant of the repaired defect (faa0976): bases reached before are skipped again
    M("C04", "component_depth_skips_bases_visited_through_another_branch", "Lib/ufo2ft/util.py",
      "        if component.baseGlyph in rec_stack:\n            raise InvalidFontData(",
      "        if component.baseGlyph in visited and component.baseGlyph not in rec_stack:\n            continue\n        if component.baseGlyph in rec_stack:\n            raise InvalidFontData(")
