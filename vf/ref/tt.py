"""TrueType-side reference helpers (C02, C09, C10, C13): segment lists that keep TrueType
quadratic runs, readers for reloaded glyf glyphs, a backtracking structural matcher, and
R-bezier distance between a cubic and a quadratic run (pure Python)."""
from fractions import Fraction as F
import math

from . import render as R


# ---------------------------------------------------------------- source side

def source_cycle(pts):
    """Point-pen contour (exact rationals) -> (start, [segments]) closed cycle where segments are
    ('l', end) | ('Q', off1, ..., offk, end) | ('c', c1, c2, end); an all-off-curve contour gives
    (None, [('Q', offs..., None)]).  A single-point contour gives (start, [])."""
    if not pts:
        return None
    if pts[0][2] == "move":
        start = (pts[0][0], pts[0][1])
        rest = pts[1:]
        closed = False
    else:
        ons = [i for i, p in enumerate(pts) if p[2] is not None]
        if not ons:
            return None, [("Q",) + tuple((p[0], p[1]) for p in pts) + (None,)]
        k = ons[0]
        rest = pts[k + 1:] + pts[:k + 1]
        start = (pts[k][0], pts[k][1])
        closed = True
    segs, offs = [], []
    for p in rest:
        if p[2] is None:
            offs.append((p[0], p[1]))
            continue
        end = (p[0], p[1])
        if p[2] == "line" or not offs:
            segs.append(("l", end))
        elif p[2] == "curve":
            if len(offs) == 2:
                segs.append(("c", offs[0], offs[1], end))
            elif len(offs) == 1:
                segs.append(("Q", offs[0], end))
            else:
                raise ValueError("super-bezier not generated")
        else:
            segs.append(("Q",) + tuple(offs) + (end,))
        offs = []
    if segs and not closed:
        if segs[-1][-1] != start:
            segs.append(("l", start))
    return start, segs


def reverse_tt_cycle(start, segs):
    if start is None:
        s = segs[0]
        return None, [("Q",) + tuple(reversed(s[1:-1])) + (None,)]
    pts = [start] + [s[-1] for s in segs]
    out = []
    for i in range(len(segs) - 1, -1, -1):
        s = segs[i]
        a = pts[i]
        if s[0] == "l":
            out.append(("l", a))
        else:
            out.append((s[0],) + tuple(reversed(s[1:-1])) + (a,))
    return start, out


def expected_cycles(resolved, reverse):
    """Resolved (points, flip) contours -> expected TrueType cycles, reversed when
    reverse XOR flip."""
    out = []
    for pts, flip in resolved:
        t = source_cycle(pts)
        if t is None:
            continue
        start, segs = t
        if reverse != flip:
            start, segs = reverse_tt_cycle(start, segs)
        out.append((start, segs))
    return out


# ---------------------------------------------------------------- output side

FLAG_ON = 0x01
FLAG_CUBIC = 0x80


def glyf_contours(glyph):
    """Reloaded simple glyph -> list of contours, each a list of (x, y, kind) with kind in
    'on' | 'off' | 'cub'."""
    out = []
    if glyph.numberOfContours <= 0:
        return out
    coords = glyph.coordinates
    flags = glyph.flags
    start = 0
    for end in glyph.endPtsOfContours:
        c = []
        for i in range(start, end + 1):
            f = flags[i]
            kind = "on" if f & FLAG_ON else ("cub" if f & FLAG_CUBIC else "off")
            c.append((coords[i][0], coords[i][1], kind))
        out.append(c)
        start = end + 1
    return out


def out_segments(contour):
    """Output contour -> (start, segs, start_explicit) with single-quadratic segments
    ('q', off, end, explicit_end) / ('l', end) / ('c', c1, c2, end); implied on-curve points are
    made explicit (flag False).  All-off contours start at an implied point."""
    n = len(contour)
    if n == 0:
        return None
    ons = [i for i, p in enumerate(contour) if p[2] == "on"]
    if not ons:
        if any(p[2] == "cub" for p in contour):
            return None
        offs = [(p[0], p[1]) for p in contour]
        mids = [((offs[i][0] + offs[(i + 1) % n][0]) / 2, (offs[i][1] + offs[(i + 1) % n][1]) / 2)
                for i in range(n)]
        segs = [("q", offs[i], mids[i], False) for i in range(n)]
        return mids[-1], segs, False
    k = ons[0]
    rest = contour[k + 1:] + contour[:k + 1]
    start = (contour[k][0], contour[k][1])
    segs, offs, cubs = [], [], []
    for p in rest:
        if p[2] == "off":
            offs.append((p[0], p[1]))
            continue
        if p[2] == "cub":
            cubs.append((p[0], p[1]))
            continue
        end = (p[0], p[1])
        if cubs:
            if len(cubs) != 2 or offs:
                return None
            segs.append(("c", cubs[0], cubs[1], end))
        elif not offs:
            segs.append(("l", end))
        else:
            for i, o in enumerate(offs):
                if i == len(offs) - 1:
                    segs.append(("q", o, end, True))
                else:
                    nx = offs[i + 1]
                    segs.append(("q", o, ((o[0] + nx[0]) / 2, (o[1] + nx[1]) / 2), False))
        offs, cubs = [], []
    return start, segs, True


# ---------------------------------------------------------------- bezier distance

def _flat(p0, p1, p2, p3, tol, out, depth=0):
    # cubic flatness: distance of control points from the chord
    d1 = _pt_seg(p1, p0, p3)
    d2 = _pt_seg(p2, p0, p3)
    if (d1 <= tol and d2 <= tol) or depth > 12:
        out.append(p3)
        return
    m01 = mid(p0, p1); m12 = mid(p1, p2); m23 = mid(p2, p3)
    a = mid(m01, m12); b = mid(m12, m23); c = mid(a, b)
    _flat(p0, m01, a, c, tol, out, depth + 1)
    _flat(c, b, m23, p3, tol, out, depth + 1)


def mid(a, b):
    return ((a[0] + b[0]) / 2.0, (a[1] + b[1]) / 2.0)


def _pt_seg(p, a, b):
    ax, ay = a; bx, by = b; px, py = p
    dx, dy = bx - ax, by - ay
    L = dx * dx + dy * dy
    if L == 0:
        return math.hypot(px - ax, py - ay)
    t = ((px - ax) * dx + (py - ay) * dy) / L
    t = 0.0 if t < 0 else (1.0 if t > 1 else t)
    return math.hypot(px - (ax + t * dx), py - (ay + t * dy))


def flatten_cubic(p0, p1, p2, p3, tol=0.01):
    out = [p0]
    _flat(p0, p1, p2, p3, tol, out)
    return out


def flatten_quad(p0, p1, p2, tol=0.01):
    c1 = (p0[0] + 2.0 / 3 * (p1[0] - p0[0]), p0[1] + 2.0 / 3 * (p1[1] - p0[1]))
    c2 = (p2[0] + 2.0 / 3 * (p1[0] - p2[0]), p2[1] + 2.0 / 3 * (p1[1] - p2[1]))
    return flatten_cubic(p0, c1, c2, p2, tol)


def poly_dist(pts, poly):
    """max over pts of distance to polyline poly."""
    worst = 0.0
    for p in pts:
        best = None
        for i in range(len(poly) - 1):
            d = _pt_seg(p, poly[i], poly[i + 1])
            if best is None or d < best:
                best = d
                if best == 0:
                    break
        if len(poly) == 1:
            best = math.hypot(p[0] - poly[0][0], p[1] - poly[0][1])
        if best is not None and best > worst:
            worst = best
    return worst


def _cubic_at(p0, p1, p2, p3, t):
    u = 1 - t
    a, b, c, d = u * u * u, 3 * u * u * t, 3 * u * t * t, t * t * t
    return (a * p0[0] + b * p1[0] + c * p2[0] + d * p3[0],
            a * p0[1] + b * p1[1] + c * p2[1] + d * p3[1])


def _quad_at(p0, p1, p2, t):
    u = 1 - t
    return (u * u * p0[0] + 2 * u * t * p1[0] + t * t * p2[0],
            u * u * p0[1] + 2 * u * t * p1[1] + t * t * p2[1])


def cubic_vs_quads(p0, c1, c2, p3, run_start, run, nsamp=33, tol=0.03):
    """Two-sided distance between a source cubic (floats) and a run of output quadratic segments
    [('q', off, end, ...)] starting at run_start: `nsamp` points sampled on each curve, measured
    against the other curve flattened to a chord error <= tol (so the value under-estimates the
    true Hausdorff distance by at most the sampling gap and over-estimates by at most tol)."""
    fp = lambda p: (float(p[0]), float(p[1]))  # noqa: E731
    P0, C1, C2, P3 = fp(p0), fp(c1), fp(c2), fp(p3)
    cub_poly = flatten_cubic(P0, C1, C2, P3, tol)
    cub_samples = [_cubic_at(P0, C1, C2, P3, i / (nsamp - 1.0)) for i in range(nsamp)]
    poly = [fp(run_start)]
    samples = []
    cur = fp(run_start)
    per = max(3, nsamp // max(1, len(run)))
    for s in run:
        if s[0] == "q":
            o, e = fp(s[1]), fp(s[2])
            seg = flatten_quad(cur, o, e, tol)
            samples.extend(_quad_at(cur, o, e, i / float(per)) for i in range(per + 1))
        elif s[0] == "l":
            seg = [cur, fp(s[1])]
            samples.extend(seg)
        else:
            seg = flatten_cubic(cur, fp(s[1]), fp(s[2]), fp(s[3]), tol)
            samples.extend(seg)
        poly.extend(seg[1:])
        cur = poly[-1]
    return max(poly_dist(cub_samples, poly), poly_dist(samples, cub_poly))


# ---------------------------------------------------------------- structural matcher

def _eq_on(exp_pt, got_pt, explicit, rnd, slack):
    ex, ey = rnd(exp_pt[0]), rnd(exp_pt[1])
    if explicit:
        return _in(ex, got_pt[0]) and _in(ey, got_pt[1])
    # implied on-curve point: midpoint of two rounded off-curves vs the rounded true midpoint
    return (min(abs(float(c) - got_pt[0]) for c in ex) <= slack and
            min(abs(float(c) - got_pt[1]) for c in ey) <= slack)


def _in(choices, v):
    return any(c == v for c in choices)


def match_contour(exp, got, rnd=None, allow_dropped=False, cubic_ok=False, max_run=40,
                  accept=None):
    """exp = (start, segs) expected cycle (exact rationals, 'l' | 'Q' | 'c'),
    got = (start, segs, start_explicit) from out_segments.
    Returns None when no alignment exists, else a list of (exp_cubic_segment_start, exp_seg,
    got_run_start, got_run) for the distance check.  rnd(v) -> tuple of admissible integers.
    accept(ecur, eseg, gcur, run) -> bool, optional: a run of quadratic segments is taken for a
    cubic only if it is accepted (used to choose between several structurally possible
    segmentations, e.g. when an implied on-curve point lies within the slack of the cubic's end
    point just before the real, explicit one)."""
    rnd = rnd or R.round_choices
    estart, esegs = exp
    gstart, gsegs, gexplicit = got
    n = len(gsegs)
    slack = 1.0 if allow_dropped else 0.0
    if estart is None:
        # all-off-curve expected contour: output must be all-off too with the same off points
        offs = esegs[0][1:-1]
        if gexplicit:
            return None
        goffs = [s[1] for s in gsegs]
        if len(goffs) != len(offs):
            return None
        m = len(offs)
        for k in range(m):
            if all(_in(rnd(offs[i][0]), goffs[(i + k) % m][0]) and
                   _in(rnd(offs[i][1]), goffs[(i + k) % m][1]) for i in range(m)):
                return []
        return None
    if not esegs:
        # single point contour
        if n == 0 or all(s[-1 if s[0] != "q" else 2] == gstart for s in gsegs):
            return [] if _eq_on(estart, gstart, True, rnd, 0) else None
        return None
    # candidate rotations: output on-curve points (explicit or implied) equal to expected start
    ends = [gstart] + [(s[2] if s[0] == "q" else s[-1]) for s in gsegs]
    expl = [gexplicit] + [(s[3] if s[0] == "q" else True) for s in gsegs]
    for k in range(n):
        if not (expl[k] or allow_dropped):
            continue
        if not _eq_on(estart, ends[k], expl[k], rnd, slack):
            continue
        rot = gsegs[k:] + gsegs[:k]
        res = _match_from(esegs, 0, rot, 0, ends[k], estart, rnd, slack, allow_dropped,
                          cubic_ok, max_run, [20000], accept)
        if res is not None:
            return res
    return None


def _end(s):
    return s[2] if s[0] == "q" else s[-1]


def _explicit(s):
    return s[3] if s[0] == "q" else True


def _match_from(esegs, ei, gsegs, gi, gcur, ecur, rnd, slack, allow_dropped, cubic_ok, max_run,
                budget, accept=None):
    budget[0] -= 1
    if budget[0] <= 0:
        return None
    if ei == len(esegs):
        return [] if gi == len(gsegs) else None
    e = esegs[ei]
    if e[0] == "l":
        if gi < len(gsegs) and gsegs[gi][0] == "l" and _eq_on(e[1], gsegs[gi][1], True, rnd, 0):
            return _match_from(esegs, ei + 1, gsegs, gi + 1, gsegs[gi][1], e[1], rnd, slack,
                               allow_dropped, cubic_ok, max_run, budget, accept)
        return None
    if e[0] == "Q":
        offs = e[1:-1]
        k = len(offs)
        if gi + k > len(gsegs):
            return None
        run = gsegs[gi:gi + k]
        for i, s in enumerate(run):
            if s[0] != "q":
                return None
            if not (_in(rnd(offs[i][0]), s[1][0]) and _in(rnd(offs[i][1]), s[1][1])):
                return None
            last = i == k - 1
            if not last and s[3]:
                # an explicit on-curve point where the source had an implied one: admissible only
                # if it IS the implied midpoint (not generated by ufo2ft; treat as mismatch)
                return None
            if last:
                if s[3]:
                    if not _eq_on(e[-1], s[2], True, rnd, 0):
                        return None
                else:
                    if not allow_dropped or not _eq_on(e[-1], s[2], False, rnd, slack):
                        return None
        return _match_from(esegs, ei + 1, gsegs, gi + k, _end(run[-1]), e[-1], rnd, slack,
                           allow_dropped, cubic_ok, max_run, budget, accept)
    # cubic
    if cubic_ok and gi < len(gsegs) and gsegs[gi][0] == "c":
        s = gsegs[gi]
        if (all(_in(rnd(e[j][0]), s[j][0]) and _in(rnd(e[j][1]), s[j][1]) for j in (1, 2)) and
                _eq_on(e[3], s[3], True, rnd, 0)):
            r = _match_from(esegs, ei + 1, gsegs, gi + 1, s[3], e[3], rnd, slack, allow_dropped,
                            cubic_ok, max_run, budget, accept)
            if r is not None:
                return r
    # run of quadratic segments ending at the rounded end point
    j = gi
    while j < len(gsegs) and j - gi < max_run and gsegs[j][0] == "q":
        s = gsegs[j]
        if (s[3] or allow_dropped) and _eq_on(e[3], s[2], s[3], rnd, slack):
            r = _match_from(esegs, ei + 1, gsegs, j + 1, s[2], e[3], rnd, slack, allow_dropped,
                            cubic_ok, max_run, budget, accept)
            if r is not None and (accept is None or accept(ecur, e, gcur, gsegs[gi:j + 1])):
                return [(ecur, e, gcur, gsegs[gi:j + 1])] + r
        j += 1
    # degenerate cubic drawn as a straight line
    if gi < len(gsegs) and gsegs[gi][0] == "l" and _eq_on(e[3], gsegs[gi][1], True, rnd, 0):
        r = _match_from(esegs, ei + 1, gsegs, gi + 1, gsegs[gi][1], e[3], rnd, slack,
                        allow_dropped, cubic_ok, max_run, budget, accept)
        if r is not None:
            return [(ecur, e, gcur, gsegs[gi:gi + 1])] + r
    return None
