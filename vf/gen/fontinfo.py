"""Seeded generator of UFO3 font-info dictionaries: random subsets of the attributes with values
from their spec-valid ranges (strings over all Unicode planes that a property list can hold,
integral / fractional / negative numbers where the specification allows them, bit lists, name
records, gasp records).  Returns plain JSON-serialisable dicts."""
import math
import unicodedata

from vf.ref.info import is_ps_hazard_char, ps_char_ok, xml_char_ok

ASCII_WORDS = ["Sans", "Serif", "Mono", "Grotesk", "Text", "Display", "Neue", "Pro", "No.5",
               "A", "x", "Roman_2", "Caps&Co", "it's", "a+b=c", "100%", "(c)", "[v2]", "{x}",
               "<b>", "A/B", "#1", "~tilde~", "semi;colon", "back\\slash", "quo\"te", "q?"]
LATIN1 = "\u00c0\u00c9\u00ce\u00d5\u00dc\u00df\u00e0\u00e9\u00ee\u00f5\u00fc\u00ff\u00e7\u00f1\u00f8\u00e5\u00c6\u00e6\u00d0\u00fe\u00a1\u00bf\u00ab\u00bb\u00b0\u00b1\u00b2\u00b3\u00b9\u00b5\u00b6\u00b7\u00bc\u00bd\u00be\u00d7\u00f7\u00a9\u00ae\u00aa\u00ba\u00a2\u00a3\u00a5\u00a7"
BMP = ("\u0100\u0103\u0118\u0142\u0143\u0151\u0160\u017e\u0192\u01c5"      # Latin extended
       "\u0391\u0392\u0393\u03b1\u03b2\u03b3\u03b4\u03a9"                  # Greek
       "\u0411\u0413\u0414\u0416\u044f\u044e\u044d"                        # Cyrillic
       "\u05d0\u05d1\u05d2\u05d3" "\u0627\u0628\u062c\u062f\u0647\u0648"    # Hebrew, Arabic
       "\u0915\u0916\u0917\u0918" "\u0e01\u0e02\u0e04"                      # Devanagari, Thai
       "\u3042\u3044\u3046\u30a2\u30a4\u30a6" "\u65e5\u672c\u8a9e\u6f22\u5b57" "\ud55c\uae00"
       "\ufb01\ufb02\ufb00" "\uff21\uff22\uff43\uff11\uff12"               # ligatures, fullwidth
       "\u2122\u2120\u2116\u2103\u2126" "\u2070\u2074\u2081\u2082" "\u2460\u2461"
       "\u2026\u2013\u2014\u2018\u2019\u201c\u201d\u2022"
       "\u0301\u0308\u0327" "\u200b\u200d\ufeff" "\ue000\uf8ff" "\ufffd" "\u01f0\u1e9b")
ASTRAL = ["\U0001d509", "\U0001d56c", "\U0001f600", "\U0001f468\u200d\U0001f469", "\U00020000",
          "\U0002f800", "\U000e0041", "\U000f0000", "\U0010fffd", "\U00010330", "\U0001e900",
          "\U0001d7ce", "\U0001f1e9\U0001f1ea"]
# XML-representable characters whose NFKD decomposition brings in an ASCII character that is not
# allowed in a PostScript name (mechanism psname_forbidden_after_nfkd)
HAZARD_CHARS = ["\t", "\n", "\r", "\x7f", "\u00a0", "\u2000", "\u2003", "\u2009", "\u202f",
                "\u205f", "\u3000", "\u00a8", "\u00af", "\u00b4", "\u00b8", "\u02d8", "\u2017",
                "\u207d", "\u207e", "\u208d", "\u2100", "\u2101", "\u2105", "\u2474", "\u249c",
                "\ufe59", "\ufe5b", "\uff08", "\uff0f", "\uff1c", "\uff3b", "\uff5b", "\uff05",
                "\u3200", "\U0001f110"]


def _rand_scalar(rng):
    while True:
        plane = rng.choice([0, 0, 0, 1, 1, 2, 3, 14, 15, 16])
        cp = plane * 0x10000 + rng.randrange(0x10000)
        if 0xD800 <= cp <= 0xDFFF or cp > 0x10FFFF:
            continue
        c = chr(cp)
        if xml_char_ok(c):
            return c


def rand_string(rng, mode=None, maxlen=12, name_safe=False):
    """mode: ascii | latin1 | any.  name_safe removes the characters that trigger the
    PostScript-name mechanism and leading/trailing blanks (default stratum for names)."""
    mode = mode or rng.choice(["ascii", "ascii", "latin1", "any", "any", "any"])
    n = rng.choice([1, 1, 2, 3, 4, 6, maxlen])
    parts = []
    for _ in range(n):
        r = rng.random()
        if mode == "ascii" or r < 0.35:
            parts.append(rng.choice(ASCII_WORDS))
        elif mode == "latin1" or r < 0.5:
            parts.append("".join(rng.choice(LATIN1) for _ in range(rng.randint(1, 4))))
        elif r < 0.75:
            parts.append("".join(rng.choice(BMP) for _ in range(rng.randint(1, 4))))
        elif r < 0.9:
            parts.append(rng.choice(ASTRAL))
        else:
            parts.append("".join(_rand_scalar(rng) for _ in range(rng.randint(1, 3))))
    sep = rng.choice([" ", " ", "", "-", "  "])
    s = sep.join(parts)
    if mode == "ascii":
        s = "".join(c for c in s if 32 <= ord(c) <= 126)
    elif mode == "latin1":
        s = "".join(c for c in s if 32 <= ord(c) <= 255 and not 127 <= ord(c) <= 159)
    if name_safe:
        s = "".join(c for c in s if not is_ps_hazard_char(c)).strip()
    return s or "X"


def ps_name(rng):
    alphabet = [chr(i) for i in range(33, 127) if ps_char_ok(chr(i))]
    n = rng.choice([1, 5, 12, 20, 29, 63])
    s = "".join(rng.choice(alphabet) for _ in range(n))
    if rng.random() < 0.6:
        s = rng.choice(["Foo", "MyFont", "A", "x-y"]) + "-" + rng.choice(["Regular", "BoldItalic", "It"])
    return s[:63]


STYLE_NAMES = ["Regular", "Bold", "Italic", "Bold Italic", "bold", "ITALIC", "Bold italic",
               "regular", "Black", "Light", "Condensed Thin", "Medium Italic", "Book", "R"]


def _num(rng, lo, hi, frac_ok):
    """integral / fractional / boundary values in [lo, hi]"""
    r = rng.random()
    if r < 0.08:
        return rng.choice([lo, hi])
    v = rng.randint(lo, hi)
    if frac_ok and r < 0.45:
        f = rng.choice([0.5, 0.5, 0.25, 0.75, 0.125, 0.49, 0.51, round(rng.random(), 3)])
        v = v + f if v + f <= hi else v - f
        return float(v)
    if r > 0.97:
        return 0
    return v


def _bits(rng, options, maxn=None):
    k = rng.choice([0, 1, 1, 2, 3, len(options)]) if maxn is None else rng.randint(0, maxn)
    k = min(k, len(options))
    out = rng.sample(options, k)
    if rng.random() < 0.15 and out:
        out.append(out[0])          # duplicates are harmless in a bit list
    if rng.random() < 0.5:
        out.sort()
    return out


def _sorted_pairs(rng, npairs, lo, hi, frac):
    vals = sorted(rng.sample(range(lo, hi, 2), 2 * npairs))
    if frac:
        vals = [v + rng.choice([0, 0, 0.5, 0.25]) for v in vals]
        vals = sorted(vals)
    return vals


def _date(rng):
    y = rng.choice([1904, 1970, 1999, 2000, 2024, 2038, 2100, rng.randint(1904, 2200)])
    return "%04d/%02d/%02d %02d:%02d:%02d" % (y, rng.randint(1, 12), rng.randint(1, 28),
                                              rng.randint(0, 23), rng.randint(0, 59),
                                              rng.randint(0, 59))


def name_records(rng, variable=False):
    out = []
    for _ in range(rng.choice([1, 1, 2, 3])):
        nid = rng.choice([0, 1, 2, 4, 7, 9, 10, 13, 19, 20, 23, 24, 25] if variable
                         else [0, 1, 2, 4, 7, 9, 10, 13, 19, 20, 23, 24, 25, 256, 300, 32767])
        kind = rng.choice(["win", "win", "winlang", "mac", "uni", "win10"])
        if kind == "win":
            rec = (3, 1, 0x409, rand_string(rng))
        elif kind == "winlang":
            rec = (3, 1, rng.choice([0x407, 0x40C, 0x411, 0x804]), rand_string(rng))
        elif kind == "win10":
            rec = (3, 10, 0x409, rand_string(rng) + rng.choice(ASTRAL))
        elif kind == "mac":
            rec = (1, 0, 0, rand_string(rng, "ascii") + rng.choice(["", "é", "ü", "©"]))
        else:
            rec = (0, rng.choice([3, 4]), 0, rand_string(rng))
        out.append({"nameID": nid, "platformID": rec[0], "encodingID": rec[1],
                    "languageID": rec[2], "string": rec[3]})
    return out


def gen_info(rng, cff_strings=False, name_hazard=False, cff_unencodable=False, density=None,
             variable=False):
    """One font-info dict.
    cff_strings: the font will be compiled to a static CFF font: strings that are copied into the
      CFF top dict stay within what that format can encode (Latin-1 resp. ASCII) unless
      cff_unencodable is set (dedicated stratum).
    name_hazard: put PostScript-hazard characters into the names the PostScript name is
      generated from (dedicated stratum); otherwise those names are free of them."""
    if density is None:
        density = rng.choice([0.0, 0.05, 0.15, 0.3, 0.5, 0.75, 1.0])

    def want(p=1.0):
        return rng.random() < density * p

    info = {}
    # ----------------------------------------------------------------- names
    def fam_string():
        mode = None
        if cff_strings:
            mode = rng.choice(["ascii", "latin1", "latin1"])
        return rand_string(rng, mode, name_safe=True)

    if rng.random() < max(density, 0.5):
        info["familyName"] = fam_string()
    if rng.random() < max(density, 0.5):
        r = rng.random()
        info["styleName"] = rng.choice(STYLE_NAMES) if r < 0.75 else fam_string()
    if want(0.6):
        info["openTypeNamePreferredFamilyName"] = (
            info.get("familyName", "New Font") if rng.random() < 0.3 else fam_string())
    if want(0.6):
        info["openTypeNamePreferredSubfamilyName"] = (
            rng.choice(STYLE_NAMES) if rng.random() < 0.7 else fam_string())
    if want(0.6):
        info["styleMapFamilyName"] = rand_string(rng)
    if want(0.6):
        info["styleMapStyleName"] = rng.choice(["regular", "bold", "italic", "bold italic"])
    if want(0.7):
        info["postscriptFontName"] = ps_name(rng)
    if want():
        info["postscriptFullName"] = fam_string() if cff_strings else rand_string(rng)
    if want():
        info["postscriptWeightName"] = (rand_string(rng, "ascii") if cff_strings
                                        else rand_string(rng))
    for attr in ("copyright", "trademark", "openTypeNameDesigner", "openTypeNameDesignerURL",
                 "openTypeNameManufacturer", "openTypeNameManufacturerURL",
                 "openTypeNameLicense", "openTypeNameLicenseURL", "openTypeNameDescription",
                 "openTypeNameCompatibleFullName", "openTypeNameSampleText",
                 "openTypeNameWWSFamilyName", "openTypeNameWWSSubfamilyName",
                 "openTypeNameUniqueID", "note", "macintoshFONDName"):
        if want(0.8):
            s = rand_string(rng, maxlen=20)
            if attr in ("copyright", "trademark"):
                s = rng.choice(["© ", "Copyright (c) ", "", "™ ", ""]) + s
                if cff_strings:
                    # these are normalised for the CFF top dict: keep the hazard characters of
                    # the PostScript-name mechanism out of the default stratum
                    s = "".join(c for c in s if not is_ps_hazard_char(c)) or "c"
            info[attr] = s
    if want(0.5):
        info["openTypeNameVersion"] = rng.choice(
            ["Version 1.000", "Version 2.5;hotconv", "1.2", "Version Version 3", "vérsion 4",
             rand_string(rng)])
    if want(0.4):
        info["openTypeNameRecords"] = name_records(rng, variable)
    if name_hazard:
        tgt = rng.choice(["familyName", "styleName", "openTypeNamePreferredFamilyName"])
        base = info.get(tgt) or "Haz"
        k = rng.randrange(len(base) + 1)
        pool = [c for c in HAZARD_CHARS if ord(c) <= 0xFF] if cff_strings else HAZARD_CHARS
        info[tgt] = base[:k] + rng.choice(pool) + base[k:]
        if tgt == "familyName":
            info.pop("openTypeNamePreferredFamilyName", None)
        if tgt == "styleName":
            info.pop("openTypeNamePreferredSubfamilyName", None)
        info.pop("postscriptFontName", None)
    if cff_unencodable:
        tgt = rng.choice(["familyName", "openTypeNamePreferredFamilyName", "styleName",
                          "postscriptFullName", "postscriptWeightName"])
        if tgt == "familyName":
            info.pop("openTypeNamePreferredFamilyName", None)
        if tgt == "styleName":
            info.pop("openTypeNamePreferredSubfamilyName", None)
            info.pop("postscriptFullName", None)
        extra = rng.choice(BMP[:60]) if tgt != "postscriptWeightName" else rng.choice(LATIN1[:20])
        if rng.random() < 0.3:
            extra = rng.choice(ASTRAL[:3])
        info[tgt] = (info.get(tgt) or "N") + extra
    # ----------------------------------------------------------------- generic numbers
    if want(1.2):
        r = rng.random()
        if r < 0.05:
            info["unitsPerEm"] = rng.choice([1000.5, 2048.25, 999.75, 512.5])
        else:
            info["unitsPerEm"] = rng.choice([1000, 1000, 2048, 16, 16384, 250, 1001, 2000, 999,
                                             1024, 2005, rng.randint(16, 16384)])
    upm = info.get("unitsPerEm", 1000)
    U = int(upm)
    if want():
        info["versionMajor"] = rng.choice([0, 1, 1, 2, 3, 10, 100, rng.randint(0, 32767)])
    if want():
        info["versionMinor"] = rng.choice([0, 1, 5, 10, 100, 999, rng.randint(0, 999)])
    if want():
        info["year"] = rng.randint(1900, 2100)
    if want():
        info["ascender"] = _num(rng, 0, min(16000, int(1.5 * U)), True)
    if want():
        info["descender"] = _num(rng, -min(8000, U), 0, True)
    if want():
        info["xHeight"] = _num(rng, 0, min(16000, int(1.2 * U)), True)
    if want():
        info["capHeight"] = _num(rng, 0, min(16000, int(1.5 * U)), True)
    if want():
        info["italicAngle"] = rng.choice([0, 0, 0.0, -12, 12.5, -9.75, 8, -0.5, 30, -45,
                                          round(rng.uniform(-40, 40), rng.choice([1, 3, 6]))])
    # ----------------------------------------------------------------- head
    if want(0.7):
        info["openTypeHeadCreated"] = _date(rng)
    if want():
        info["openTypeHeadLowestRecPPEM"] = rng.choice([0, 6, 8, 9, 12, 65535, rng.randint(0, 200)])
    if want():
        info["openTypeHeadFlags"] = _bits(rng, list(range(15)))
    # ----------------------------------------------------------------- OS/2 + hhea metrics
    a_eff = info.get("ascender", math.floor(0.8 * upm + 0.5))
    if want():
        info["openTypeOS2TypoLineGap"] = rng.choice(
            [0, 0, 90, 200, rng.randint(-min(int(a_eff), 300), 3000)])
    big = 32767
    for attr in ("openTypeHheaAscender", "openTypeOS2TypoAscender"):
        if want():
            info[attr] = int(_num(rng, -200, min(big, 3 * U), False))
    for attr in ("openTypeHheaDescender", "openTypeOS2TypoDescender"):
        if want():
            info[attr] = int(_num(rng, -min(big, 2 * U), 200, False))
    if want():
        info["openTypeHheaLineGap"] = int(_num(rng, -big - 1, big, False)) if rng.random() < 0.2 \
            else rng.randint(0, U)
    if want():
        info["openTypeHheaCaretOffset"] = rng.choice([0, 10, -10, -big - 1, big,
                                                      rng.randint(-500, 500)])
    if want():
        info["openTypeHheaCaretSlopeRise"] = rng.choice([1, U, 1000, 2048, rng.randint(1, 10000),
                                                         -rng.randint(1, 1000)])
    if want():
        info["openTypeHheaCaretSlopeRun"] = rng.choice([0, 1, 176, 213, rng.randint(-3000, 3000)])
    for attr in ("openTypeOS2WinAscent", "openTypeOS2WinDescent"):
        if want():
            info[attr] = int(_num(rng, 0, min(65535, 4 * U), False)) if rng.random() < 0.9 \
                else 65535
    if want():
        info["openTypeOS2WeightClass"] = rng.choice([100, 250, 400, 700, 900, 1, 1000,
                                                     rng.randint(1, 1000)])
    if want():
        info["openTypeOS2WidthClass"] = rng.randint(1, 9)
    if want():
        info["openTypeOS2Selection"] = _bits(rng, [1, 2, 3, 4, 7, 8, 9])
    if want():
        info["openTypeOS2Type"] = _bits(rng, [rng.choice([1, 2, 3]), 8, 9], 3) \
            if rng.random() < 0.8 else rng.choice([[], [0], [2], [3, 8, 9]])
    if want():
        info["openTypeOS2VendorID"] = rng.choice(
            ["ADBE", "GOOG", "NONE", "ab", "x", "A B", "a1!?", "XYZ", "    ",
             "".join(chr(rng.randint(33, 126)) for _ in range(rng.randint(1, 4)))])
    if want():
        info["openTypeOS2Panose"] = [rng.choice([0, 0, 2, rng.randint(0, 15), rng.randint(0, 255)])
                                     for _ in range(10)]
    if want():
        info["openTypeOS2FamilyClass"] = [rng.randint(0, 14), rng.randint(0, 15)]
    if want():
        info["openTypeOS2UnicodeRanges"] = _bits(rng, list(range(128)))
    if want():
        info["openTypeOS2CodePageRanges"] = _bits(rng, list(range(64)))
    for nm in ("SubscriptXSize", "SubscriptYSize", "SuperscriptXSize", "SuperscriptYSize"):
        if want(0.8):
            info["openTypeOS2" + nm] = int(_num(rng, 0, min(big, 2 * U), False))
    for nm in ("SubscriptXOffset", "SubscriptYOffset", "SuperscriptXOffset",
               "SuperscriptYOffset", "StrikeoutPosition"):
        if want(0.8):
            info["openTypeOS2" + nm] = int(_num(rng, -min(big, U), min(big, U), False))
    if want(0.8):
        info["openTypeOS2StrikeoutSize"] = int(_num(rng, 0, min(big, U), False))
    # ----------------------------------------------------------------- vhea
    if rng.random() < density * 0.6:
        info["openTypeVheaVertTypoAscender"] = rng.randint(-200, U)
        info["openTypeVheaVertTypoDescender"] = rng.randint(-U, 200)
        info["openTypeVheaVertTypoLineGap"] = rng.randint(0, U)
    else:
        # an incomplete set (no vhea is built then)
        for nm in ("Ascender", "Descender"):
            if want(0.3):
                info["openTypeVheaVertTypo" + nm] = rng.randint(-U, U)
    for nm in ("CaretSlopeRise", "CaretSlopeRun", "CaretOffset"):
        if want(0.7):
            info["openTypeVhea" + nm] = rng.choice([0, 1, -1, rng.randint(-1000, 1000)])
    # ----------------------------------------------------------------- gasp
    if want(0.6):
        ppems = sorted(rng.sample(range(1, 200), rng.randint(0, 3))) + [65535]
        info["openTypeGaspRangeRecords"] = [
            {"rangeMaxPPEM": p, "rangeGaspBehavior": _bits(rng, [0, 1, 2, 3], 4)} for p in ppems]
    # ----------------------------------------------------------------- postscript
    if want():
        info["postscriptUnderlinePosition"] = _num(rng, -min(big, U), min(big, U) // 2, True)
    if want():
        info["postscriptUnderlineThickness"] = _num(rng, 0, min(big, U), True)
    if want():
        info["postscriptIsFixedPitch"] = rng.random() < 0.5
    if want():
        info["postscriptSlantAngle"] = rng.choice([0, -12.5, 10])
    if want(0.5):
        info["postscriptUniqueID"] = rng.randint(0, 16777215)
    if want(0.7):
        info["postscriptBlueValues"] = _sorted_pairs(rng, rng.randint(0, 7), -300, 1500,
                                                     rng.random() < 0.4)
    if want(0.7):
        info["postscriptOtherBlues"] = _sorted_pairs(rng, rng.randint(0, 5), -800, -20,
                                                     rng.random() < 0.4)
    if want(0.5):
        info["postscriptFamilyBlues"] = _sorted_pairs(rng, rng.randint(0, 7), -300, 1500, False)
    if want(0.5):
        info["postscriptFamilyOtherBlues"] = _sorted_pairs(rng, rng.randint(0, 5), -800, -20, False)
    if want(0.7):
        info["postscriptStemSnapH"] = sorted(
            v + rng.choice([0, 0, 0.5]) for v in rng.sample(range(10, 400, 2), rng.randint(0, 12)))
    if want(0.7):
        info["postscriptStemSnapV"] = sorted(
            v + rng.choice([0, 0, 0.5]) for v in rng.sample(range(10, 400, 2), rng.randint(0, 12)))
    if want(0.6):
        info["postscriptBlueFuzz"] = rng.choice([0, 1, 2, 1.5, 0.5, 3])
    if want(0.6):
        info["postscriptBlueShift"] = rng.choice([7, 5, 6.5, 0, 10, 3.25])
    if want(0.6):
        info["postscriptBlueScale"] = rng.choice([0.039625, 0.0375, 0.025, 0.05,
                                                  round(rng.uniform(0.01, 0.08), 6)])
    if want(0.6):
        info["postscriptForceBold"] = rng.random() < 0.5
    if want(0.4):
        info["postscriptDefaultWidthX"] = rng.choice([0, 200, 500, 600.5, rng.randint(0, 2000)])
    if want(0.4):
        info["postscriptNominalWidthX"] = rng.choice([0, 200, 500, 600.5, rng.randint(0, 2000)])
    if want(0.5):
        info["postscriptDefaultCharacter"] = rng.choice(["a", "space", ".notdef", "nonexistent"])
    if want(0.5):
        info["postscriptWindowsCharacterSet"] = rng.randint(1, 20)
    if want(0.5):
        info["macintoshFONDFamilyID"] = rng.randint(0, 32767)
    # ----------------------------------------------------------------- woff (no sfnt destination)
    if want(0.4):
        info["woffMajorVersion"] = rng.randint(0, 10)
    if want(0.4):
        info["woffMinorVersion"] = rng.randint(0, 10)
    if want(0.3):
        info["woffMetadataUniqueID"] = {"id": rand_string(rng)}
    if want(0.3):
        info["woffMetadataVendor"] = {"name": rand_string(rng), "url": "http://example.com"}
    if want(0.3):
        info["woffMetadataDescription"] = {"text": [{"text": rand_string(rng), "language": "en"}]}
    if want(0.3):
        info["woffMetadataCopyright"] = {"text": [{"text": rand_string(rng)}]}
    _keep_derived_in_range(info)
    return info


def _keep_derived_in_range(info):
    """Stated bound of the generator: explicit values are chosen so that every *derived* value
    still fits its sfnt field (a caret slope computed from the other one and the italic angle
    must fit int16).  Explicit values themselves are never touched beyond their field range."""
    ang = info.get("italicAngle", 0)
    if ang:
        t = math.tan(math.radians(-ang))
        run = info.get("openTypeHheaCaretSlopeRun")
        rise = info.get("openTypeHheaCaretSlopeRise")
        if run is not None and rise is None and (t == 0 or abs(run / t) > 30000):
            del info["openTypeHheaCaretSlopeRun"]
        if rise is not None and run is None and abs(t * rise) > 30000:
            del info["openTypeHheaCaretSlopeRise"]
        upm = info.get("unitsPerEm", 1000)
        if rise is None and run is None and abs(t * upm) > 30000:
            info["italicAngle"] = 0
    upm = info.get("unitsPerEm", 1000)
    a = info.get("ascender", math.floor(0.8 * upm + 0.5))
    d = info.get("descender", -math.floor(0.2 * upm + 0.5))
    gap = info.get("openTypeOS2TypoLineGap")
    if gap is None:
        gap = max(int(upm * 1.2) - a + d, 0)
    if not (0 <= a + gap <= 32000):
        info["openTypeOS2TypoLineGap"] = 0
        if not (0 <= a <= 32000):
            info["ascender"] = 800


RANGE_KEYS = ("italicAngle", "openTypeHheaCaretSlopeRun", "openTypeHheaCaretSlopeRise",
              "openTypeOS2TypoLineGap", "ascender", "descender")


def gen_overrides(rng, base_info, cff_strings=False):
    """designspace lib 'public.fontInfo': a second draw, restricted to a random subset of keys;
    unitsPerEm is never overridden (the outlines are already compiled)."""
    other = gen_info(rng, cff_strings=cff_strings, density=rng.choice([0.15, 0.3, 0.6, 1.0]),
                     variable=True)
    other.pop("unitsPerEm", None)
    keys = sorted(other)
    rng.shuffle(keys)
    k = rng.choice([1, 2, 3, 5, 8, len(keys)])
    ov = {key: other[key] for key in keys[:k]}
    merged = dict(base_info)
    merged.update(ov)
    test = dict(merged)
    _keep_derived_in_range(test)
    if test != merged:
        # keep the base font's (in-range) values for everything a derived field depends on
        for key in RANGE_KEYS:
            ov.pop(key, None)
    return ov
