"""C16 - any valid font info compiles; explicit values win, absent ones fall back.

Run: (a) exhaustive: the real PostScript-name fallback (getAttrWithFallback(info,
"postscriptFontName") with a 1-character family name) and normalizeStringForPostscript for EVERY
Unicode scalar value, sharded over fresh interpreters, plus a full compile (TTF and OTF, save,
reload) for representatives of every distinct outcome class; (b) sampled: random subsets of the
UFO3 font-info attributes with spec-valid values x compileTTF/compileOTF x defcon/ufoLib2, and a
stratum of 2-master variable fonts (compileVariableTTF / compileVariableCFF2) whose designspace
lib carries "public.fontInfo" overrides -> save -> reload.
Observe: reloaded name records, head, hhea, vhea, OS/2, post, gasp, CFF top + private dict.
Oracle: vf/ref/info.py (R-info): explicit value -> destination field (otround for integral
fields, bit lists -> masks, strings as given); absent -> documented fallback; generated PostScript
name within printable ASCII minus blanks and delimiters.
"""
import io
import json
import os
import struct
import subprocess
import sys
import time
import traceback
import unicodedata

import vf  # noqa: F401
from vf.build import build_designspace, build_ufo
from vf.gen import fontinfo as G
from vf.ref import info as RI

ID = "C16"
RULE = ("sampled case = seeded random subset (density 0..1) of the UFO3 font-info attributes with "
        "spec-valid values (strings over all planes a property list can hold, integral/fractional/"
        "negative numbers, bit lists, name and gasp records) x {compileTTF, compileOTF} x {defcon, "
        "ufoLib2} x optimizeCFF, ~10% two-master variable fonts with designspace-lib "
        "'public.fontInfo' overrides; exhaustive part = every Unicode scalar value as a 1-character "
        "family name through the real PostScript-name fallback; distinct = sha1 of the case; "
        "non-trivial = the font compiled, saved, reloaded and at least one explicitly set and one "
        "absent attribute were compared with R-info")
ASSUMPTIONS = [
    "fontTools' readers (TTFont load, name.toUnicode, cffLib) report what is stored",
    "spec-valid strings = characters an XML property list can hold (no C0 controls except "
    "TAB/LF/CR, no U+FFFE/FFFF, no surrogates) in the sampled part; the exhaustive sweep covers "
    "all 1 112 064 scalar values",
    "explicit postscriptFontName values are valid PostScript names (<= 63 characters of 33..126 "
    "minus []{}<>()/%); versionMinor <= 999; 16 <= unitsPerEm <= 16384; |italicAngle| <= 45; "
    "ascender >= 0 >= descender; explicit values fit their sfnt field and are chosen so that "
    "every DERIVED fallback also fits (ascender + typoLineGap within uint16/int16, caret slopes "
    "derived through tan(italicAngle) within int16)",
    "fallbacks that multiply unitsPerEm by a decimal constant accept both neighbours at an exact "
    "rounding tie; where the documentation leaves a choice open (UPM*1.2 truncated first or not, "
    "stripped or unstripped name concatenations, superscript size = subscript size or 0.65/0.6 "
    "UPM, 'Version ' stripped from the unique ID or not, name ID 4 = preferred names or "
    "postscriptFullName) every reading is admissible",
    "CFF Notice/Copyright: the given string, or the given string with (c)-sign spelled out, "
    "reduced to ASCII and/or without the PostScript delimiters []{}<>()/% is admissible; "
    "FullName/FamilyName/Weight with non-ASCII characters may be stored as given (Latin-1) or "
    "as an ASCII reduction",
    "typographic names (16/17) may be omitted individually where they repeat name ID 1 resp. 2",
    "head.created is read from the stored bytes (fontTools' reader folds dates outside 1970..2040); "
    "head.flags bit 1 is recomputed from the glyph data by the TrueType writer and is masked for "
    "glyf flavours; in variable fonts with a registered 'wght' axis usWeightClass may equal the "
    "axis default (varLib enforces the OpenType rule) - half of the variable cases use an "
    "unregistered axis tag where the comparison is strict",
    "NOT CHECKED (no destination in the listed tables / destination not determined by the "
    "statement): year, note, macintoshFOND*, postscriptUniqueID, postscriptSlantAngle, "
    "postscriptDefaultCharacter, postscriptWindowsCharacterSet, postscriptDefaultWidthX/"
    "NominalWidthX (subroutiniser recomputes them), woff* (generated, compile must still "
    "succeed), guidelines (not generated); CFF top-dict 'version'; OS/2 Unicode/code-page ranges "
    "when absent (computed from the cmap, not from the info); gasp for CFF flavours",
    "variable fonts: overrides never touch unitsPerEm, openTypeNameRecords, gasp or vhea "
    "attributes; only name/OS2/hhea/head/post are judged (CFF2 has no names)",
]
NONVACUITY = ["fonts_reloaded", "fields_explicit_checked", "fields_fallback_checked",
              "explicit_half_ties", "names_explicit_checked", "names_absent_checked",
              "psname_generated_checked", "psname_generated_nonascii_source",
              "cff_top_strings_checked", "variable_fonts_checked", "override_fields_checked",
              "typographic_names_present", "typographic_names_omitted",
              "sweep_codepoints", "sweep_rep_compiles"]

GLYPHS = [
    {"name": ".notdef", "width": 500, "contours": [[[50, 0, "line"], [450, 0, "line"],
                                                     [450, 700, "line"], [50, 700, "line"]]]},
    {"name": "space", "width": 250, "unicodes": [32], "contours": []},
    {"name": "a", "width": 600, "unicodes": [97],
     "contours": [[[0, 0, "line"], [100, 0, "line"], [50, 100, "line"]]]},
]
GLYPHS2 = [
    {"name": ".notdef", "width": 500, "contours": [[[50, 0, "line"], [450, 0, "line"],
                                                     [450, 700, "line"], [50, 700, "line"]]]},
    {"name": "space", "width": 300, "unicodes": [32], "contours": []},
    {"name": "a", "width": 700, "unicodes": [97],
     "contours": [[[0, 0, "line"], [160, 0, "line"], [80, 120, "line"]]]},
]
NO_OVERRIDE = ("unitsPerEm", "openTypeNameRecords", "openTypeGaspRangeRecords")


def n_cases(tier):
    return 6000 if tier == "quick" else 100000


def budget_s(tier):
    return 120 if tier == "quick" else 1500


# ----------------------------------------------------------------------------------- generator
def _non_bmp(s):
    return any(ord(c) > 0xFFFF for c in s)


def predicted_name_keys(info):
    """(nameID, is_non_BMP) of the Windows/English records ufo2ft builds for this info; used by
    the generator only, to steer variable-font overrides into or away from the stale-record
    mechanism."""
    r = RI.Ref(info)
    n = r.names()
    keys = set()
    id1 = sorted(n[1][0])[0]
    id2 = sorted(n[2][0])[0]
    for nid, (ok, _absent, _attr, _how) in n.items():
        if nid in (16, 17):
            continue
        for s in ok:
            if s:
                keys.add((nid, _non_bmp(s)))
    pf, ps = r.pref_family(), r.pref_sub()
    if not (pf.strip() == id1.strip() and ps == id2):
        keys.add((16, _non_bmp(pf)))
        keys.add((17, _non_bmp(ps)))
    keys.add((6, False))
    uid = r.s("openTypeNameUniqueID")
    keys.add((3, _non_bmp(uid if uid is not None else r.version_string() + r.vendor())))
    return keys


NAME_ATTRS = ("familyName", "styleName", "styleMapFamilyName", "styleMapStyleName",
              "openTypeNamePreferredFamilyName", "openTypeNamePreferredSubfamilyName",
              "openTypeNameVersion", "openTypeNameUniqueID", "openTypeOS2VendorID",
              "postscriptFullName", "versionMajor", "versionMinor") + tuple(
                  RI.Ref.PLAIN_NAME_IDS.values())


def gen(rng, idx, tier):
    r = rng.random()
    lib = rng.choice(["defcon", "ufoLib2"])
    if r < 0.10:
        return gen_variable(rng, lib)
    compile_ = rng.choice(["ttf", "otf"])
    stratum = "default"
    r2 = rng.random()
    if r2 < 0.04:
        stratum = "psname_hazard"
    elif r2 < 0.08:
        stratum = "cff_unencodable" if compile_ == "otf" else "default"
    elif r2 < 0.09:
        stratum = "derived_out_of_range"
    info = G.gen_info(rng, cff_strings=(compile_ == "otf"),
                      name_hazard=(stratum == "psname_hazard"),
                      cff_unencodable=(stratum == "cff_unencodable"))
    if stratum == "derived_out_of_range":
        # every explicit value fits its own field, but a value DERIVED from them does not
        if rng.random() < 0.5:
            info["ascender"] = rng.randint(0, 200)
            info["openTypeOS2TypoLineGap"] = -rng.randint(300, 2000)
            info.pop("openTypeOS2WinAscent", None)
        else:
            info["italicAngle"] = rng.choice([0.5, -0.25, 1])
            info["openTypeHheaCaretSlopeRun"] = rng.choice([1000, -2000, 3000])
            info.pop("openTypeHheaCaretSlopeRise", None)
    case = {"kind": "static", "stratum": stratum, "compile": compile_, "lib": lib, "info": info}
    if compile_ == "otf":
        case["optimizeCFF"] = rng.choice([2, 2, 2, 0, 1])
    return case


def gen_variable(rng, lib):
    compile_ = rng.choice(["vttf", "vcff2"])
    stratum = "default"
    if rng.random() < 0.05:
        stratum = "vf_stale_name"
    info = G.gen_info(rng, cff_strings=False, variable=True)
    info.pop("openTypeGaspRangeRecords", None)
    ov = {}
    if rng.random() < 0.9:
        ov = G.gen_overrides(rng, info)
    for k in list(ov):
        if k in NO_OVERRIDE or k.startswith("openTypeVhea"):
            del ov[k]
    if stratum == "vf_stale_name":
        # the default master builds typographic names (16/17) that the overridden info no
        # longer produces
        info["familyName"] = info.get("familyName") or "Fam"
        info["styleName"] = "Black"
        for k in ("openTypeNamePreferredFamilyName", "openTypeNamePreferredSubfamilyName",
                  "styleMapFamilyName", "styleMapStyleName"):
            info.pop(k, None)
            ov.pop(k, None)
        ov.pop("familyName", None)
        ov["styleName"] = "Bold"
    else:
        # keep the default stratum clear of the stale-record mechanism: drop name-related
        # overrides until every record of the master is produced by the overridden info too
        eff = dict(info)
        eff.update(ov)
        if predicted_name_keys(info) - predicted_name_keys(eff):
            for k in NAME_ATTRS:
                if k in ov:
                    del ov[k]
                    eff = dict(info)
                    eff.update(ov)
                    if not (predicted_name_keys(info) - predicted_name_keys(eff)):
                        break
    # the non-default master differs in a few attributes; the default master's values must win
    delta = {}
    if rng.random() < 0.7:
        delta["styleName"] = rng.choice(["Bold", "Black", "Thin", "Heavy Italic"])
    if rng.random() < 0.5:
        delta["openTypeOS2WeightClass"] = rng.choice([100, 900])
    if rng.random() < 0.3:
        delta["xHeight"] = rng.randint(300, 600)
    if rng.random() < 0.3:
        delta["copyright"] = "other master"
    return {"kind": "variable", "stratum": stratum, "compile": compile_, "lib": lib,
            "axis_tag": rng.choice(["wght", "XTST"]),
            "info": info, "delta2": delta, "overrides": ov}


def sample_view(case):
    v = {k: case.get(k) for k in ("kind", "stratum", "compile", "lib", "optimizeCFF")}
    info = case.get("info") or {}
    v["n_attributes"] = len(info)
    v["info_excerpt"] = {k: info[k] for k in sorted(info)[:14]}
    if case.get("overrides") is not None:
        v["overrides"] = {k: case["overrides"][k] for k in sorted(case["overrides"])[:8]}
    return v


# ----------------------------------------------------------------------------------- oracle
class Ctx:
    def __init__(self):
        self.counters = {}
        self.violations = []
        self.ps_flagged = False

    def bump(self, k, n=1):
        self.counters[k] = self.counters.get(k, 0) + n

    def bad(self, mech, **detail):
        self.violations.append({"mech": mech, "detail": detail})


def _printable_ascii(s):
    return all(32 <= ord(c) <= 126 for c in s)


def _ascii_only(s):
    return all(ord(c) < 128 for c in s)


def check_fields(tt, ref, ctx, override_attrs=(), variable_axis_default=None):
    for E in ref.table_fields(vertical_ok=("vhea" in tt)):
        if E.table not in tt:
            ctx.bad("table_missing", table=E.table, attr=E.attr)
            continue
        table = tt[E.table]
        if E.field == "panose":
            p = table.panose
            got = (p.bFamilyType, p.bSerifStyle, p.bWeight, p.bProportion, p.bContrast,
                   p.bStrokeVariation, p.bArmStyle, p.bLetterForm, p.bMidline, p.bXHeight)
        elif E.field == "achVendID":
            got = str(table.achVendID)
        elif E.field == "created":
            # fontTools' head reader folds timestamps outside 1970..2040 into that window; the
            # LONGDATETIME is read from the stored bytes instead
            got = struct.unpack(">q", tt.reader["head"][20:28])[0]
        else:
            got = getattr(table, E.field, None)
        if E.field == "flags" and "glyf" in tt:
            # bit 1 (left side bearing at x=0) is recomputed from the glyph data by the
            # TrueType writer; compared modulo that bit
            got &= ~2
            E.ok = {x & ~2 for x in E.ok}
            ctx.bump("head_flags_bit1_masked")
        if (variable_axis_default is not None and E.field == "usWeightClass"
                and got == variable_axis_default and got not in E.ok):
            # varLib sets usWeightClass to the default of a registered 'wght' axis (OpenType rule)
            ctx.bump("vf_weightclass_from_wght_axis")
            continue
        ctx.bump("fields_%s_checked" % E.how)
        if any(a in override_attrs for a in E.attr.replace("/", "+").split("+")):
            ctx.bump("override_fields_checked")
        if E.how == "explicit" and E.attr in ref.i and isinstance(ref.i[E.attr], float):
            f = RI.fr(ref.i[E.attr])
            if f.denominator == 2:
                ctx.bump("explicit_half_ties")
                if f < 0:
                    ctx.bump("explicit_half_ties_negative")
        if not E.accepts(got):
            ctx.bad("explicit_value_lost" if E.how == "explicit" else "fallback_mismatch",
                    table=E.table, field=E.field, attr=E.attr, how=E.how,
                    given=ref.i.get(E.attr), got=got if not isinstance(got, tuple) else list(got),
                    expected=E.show(), note=E.note)
    # the vhea table must exist iff the three vertical metrics are there
    vert = all(ref.has("openTypeVheaVertTypo" + x) for x in ("Ascender", "Descender", "LineGap"))
    if vert and "vhea" not in tt:
        ctx.bad("table_missing", table="vhea", attr="openTypeVheaVertTypo*")
    if vert:
        ctx.bump("vhea_checked")


def check_gasp(tt, ref, ctx):
    exp = ref.gasp()
    if exp is None:
        if "gasp" in tt:
            ctx.bad("fallback_mismatch", table="gasp", field="gaspRange",
                    attr="openTypeGaspRangeRecords", how="fallback",
                    got=dict(tt["gasp"].gaspRange), expected="no gasp table")
        return
    ctx.bump("gasp_checked")
    got = dict(tt["gasp"].gaspRange) if "gasp" in tt else None
    if got != exp:
        ctx.bad("explicit_value_lost", table="gasp", field="gaspRange",
                attr="openTypeGaspRangeRecords", how="explicit", got=got, expected=exp)


def check_psname_charset(s, ref, ctx, where):
    """the clause on the GENERATED PostScript font name"""
    off = RI.ps_offending(s)
    if off:
        ctx.ps_flagged = True
        ctx.bad("psname_forbidden_chars", where=where, psname=s, offending=sorted(set(off)),
                source=ref.psname_source())
        return False
    return True


def check_names(tt, ref, ctx, variable=False, master_ref=None):
    obs = {}
    for n in tt["name"].names:
        try:
            s = n.toUnicode()
        except Exception as e:  # noqa: BLE001
            ctx.bad("name_record_undecodable", nameID=n.nameID, err=repr(e))
            continue
        obs[(n.nameID, n.platformID, n.platEncID, n.langID)] = s
    recs = {}
    for r in ref.i.get("openTypeNameRecords") or []:
        recs[(r["nameID"], r["platformID"], r["encodingID"], r["languageID"])] = r["string"]
    for key, string in recs.items():
        got = obs.pop(key, None)
        ctx.bump("name_records_checked")
        if got != string:
            ctx.bad("explicit_value_lost", table="name", field=list(key),
                    attr="openTypeNameRecords", how="explicit", got=got, expected=string)
    rec_ids = {k[0] for k in recs if k[1] == 3 and k[3] == 0x409}
    built = {}
    for (nid, pid, eid, lid), s in obs.items():
        if pid == 3 and lid == 0x409 and eid in (1, 10):
            built.setdefault(nid, []).append(s)
        elif variable and (nid >= 256 or nid == 25):
            pass
        else:
            ctx.bad("unexpected_name_record", key=[nid, pid, eid, lid], string=s)
    exp = ref.names()
    mexp = master_ref.names() if master_ref is not None else None

    def stale(nid, s):
        if mexp is None:
            return False
        if nid in mexp and s in mexp[nid][0] and not (nid in exp and s in exp[nid][0]):
            return True
        return False

    for nid, (ok, absent_ok, attr, how) in exp.items():
        strings = built.get(nid, [])
        absent_ok = absent_ok or "" in ok       # an empty string and no record are the same
        if nid in (16, 17):
            ctx.bump("typographic_names_present" if strings else "typographic_names_omitted")
        if not strings:
            if how == "explicit" or not absent_ok:
                ctx.bump("names_explicit_checked")
            else:
                ctx.bump("names_absent_checked")
            if not absent_ok and nid not in rec_ids:
                ctx.bad("explicit_value_lost" if how == "explicit" else "fallback_mismatch",
                        table="name", field=nid, attr=attr, how=how, got=None,
                        expected=sorted(ok))
            continue
        ctx.bump("names_explicit_checked" if how == "explicit" else "names_fallback_checked")
        if any(ord(c) > 127 for s in strings for c in s):
            ctx.bump("names_nonascii_checked")
        if any(_non_bmp(s) for s in strings):
            ctx.bump("names_nonbmp_checked")
        for s in strings:
            if s not in ok:
                ctx.bad("name_record_mismatch", table="name", field=nid, attr=attr, how=how,
                        got=s, expected=sorted(ok), stale_from_master=stale(nid, s))
    # ---- PostScript name (6) and unique ID (3)
    generated = not ref.has("postscriptFontName")
    exact = ref.psname_exact()
    id6 = built.get(6, [])
    if not id6 and 6 not in rec_ids:
        ctx.bad("fallback_mismatch" if generated else "explicit_value_lost", table="name",
                field=6, attr="postscriptFontName", how=ref.how("postscriptFontName"), got=None,
                expected=exact)
    for s in id6:
        if generated:
            ctx.bump("psname_generated_checked")
            clean = check_psname_charset(s, ref, ctx, "name ID 6")
            src = ref.psname_source()
            if not _printable_ascii(src):
                ctx.bump("psname_generated_nonascii_source")
            if exact is not None:
                if s != exact:
                    ctx.bad("fallback_mismatch", table="name", field=6,
                            attr="postscriptFontName", how="fallback", got=s, expected=exact,
                            stale_from_master=bool(master_ref is not None
                                                   and s == master_ref.psname_exact()))
            elif clean:
                kept = "".join(c for c in src if RI.ps_char_ok(c))
                if not s or not RI.is_subsequence(kept, s):
                    ctx.bad("fallback_mismatch", table="name", field=6,
                            attr="postscriptFontName", how="fallback", got=s,
                            expected="valid characters of %r kept in order" % src)
        else:
            ctx.bump("psname_explicit_checked")
            if s != exact:
                ctx.bad("explicit_value_lost", table="name", field=6, attr="postscriptFontName",
                        how="explicit", got=s, expected=exact,
                        stale_from_master=bool(master_ref is not None
                                               and s == master_ref.psname_exact()))
    id3 = built.get(3, [])
    uid = ref.s("openTypeNameUniqueID")

    def stale_uid(s):
        """the record is exactly what the default master's own info produces"""
        if master_ref is None:
            return False
        muid = master_ref.s("openTypeNameUniqueID")
        if muid is not None:
            return s == muid
        return any(s.startswith(p) for p in master_ref.unique_id_prefixes())

    if not id3 and 3 not in rec_ids and uid != "":
        ctx.bad("fallback_mismatch", table="name", field=3, attr="openTypeNameUniqueID",
                how=ref.how("openTypeNameUniqueID"), got=None, expected="a unique ID")
    for s in id3:
        if uid is not None:
            ctx.bump("names_explicit_checked")
            if s != uid:
                ctx.bad("explicit_value_lost", table="name", field=3,
                        attr="openTypeNameUniqueID", how="explicit", got=s, expected=uid,
                        stale_from_master=stale_uid(s))
            continue
        ctx.bump("names_fallback_checked")
        rest = None
        for p in ref.unique_id_prefixes():
            if s.startswith(p):
                rest = s[len(p):]
                ctx.bump("uniqueid_version_prefix_stripped"
                         if p != ref.version_string() + ";" + ref.vendor() + ";"
                         else "uniqueid_version_prefix_kept")
                break
        if rest is None:
            ctx.bad("fallback_mismatch", table="name", field=3, attr="openTypeNameUniqueID",
                    how="fallback", got=s, expected=sorted(ref.unique_id_prefixes()),
                    stale_from_master=stale_uid(s))
            continue
        if generated:
            check_psname_charset(rest, ref, ctx, "name ID 3 (unique ID fallback)")
        if exact is not None:
            if rest != exact:
                ctx.bad("fallback_mismatch", table="name", field=3, attr="openTypeNameUniqueID",
                        how="fallback", got=s, expected="...;" + exact)
        elif not ctx.ps_flagged and id6 and rest not in id6:
            ctx.bad("fallback_mismatch", table="name", field=3, attr="openTypeNameUniqueID",
                    how="fallback", got=s, expected=["...;" + x for x in id6])
    for nid in built:
        if nid not in exp and nid not in (3, 6) and not (variable and (nid >= 256 or nid == 25)):
            ctx.bad("unexpected_name_record", key=[nid, 3, None, 0x409], string=built[nid][0])
    return id6


def _cff_string(ctx, field, attr, how, src, got, ascii_codec):
    """FullName / FamilyName / Weight: as given; an ASCII reduction is admissible where the
    given string is not printable ASCII"""
    ctx.bump("cff_top_strings_checked")
    if src is None or src == "":
        if got not in (None, ""):
            ctx.bad("fallback_mismatch", table="CFF", field=field, attr=attr, how=how, got=got,
                    expected=None)
        return
    if got == src:
        if not _printable_ascii(src):
            ctx.bump("cff_string_non_ascii_stored_as_given")
        return
    if not _printable_ascii(src) and isinstance(got, str) and got and _ascii_only(got):
        ctx.bump("cff_string_reduced_to_ascii")
        return
    if got in (None, "") and not any(RI.ps_char_ok(c) for c in src):
        ctx.bump("cff_string_reduced_to_nothing")   # nothing of the string survives in ASCII
        return
    ctx.bad("explicit_value_lost" if how == "explicit" else "fallback_mismatch", table="CFF",
            field=field, attr=attr, how=how, got=got, expected=src)


def _cff_notice(ctx, field, attr, src, got):
    ctx.bump("cff_top_strings_checked")
    if not src:
        if got not in (None, ""):
            ctx.bad("fallback_mismatch", table="CFF", field=field, attr=attr, how="fallback",
                    got=got, expected=None)
        return
    if got is None:
        got = ""
    variants = [src, src.replace("©", "Copyright")]
    for v in variants:
        if got == v:
            ctx.bump("cff_notice_as_given")
            return
    for v in variants:
        if _printable_ascii(v) and got == "".join(c for c in v if c not in RI.PS_SPECIALS):
            ctx.bump("cff_notice_delimiters_dropped")
            return
    if _ascii_only(got):
        for v in variants:
            kept = "".join(c for c in v if 32 <= ord(c) <= 126 and c not in RI.PS_SPECIALS)
            if not _printable_ascii(v) and RI.is_subsequence(kept, got):
                ctx.bump("cff_notice_reduced_to_ascii")
                return
    ctx.bad("explicit_value_lost", table="CFF", field=field, attr=attr, how="explicit", got=got,
            expected="%r as given / reduced to ASCII" % src)


def check_cff(tt, ref, ctx, id6):
    cff = tt["CFF "].cff
    td = cff.topDictIndex[0]
    generated = not ref.has("postscriptFontName")
    exact = ref.psname_exact()
    names = list(cff.fontNames)
    if len(names) != 1:
        ctx.bad("fallback_mismatch", table="CFF", field="fontNames", attr="postscriptFontName",
                how=ref.how("postscriptFontName"), got=names, expected="one name")
    for s in names[:1]:
        ctx.bump("cff_fontname_checked")
        if generated:
            check_psname_charset(s, ref, ctx, "CFF fontNames")
        if exact is not None:
            if s != exact:
                ctx.bad("explicit_value_lost" if not generated else "fallback_mismatch",
                        table="CFF", field="fontNames", attr="postscriptFontName",
                        how=ref.how("postscriptFontName"), got=s, expected=exact)
        elif not ctx.ps_flagged and id6 and s not in id6:
            ctx.bad("fallback_mismatch", table="CFF", field="fontNames",
                    attr="postscriptFontName", how="fallback", got=s, expected=id6)
    _cff_string(ctx, "FullName", "postscriptFullName", ref.how("postscriptFullName"),
                ref.ps_full_name(), getattr(td, "FullName", None), False)
    _cff_string(ctx, "FamilyName", "openTypeNamePreferredFamilyName",
                ref.how("openTypeNamePreferredFamilyName"), ref.pref_family(),
                getattr(td, "FamilyName", None), False)
    _cff_string(ctx, "Weight", "postscriptWeightName", ref.how("postscriptWeightName"),
                ref.s("postscriptWeightName"), getattr(td, "Weight", None), True)
    _cff_notice(ctx, "Notice", "trademark", ref.s("trademark"), getattr(td, "Notice", None))
    _cff_notice(ctx, "Copyright", "copyright", ref.s("copyright"),
                getattr(td, "Copyright", None))
    for E in ref.cff_top_fields():
        got = getattr(td, E.field, None)
        ctx.bump("fields_%s_checked" % E.how)
        if not E.accepts(got):
            ctx.bad("explicit_value_lost" if E.how == "explicit" else "fallback_mismatch",
                    table="CFF", field=E.field, attr=E.attr, how=E.how, given=ref.i.get(E.attr),
                    got=got, expected=E.show())
    fm = list(getattr(td, "FontMatrix", []))
    scales = ref.font_matrix_scale()
    if not (len(fm) == 6 and any(abs(fm[0] - s) <= 2e-4 * s and abs(fm[3] - s) <= 2e-4 * s
                                 for s in scales) and fm[1] == fm[2] == fm[4] == fm[5] == 0):
        ctx.bad("explicit_value_lost" if ref.has("unitsPerEm") else "fallback_mismatch",
                table="CFF", field="FontMatrix", attr="unitsPerEm", how=ref.how("unitsPerEm"),
                got=fm, expected=scales)
    priv = td.Private
    exp = ref.cff_private()
    twins = {"FamilyBlues": "BlueValues", "FamilyOtherBlues": "OtherBlues"}
    for key, want in exp.items():
        got = getattr(priv, key, None)
        ctx.bump("cff_private_checked")
        ok = False
        if isinstance(want, list):
            ok = got is not None and [float(x) for x in got] == [float(x) for x in want]
            if not ok and key in twins and got is None and exp.get(twins[key]) == want:
                ok = True       # the subroutiniser drops a Family* array equal to its twin
                ctx.bump("cff_private_family_twin_dropped")
            if (not ok and key in ("StemSnapH", "StemSnapV") and got is None and len(want) == 1
                    and getattr(priv, "Std" + key[-1] + "W", None) == want[0]):
                ok = True       # ... and a one-element StemSnap array equal to StdHW / StdVW
                ctx.bump("cff_private_single_stemsnap_dropped")
        elif isinstance(want, set):
            ok = got in want
        elif isinstance(want, float):
            ok = got is not None and abs(float(got) - want) <= 1e-6 * abs(want) + 1e-7
        else:
            ok = got == want
        if not ok:
            ctx.bad("explicit_value_lost", table="CFF Private", field=key,
                    attr="postscript" + key, how="explicit",
                    got=got, expected=sorted(want) if isinstance(want, set) else want)


def cff_unencodable_strings(ref):
    """CFF top-dict strings of this info that fontTools' CFF writer cannot encode (Latin-1 for
    FullName/FamilyName, ASCII for Weight) - filled into the witness of a failed compile"""
    out = {}
    for field, s, limit in (("FullName", ref.ps_full_name(), 0xFF),
                            ("FamilyName", ref.pref_family(), 0xFF),
                            ("Weight", ref.s("postscriptWeightName"), 0x7F)):
        if s and any(ord(c) > limit for c in s):
            out[field] = s
    return out


FIELD_RANGE = {"hhea": (-32768, 32767), "vhea": (-32768, 32767), "post": (-32768, 32767)}
UNSIGNED_FIELDS = {"usWinAscent", "usWinDescent", "usWeightClass", "usWidthClass",
                   "unitsPerEm", "lowestRecPPEM"}


def derived_out_of_range(ref):
    """integral fields whose attribute is ABSENT and whose documented fallback (derived from
    the explicit values) cannot be stored in the field - filled into the witness of a failed
    compile"""
    out = []
    for E in ref.table_fields(vertical_ok=True):
        if E.how != "fallback" or E.ok is None or E.field in ("panose", "achVendID"):
            continue
        lo, hi = (0, 65535) if E.field in UNSIGNED_FIELDS else (-32768, 32767)
        vals = [v for v in E.ok if isinstance(v, int)]
        if vals and E.table in ("hhea", "vhea", "post", "OS/2") and all(
                not lo <= v <= hi for v in vals):
            out.append({"table": E.table, "field": E.field, "attr": E.attr, "derived": vals[:3]})
    return out


def _epoch():
    v = os.environ.get("SOURCE_DATE_EPOCH")
    return int(v) if v else None


def _reload(tt):
    buf = io.BytesIO()
    tt.save(buf)
    buf.seek(0)
    from fontTools.ttLib import TTFont
    return TTFont(buf)


def _result(ctx, nontrivial):
    return {"status": "violated" if ctx.violations else "held", "violations": ctx.violations,
            "counters": ctx.counters, "nontrivial": bool(nontrivial)}


def run_static(case):
    import ufo2ft
    ctx = Ctx()
    info = case["info"]
    ref = RI.Ref(info, epoch=_epoch())
    font = build_ufo({"info": info, "glyphs": GLYPHS}, case["lib"])
    otf = case["compile"] == "otf"
    try:
        if otf:
            tt = ufo2ft.compileOTF(font, optimizeCFF=case.get("optimizeCFF", 2))
        else:
            tt = ufo2ft.compileTTF(font)
        tt = _reload(tt)
        tt["name"].names, tt["OS/2"].version, tt["head"].unitsPerEm, tt["hhea"].ascent
        tt["post"].italicAngle
        if otf:
            tt["CFF "].cff.topDictIndex[0]
    except Exception as e:  # noqa: BLE001
        ctx.bump("compile_exceptions")
        ctx.bad("compile_exception", exc=type(e).__name__, message=str(e)[:300],
                compile=case["compile"],
                cff_unencodable=cff_unencodable_strings(ref) if otf else {},
                derived_out_of_range=derived_out_of_range(ref),
                trace=traceback.format_exc()[-2500:])
        return _result(ctx, False)
    ctx.bump("fonts_reloaded")
    ctx.bump("fonts_reloaded_" + case["compile"])
    check_fields(tt, ref, ctx)
    if not otf:
        check_gasp(tt, ref, ctx)
    id6 = check_names(tt, ref, ctx)
    if otf:
        check_cff(tt, ref, ctx, id6)
    nontrivial = (ctx.counters.get("fields_explicit_checked", 0)
                  + ctx.counters.get("names_explicit_checked", 0) > 0
                  and ctx.counters.get("fields_fallback_checked", 0) > 0)
    if len(info) == 0:
        ctx.bump("empty_info_fonts")
    if len(info) >= 80:
        ctx.bump("dense_info_fonts")
    return _result(ctx, nontrivial)


def run_variable(case):
    import ufo2ft
    ctx = Ctx()
    info = case["info"]
    info2 = dict(info)
    info2.update(case.get("delta2") or {})
    ov = case.get("overrides") or {}
    eff = dict(info)
    eff.update(ov)
    ref = RI.Ref(eff, epoch=_epoch())
    master_ref = RI.Ref(info, epoch=_epoch())
    tag = case.get("axis_tag", "wght")
    ds = {"axes": [{"name": "Weight", "tag": tag, "min": 100, "default": 100, "max": 900}],
          "ufos": [{"info": info, "glyphs": GLYPHS}, {"info": info2, "glyphs": GLYPHS2}],
          "sources": [{"ufo": 0, "location": {"Weight": 100}},
                      {"ufo": 1, "location": {"Weight": 900}}],
          "lib": {"public.fontInfo": ov} if ov else {}}
    doc, _fonts = build_designspace(ds, case["lib"])
    try:
        if case["compile"] == "vttf":
            tt = ufo2ft.compileVariableTTF(doc)
        else:
            tt = ufo2ft.compileVariableCFF2(doc)
        tt = _reload(tt)
        tt["name"].names, tt["OS/2"].version, tt["head"].unitsPerEm, tt["hhea"].ascent
        tt["post"].italicAngle, tt["fvar"].axes
    except Exception as e:  # noqa: BLE001
        ctx.bump("compile_exceptions")
        ctx.bad("compile_exception", exc=type(e).__name__, message=str(e)[:300],
                compile=case["compile"], cff_unencodable={},
                trace=traceback.format_exc()[-2500:])
        return _result(ctx, False)
    ctx.bump("fonts_reloaded")
    ctx.bump("variable_fonts_checked")
    ctx.bump("fonts_reloaded_" + case["compile"])
    if ov:
        ctx.bump("variable_fonts_with_overrides")
    check_fields(tt, ref, ctx, override_attrs=set(ov),
                 variable_axis_default=100 if tag == "wght" else None)
    check_names(tt, ref, ctx, variable=True, master_ref=master_ref)
    nontrivial = bool(ov) and ctx.counters.get("fields_fallback_checked", 0) > 0
    return _result(ctx, nontrivial)


def run_psname_cps(case):
    """re-run the single-character PostScript-name sweep on the listed code points (replay)"""
    res = sweep_codepoints(case["cps"])
    ctx = Ctx()
    ctx.bump("sweep_codepoints", res["n"])
    for cp, out, off in res["violations"]:
        ctx.bad("psname_forbidden_chars", where="postscriptFontName fallback", cp="U+%04X" % cp,
                psname=out, offending=off, source=chr(cp) + "-Regular")
    return _result(ctx, True)


def run(case):
    kind = case.get("kind")
    if kind == "static":
        return run_static(case)
    if kind == "variable":
        return run_variable(case)
    if kind == "psname_cps":
        return run_psname_cps(case)
    raise ValueError("unknown case kind %r" % (kind,))


# ----------------------------------------------------------------------------------- findings
def classify(v, case):
    d = v.get("detail") or {}
    mech = v.get("mech")
    if mech == "psname_forbidden_chars":
        # a forbidden character of the generated name that comes out of the NFKD decomposition
        # of a source character which had to be reduced (is not itself printable ASCII 33..126)
        if RI.offending_from_nfkd(d.get("source", ""), d.get("offending") or []):
            return "psname_forbidden_after_nfkd"
        return None
    if mech == "compile_exception":
        if (case.get("kind") == "static" and case.get("compile") == "otf"
                and d.get("exc") == "UnicodeEncodeError" and d.get("cff_unencodable")):
            return "cff_topdict_string_unencodable"
        if (case.get("kind") == "static" and "does not fit in format" in (d.get("message") or "")
                and any(x["field"] in d["message"] for x in d.get("derived_out_of_range") or [])):
            return "derived_fallback_out_of_field_range"
        return None
    if mech in ("name_record_mismatch", "fallback_mismatch", "explicit_value_lost"):
        if (case.get("kind") == "variable" and d.get("table") == "name"
                and d.get("stale_from_master") and case.get("overrides")):
            return "vf_override_stale_name_record"
        return None
    return None


# ----------------------------------------------------------------------------------- exhaustive
def _outcome_class(c, prefix, off):
    if off:
        cats = set()
        for o in off:
            if o == " ":
                cats.add("space")
            elif ord(o) < 32:
                cats.add("c0")
            elif ord(o) == 127:
                cats.add("del")
            elif ord(o) > 127:
                cats.add("nonascii")
            else:
                cats.add(o)
        return "violates:" + ",".join(sorted(cats))
    if prefix == c:
        return "kept"
    if prefix == "":
        return "dropped"
    if "?" in prefix:
        return "replaced" if set(prefix) == {"?"} else "decomposed+replaced"
    return "decomposed_to_ascii"


def sweep_codepoints(cps):
    """call the REAL fallback and normaliser for each code point; returns a summary dict"""
    from ufo2ft.fontInfoData import getAttrWithFallback, normalizeStringForPostscript

    class Info:
        pass

    ok = RI.ps_char_ok
    classes = {}
    violations = []
    n = 0
    norm_forbidden = 0
    odd_form = []
    for cp in cps:
        c = chr(cp)
        n += 1
        info = Info()
        info.familyName = c
        out = getAttrWithFallback(info, "postscriptFontName")
        norm = normalizeStringForPostscript(c)
        if any(not ok(x) and x != " " for x in norm):
            norm_forbidden += 1
        if not out.endswith("-Regular"):
            odd_form.append([cp, out])
            prefix = out
        else:
            prefix = out[:-8]
        off = [x for x in out if not ok(x)]
        if off:
            violations.append([cp, out, sorted(set(off))])
        key = _outcome_class(c, prefix, off)
        cl = classes.get(key)
        if cl is None:
            cl = classes[key] = {"count": 0, "first": cp, "last": cp, "first_xml": None,
                                 "first_latin1": None, "last_xml": None}
        cl["count"] += 1
        cl["last"] = cp
        if RI.xml_char_ok(c):
            if cl["first_xml"] is None:
                cl["first_xml"] = cp
            cl["last_xml"] = cp
            if cp <= 0xFF and cl["first_latin1"] is None:
                cl["first_latin1"] = cp
    return {"n": n, "classes": classes, "violations": violations,
            "normalize_outputs_with_forbidden": norm_forbidden, "odd_form": odd_form[:20]}


def _spawn(args, timeout):
    env = dict(os.environ)
    return subprocess.Popen([sys.executable, "-m", "vf.props.c16"] + args, cwd=vf.VERIF, env=env,
                            stdout=subprocess.DEVNULL, stderr=subprocess.PIPE)


def _wait_all(procs, timeout):
    deadline = time.time() + timeout
    errs = []
    for p in procs:
        try:
            _, err = p.communicate(timeout=max(1, deadline - time.time()))
        except subprocess.TimeoutExpired:
            p.kill()
            _, err = p.communicate()
            errs.append("timeout")
            continue
        if p.returncode != 0:
            errs.append((err or b"").decode("utf-8", "replace")[-800:])
    return errs


def extra(ctx):
    """exhaustive single-character sweep + representative full compiles (parent-level stage)"""
    from vf.runner import case_sig
    t0 = time.time()
    jobs = max(1, min(int(ctx.get("jobs") or 16), 16))
    workdir = ctx["workdir"]
    os.makedirs(workdir, exist_ok=True)
    scalars = 0x110000
    step = (scalars + jobs - 1) // jobs
    procs, outs = [], []
    for j in range(jobs):
        lo, hi = j * step, min(scalars, (j + 1) * step)
        out = os.path.join(workdir, "sweep%d.json" % j)
        outs.append(out)
        procs.append(_spawn(["sweep", str(lo), str(hi), out], 600))
    errs = _wait_all(procs, 600)
    records = []
    total = 0
    classes = {}
    violations = []
    norm_forbidden = 0
    odd = []
    for out in outs:
        try:
            d = json.load(open(out))
        except (OSError, ValueError):
            errs.append("missing sweep output " + out)
            continue
        total += d["n"]
        norm_forbidden += d["normalize_outputs_with_forbidden"]
        odd.extend(d["odd_form"])
        violations.extend(d["violations"])
        for k, cl in d["classes"].items():
            m = classes.get(k)
            if m is None:
                classes[k] = dict(cl)
                continue
            m["count"] += cl["count"]
            m["last"] = max(m["last"], cl["last"])
            for f in ("first_xml", "first_latin1"):
                if m[f] is None:
                    m[f] = cl[f]
            if cl["last_xml"] is not None:
                m["last_xml"] = cl["last_xml"]
    expected_total = 0x110000 - 0x800
    sweep_case = {"kind": "psname_cps", "cps": [v[0] for v in violations][:400]}
    vio = []
    for cp, out, off in violations:
        v = {"mech": "psname_forbidden_chars",
             "detail": {"where": "postscriptFontName fallback", "cp": "U+%04X" % cp,
                        "psname": out, "offending": off, "source": chr(cp) + "-Regular"}}
        v["known_key"] = classify(v, sweep_case)
        vio.append(v)
    for cp, out in odd[:5]:
        vio.append({"mech": "psname_unexpected_form", "known_key": None,
                    "detail": {"cp": "U+%04X" % cp, "psname": out}})
    status = "violated" if vio else "held"
    if errs or total != expected_total:
        status = "harness_error"
    rec = {"ev": "case", "idx": "x-sweep", "sig": case_sig({"sweep": "all-scalars"}),
           "status": status, "violations": vio,
           "counters": {"sweep_codepoints": total, "sweep_outcome_classes": len(classes),
                        "sweep_violating_codepoints": len(violations)},
           "nontrivial": True, "secs": round(time.time() - t0, 2), "case": sweep_case}
    if status == "harness_error":
        rec["note"] = "sweep incomplete: total=%d expected=%d errs=%s" % (total, expected_total,
                                                                          errs[:3])
    records.append(rec)
    # ---- representatives: up to 3 per outcome class, TTF and OTF, alternating UFO library
    reps = []
    for k in sorted(classes):
        cl = classes[k]
        chosen = []
        for f in ("first_latin1", "first_xml", "last_xml"):
            if cl[f] is not None and cl[f] not in chosen:
                chosen.append(cl[f])
        if not chosen:
            chosen = [cl["first"]]
        for cp in chosen:
            reps.append((k, cp))
    cases = []
    for n, (k, cp) in enumerate(reps):
        for comp in ("ttf", "otf"):
            case = {"kind": "static", "stratum": "sweep_rep", "outcome_class": k,
                    "compile": comp, "lib": ["defcon", "ufoLib2"][n % 2],
                    "info": {"familyName": chr(cp)}}
            if comp == "otf":
                case["optimizeCFF"] = 2
            cases.append(case)
    nshards = max(1, min(jobs, 8, len(cases)))
    procs, outs = [], []
    for j in range(nshards):
        inp = os.path.join(workdir, "reps%d.in.json" % j)
        out = os.path.join(workdir, "reps%d.out.json" % j)
        json.dump(cases[j::nshards], open(inp, "w"))
        outs.append(out)
        procs.append(_spawn(["runcases", inp, out, "x-rep-%d-" % j], 600))
    errs2 = _wait_all(procs, 600)
    n_rep = 0
    for out in outs:
        try:
            for r in json.load(open(out)):
                r.setdefault("counters", {})["sweep_rep_compiles"] = 1
                records.append(r)
                n_rep += 1
        except (OSError, ValueError):
            errs2.append("missing representative output " + out)
    if errs2:
        records.append({"ev": "case", "idx": "x-reps", "sig": case_sig({"reps": "error"}),
                        "status": "harness_error", "violations": [], "counters": {},
                        "nontrivial": False, "secs": 0.0, "note": "; ".join(map(str, errs2))[:1500]})
    cov = {"exhaustive_subspace": {
        "what": "every Unicode scalar value (0..0x10FFFF minus surrogates) as a 1-character "
                "familyName through ufo2ft.fontInfoData.getAttrWithFallback(info, "
                "'postscriptFontName') and through normalizeStringForPostscript",
        "codepoints": total, "expected_codepoints": expected_total,
        "violating_codepoints": len(violations),
        "normalize_outputs_with_forbidden_nonblank": norm_forbidden,
        "outcome_classes": {k: {"count": v["count"],
                                "example": "U+%04X" % (v["first_xml"] if v["first_xml"] is not None
                                                       else v["first"])}
                            for k, v in sorted(classes.items())},
        "representative_compiles": n_rep, "wall_s": round(time.time() - t0, 1)}}
    return records, cov


def _main_sweep(lo, hi, out):
    cps = [cp for cp in range(lo, hi) if not 0xD800 <= cp <= 0xDFFF]
    json.dump(sweep_codepoints(cps), open(out, "w"))


def _main_runcases(inp, out, prefix):
    from vf.runner import case_sig
    cases = json.load(open(inp))
    recs = []
    for n, case in enumerate(cases):
        t0 = time.time()
        try:
            res = run(case)
        except Exception:  # noqa: BLE001
            res = {"status": "harness_error", "note": traceback.format_exc(), "violations": [],
                   "counters": {}}
        for v in res.get("violations") or []:
            v["known_key"] = classify(v, case)
        rec = {"ev": "case", "idx": "%s%d" % (prefix, n), "sig": case_sig(case),
               "status": res["status"], "violations": res.get("violations") or [],
               "counters": res.get("counters") or {}, "nontrivial": bool(res.get("nontrivial")),
               "secs": round(time.time() - t0, 3)}
        if res.get("note"):
            rec["note"] = res["note"]
        if rec["violations"]:
            rec["case"] = case
        recs.append(rec)
    json.dump(recs, open(out, "w"), default=str)


if __name__ == "__main__":
    if sys.argv[1] == "sweep":
        _main_sweep(int(sys.argv[2]), int(sys.argv[3]), sys.argv[4])
    elif sys.argv[1] == "runcases":
        _main_runcases(sys.argv[2], sys.argv[3], sys.argv[4])
