def define(M):
    F = "Lib/ufo2ft/featureWriters/markFeatureWriter.py"
    B = "Lib/ufo2ft/featureWriters/baseFeatureWriter.py"
    M("C06", "anchor_not_quantized_y", B,
      "                y = quantize(y, self.options.quantization)", "                pass")
    M("C06", "ligature_index_off_by_one", F,
      "            for number in range(1, max(componentAnchors.keys()) + 1):\n                ligatureMarks.append(componentAnchors.get(number, []))",
      "            for number in range(0, max(componentAnchors.keys())):\n                ligatureMarks.append(componentAnchors.get(number, []))")
    M("C06", "mark_class_dropped_for_multi_class_mark", F,
      "            for anchor in markAnchors:\n                group = groups.setdefault(anchor.name, OrderedDict())",
      "            for anchor in markAnchors[:1]:\n                group = groups.setdefault(anchor.name, OrderedDict())")
    M("C06", "abvm_glyphs_left_out_entirely", F,
      "                    feature = self._makeAbvmOrBlwmFeature(tag, include=isAbvm)",
      "                    feature = None")
    M("C06", "quantize_bankers_rounding", "Lib/ufo2ft/util.py",
      "    return factor * otRound(number / factor)", "    return factor * round(number / factor)")
    M("C06", "base_anchor_sorted_wrong_class", F,
      "                anchor.markClass = markClasses[anchor.key]",
      "                anchor.markClass = markClasses[sorted(markClasses)[0]]")
    M("C06", "mkmk_filter_set_without_base_marks", F,
      "        members = itertools.chain(markGlyphs, baseGlyphs)", "        members = markGlyphs")
    M("C06", "blwm_gets_above_marks_too", F,
      "    def _isBelowMark(self, anchor):\n        return not self._isAboveMark(anchor)",
      "    def _isBelowMark(self, anchor):\n        return False")
