"""C11 - Production names rename glyphs and change nothing else.

Relation between executions: each case is compiled with production names on and off (fresh font
objects); every table other than the glyph-name carriers must be byte-identical, and the final
names must be unique, legal and follow the naming rules (R-prodname, written from the statement).
"""
import io
import re
import traceback

import vf  # noqa: F401
from vf.build import build_ufo, build_designspace

ID = "C11"
RULE = ("case = generated UFO (2-24 glyphs: suffixes, ligature underscores, names colliding with "
        "uniXXXX names, names > 63 chars, names with characters illegal in PostScript) with kerning, "
        "mark anchors and a GSUB feature x public.postscriptNames map (absent / empty / partial / "
        "duplicates / illegal characters / empty strings) x lib switches x TTF / CFF / CFF2 (+ a "
        "2-master variable stratum); each compiled with names on, off and by lib default; distinct = "
        "sha1 of the case; non-trivial = both compiles succeeded, >= 1 glyph was renamed and >= 8 "
        "tables were compared byte for byte")
ASSUMPTIONS = [
    "fontTools' sfnt reader gives the raw table bytes; head.checkSumAdjustment is masked",
    "source glyph names are Latin-1 (the names-off compile must be storable in a format-2 post table)",
    "uniqueness is judged as: final names pairwise distinct and each equal to its rule name or to "
    "rule name + '.<digits>' (the numbering scheme itself is not prescribed by the statement)",
    "a glyph missing from a non-empty public.postscriptNames map may keep its name or get the "
    "code-point name (the statement leaves this open); counted",
]
NONVACUITY = ["pairs_compared", "tables_identical", "renamed_glyphs", "uni_names", "u_names",
              "suffix_names", "ligature_names", "lib_names", "collisions_resolved",
              "cff_charstrings_compared", "lib_default_compiles", "illegal_chars_stripped"]

LEGAL = re.compile(r"^[0-9A-Za-z_.]+$")


def n_cases(tier):
    return 560 if tier == "quick" else 10000


def budget_s(tier):
    return 150 if tier == "quick" else 1500


BASES = ["a", "b", "c", "f", "i", "l", "T", "h", "A", "Aacute", "zero", "one", "period", "acutecomb",
         "s", "t", "e", "o", "n", "longs"]
CPS = {"a": 0x61, "b": 0x62, "c": 0x63, "f": 0x66, "i": 0x69, "l": 0x6C, "T": 0x54, "h": 0x68,
       "A": 0x41, "Aacute": 0xC1, "zero": 0x30, "one": 0x31, "period": 0x2E, "acutecomb": 0x301,
       "s": 0x73, "t": 0x74, "e": 0x65, "o": 0x6F, "n": 0x6E, "longs": 0x17F}
BOX = [[0, 0, "line"], [80, 0, "line"], [80, 90, "line"], [0, 90, "line"]]


def gen(rng, idx, tier):
    r = rng.random()
    stratum = "default"
    if r < 0.09:
        stratum = "variable"
    n = rng.randint(2, 10)
    names = rng.sample(BASES, n)
    glyphs = {}
    for nm in names:
        glyphs[nm] = {"unicodes": [CPS[nm]] if rng.random() < 0.85 else []}
    extra = []
    for _ in range(rng.randint(1, 10)):
        q = rng.random()
        base = rng.choice(names)
        if q < 0.25:
            extra.append(base + "." + rng.choice(["alt", "sc", "ss01", "001", "alt.sc"]))
        elif q < 0.45:
            parts = [rng.choice(names) for _ in range(rng.randint(2, 3))]
            nm = "_".join(parts)
            if rng.random() < 0.4:
                nm += "." + rng.choice(["liga", "sc"])
                for p in parts:
                    if rng.random() < 0.6:
                        extra.append(p + "." + nm.split(".", 1)[1])
            extra.append(nm)
        elif q < 0.55:
            extra.append("uni%04X" % CPS[base])           # collides with a generated name
        elif q < 0.62:
            extra.append("uni%04X.alt" % CPS[base])
        elif q < 0.70:
            extra.append(base + "_" + "x" * rng.choice([58, 64, 70]))     # > 63 chars
        elif q < 0.80:
            # characters a feature file accepts in glyph names but PostScript names do not
            extra.append(base + rng.choice(["-", "+", "*", "~", ":", "^", "!"]) + "z")
        elif q < 0.88:
            extra.append("sup" + str(len(extra)))
        else:
            extra.append(base + ".alt")
    sups = [nm for nm in extra if nm.startswith("sup")]
    if sups and rng.random() < 0.7:
        # ligatures mixing BMP and supplementary-plane parts (uniXXXX_uXXXXX, never one uni... run)
        for _ in range(rng.randint(1, 2)):
            parts = [rng.choice(names), rng.choice(sups)]
            if rng.random() < 0.4:
                parts.append(rng.choice(names + sups))
            rng.shuffle(parts)
            extra.append("_".join(parts))
    for nm in extra:
        if nm not in glyphs:
            g = {"unicodes": []}
            if nm.startswith("sup"):
                g["unicodes"] = [rng.choice([0x1F600, 0x10400, 0x1D49C]) + len(glyphs)]
            elif rng.random() < 0.1:
                g["unicodes"] = [0xE000 + len(glyphs)]
            glyphs[nm] = g
    if rng.random() < 0.5:
        glyphs[".notdef"] = {"unicodes": []}
    order = list(glyphs)
    rng.shuffle(order)
    specs = []
    for i, nm in enumerate(order):
        specs.append({"name": nm, "width": 400 + 10 * i, "unicodes": glyphs[nm]["unicodes"],
                      "contours": [[[p[0] + i, p[1], p[2]] for p in BOX]], "components": [],
                      "anchors": []})
    real = [g for g in specs if g["name"] != ".notdef"]
    # layout data so that GPOS / GDEF / GSUB exist and refer to glyph indices
    kerning = []
    for _ in range(rng.randint(1, 5)):
        a, b = rng.choice(real)["name"], rng.choice(real)["name"]
        kerning.append([a, b, rng.choice([-30, 20, -55])])
    kerning = [list(v) for v in {(a, b): (a, b, c) for a, b, c in kerning}.values()]
    if len(real) >= 2:
        real[0]["anchors"] = [{"name": "top", "x": 40, "y": 90}]
        real[1]["anchors"] = [{"name": "_top", "x": 40, "y": 0}]
    features = ""
    if len(real) >= 3 and all(_fea_ok(g["name"]) for g in real[:3]):
        features = "feature liga { sub %s %s by %s; } liga;\n" % (
            real[0]["name"], real[1]["name"], real[2]["name"])
    lib = {}
    q = rng.random()
    psn = None
    if q < 0.45:
        psn = {}
        for g in specs:
            z = rng.random()
            if z < 0.5:
                psn[g["name"]] = rng.choice(["prod%d" % len(psn), "uni%04X" % (0x100 + len(psn)),
                                             "dup.name", "dup.name", "dup.name.1", "dup.name",
                                             "bad (name)%d" % len(psn),
                                             "", "x" * 70, "été%d" % len(psn)])
        if rng.random() < 0.15:
            psn = {}
        if psn and rng.random() < 0.04:
            stratum = "only_illegal_chars"
            psn[rng.choice(list(psn))] = rng.choice(["(+)", "-", "***"])
        if ".notdef" in psn:
            if rng.random() < 0.3:
                stratum = "notdef_renamed"
            else:
                del psn[".notdef"]
        lib["public.postscriptNames"] = psn
    z = rng.random()
    if z < 0.2:
        lib["com.github.googlei18n.ufo2ft.useProductionNames"] = rng.random() < 0.5
    elif z < 0.3:
        lib["com.schriftgestaltung.Don't use Production Names"] = rng.random() < 0.7
    if rng.random() < 0.15:
        lib["com.github.googlei18n.ufo2ft.keepGlyphNames"] = rng.random() < 0.5
    fmt = rng.choice(["ttf", "cff", "cff2"])
    return {"stratum": stratum, "fmt": fmt, "lib": rng.choice(["defcon", "ufoLib2"]),
            "vf_sub_range": stratum == "variable" and rng.random() < 0.5,
            "ufo": {"glyphs": specs, "kerning": kerning, "features": features, "lib": lib,
                    "info": {"unitsPerEm": 1000, "familyName": "T", "styleName": "R"}}}


def _fea_ok(name):
    return re.match(r"^[A-Za-z_][A-Za-z0-9_.]*$", name) is not None


def sample_view(case):
    return {"stratum": case["stratum"], "fmt": case["fmt"], "lib": case["lib"],
            "glyphs": [(g["name"], g["unicodes"]) for g in case["ufo"]["glyphs"]],
            "ufo_lib": case["ufo"]["lib"]}


# ---------------------------------------------------------------- R-prodname

def rule_names(glyphs, psn):
    """glyphs: {name: first unicode or None}.  Returns {name: set of admissible rule names} BEFORE
    stripping / uniqueness."""
    out = {}

    def uni(cp):
        return ("u%04X" if cp > 0xFFFF else "uni%04X") % cp

    def prod(name, depth=0):
        if psn:
            v = psn.get(name)
            if v:
                return {v}
            # glyph not covered by a non-empty map: keep the name, or fall through to the code
            # point rules (statement leaves it open)
            alts = {name}
            if depth == 0:
                alts |= by_rules(name, depth)
            return alts
        return by_rules(name, depth)

    def by_rules(name, depth):
        cp = glyphs.get(name)
        if cp is not None:
            return {uni(cp)}
        if depth > 6:
            return {name}
        if "." in name:
            base, suffix = name.rsplit(".", 1)
            if base in glyphs:
                return {p + "." + suffix for p in by_rules(base, depth + 1)}
        parts = name.split(".", 1)
        if len(parts) == 2:
            liga = ["%s.%s" % (n, parts[1]) for n in parts[0].split("_")]
        else:
            liga = name.split("_")
        if len(liga) > 1 and all(n in glyphs for n in liga):
            cps = [glyphs[n] for n in liga]
            if all(c is not None and c <= 0xFFFF for c in cps):
                return {"uni" + "".join("%04X" % c for c in cps)}
            combos = [""]
            for n in liga:
                combos = [c + ("_" if c else "") + p for c in combos
                          for p in by_rules(n, depth + 1)]
            return set(combos)
        return {name}

    for name in glyphs:
        out[name] = prod(name)
    return out


STRIP = re.compile(r"[^0-9a-zA-Z_.]")


def admissible_final(name, rules):
    """Set of admissible final names modulo the uniqueness suffix."""
    out = set()
    for r in rules:
        v = STRIP.sub("", r) if r != name else STRIP.sub("", name)
        if len(v) > 63:
            out.add(STRIP.sub("", name))     # too long: fall back to the original name
            out.add(v)                       # ... or keep it with a warning (original too long)
        elif not v:
            # nothing legal is left of the supplied name: the original name (a final name must
            # not be empty - the same fall-back as for names that are too long)
            out.add(STRIP.sub("", name))
        else:
            out.add(v)
    return out


def compile_one(case, names, doc_lib=None):
    import ufo2ft
    from fontTools.ttLib import TTFont
    spec = case["ufo"]
    kw = {}
    if names is not None:
        kw["useProductionNames"] = names
    if case["stratum"] == "variable":
        ds = {"axes": [{"name": "Weight", "tag": "wght", "min": 400, "default": 400, "max": 700}],
              "ufos": [spec, _bold(spec)],
              "sources": [{"ufo": 0, "location": {"Weight": 400}, "name": "m0"},
                          {"ufo": 1, "location": {"Weight": 700}, "name": "m1"}]}
        if case.get("vf_sub_range"):
            # the designspace default is a THIRD master (Weight 100) with names and switches of
            # its own; the variable font covers 400..700 with its default at 400: its names come
            # from ITS default source (the judged font), not from the designspace default
            import copy
            light = _bold(spec)
            light["info"]["styleName"] = "L"
            light["lib"] = copy.deepcopy(spec["lib"])
            light["lib"]["public.postscriptNames"] = {
                g["name"]: "decoy%d" % i for i, g in enumerate(spec["glyphs"]) if g["name"] != ".notdef"}
            for k in ("com.github.googlei18n.ufo2ft.useProductionNames",
                      "com.schriftgestaltung.Don't use Production Names",
                      "com.github.googlei18n.ufo2ft.keepGlyphNames"):
                light["lib"].pop(k, None)
            ds["axes"][0].update({"min": 100, "default": 100})
            ds["ufos"].append(light)
            ds["sources"].insert(0, {"ufo": 2, "location": {"Weight": 100}, "name": "m_light"})
            ds["variableFonts"] = [{"name": "Sub", "axisSubsets": [
                {"name": "Weight", "range": [400, 400, 700]}]}]
        doc, _ = build_designspace(ds, case["lib"])
        if case.get("vf_sub_range"):
            f = ufo2ft.compileVariableTTFs if case["fmt"] == "ttf" else ufo2ft.compileVariableCFF2s
            tt = f(doc, **kw)["Sub"]
        elif case["fmt"] == "ttf":
            tt = ufo2ft.compileVariableTTF(doc, **kw)
        else:
            tt = ufo2ft.compileVariableCFF2(doc, **kw)
    else:
        font = build_ufo(spec, case["lib"])
        if case["fmt"] == "ttf":
            tt = ufo2ft.compileTTF(font, **kw)
        elif case["fmt"] == "cff":
            tt = ufo2ft.compileOTF(font, **kw)
        else:
            tt = ufo2ft.compileOTF(font, cffVersion=2, **kw)
    buf = io.BytesIO()
    tt.save(buf)
    data = buf.getvalue()
    return data, TTFont(io.BytesIO(data))


def _bold(spec):
    import copy
    s = copy.deepcopy(spec)
    s["info"]["styleName"] = "B"
    for g in s["glyphs"]:
        g["width"] += 40
        for c in g["contours"]:
            for p in c:
                p[0] = p[0] * 1.25
    return s


def table_bytes(tt):
    out = {}
    for tag in tt.reader.keys():
        d = tt.reader[tag]
        if tag == "head":
            d = d[:8] + b"\0\0\0\0" + d[12:]
        out[tag] = d
    return out


NAME_CARRIERS = {"post", "CFF "}


def run(case):
    from fontTools.pens.recordingPen import RecordingPen
    counters = {}

    def bump(k, n=1):
        counters[k] = counters.get(k, 0) + n

    violations = []
    spec = case["ufo"]
    src = {g["name"]: (g["unicodes"][0] if g["unicodes"] else None) for g in spec["glyphs"]}
    psn = spec["lib"].get("public.postscriptNames")
    try:
        d_off, t_off = compile_one(case, False)
    except Exception:  # noqa: BLE001
        return {"status": "violated", "counters": counters, "violations": [
            {"mech": "names_off_exception", "detail": {"trace": traceback.format_exc()[-2500:]}}]}
    results = {}
    for mode in (True, None):
        try:
            results[mode] = compile_one(case, mode)
        except Exception:  # noqa: BLE001
            violations.append({"mech": "names_%s_exception" % ("on" if mode else "default"),
                               "detail": {"trace": traceback.format_exc()[-2500:]}})
    order_off = t_off.getGlyphOrder()
    b_off = table_bytes(t_off)
    renamed_any = False
    n_tables = 0
    for mode, (data, tt) in results.items():
        if mode is None:
            bump("lib_default_compiles")
        if case.get("vf_sub_range"):
            bump("variable_fonts_with_own_default_source")
        # names are absent from the font only when 'post' is format 3 AND there is no CFF 1
        # charset (CFF 1 fonts always have a format 3 'post': their names live in the charset)
        post3 = "post" in tt and tt["post"].formatType == 3.0 and "CFF " not in tt
        if post3 and mode is True and case["fmt"] == "ttf":
            # an explicit useProductionNames argument decides alone: the lib's keepGlyphNames
            # switch only applies when the caller leaves the decision to the lib
            violations.append({"mech": "names_dropped_despite_explicit_argument", "detail": {
                "mode": str(mode), "lib": {k: v for k, v in spec["lib"].items() if "lyph" in k or "roduction" in k}}})
        b_on = table_bytes(tt)
        bump("pairs_compared")
        if set(b_on) != set(b_off):
            violations.append({"mech": "table_set_differs", "detail": {
                "mode": str(mode), "only_off": sorted(set(b_off) - set(b_on)),
                "only_on": sorted(set(b_on) - set(b_off))}})
        for tag in sorted(set(b_on) & set(b_off)):
            if tag in NAME_CARRIERS:
                continue
            n_tables += 1
            if b_on[tag] != b_off[tag]:
                violations.append({"mech": "table_bytes_differ", "detail": {
                    "mode": str(mode), "table": tag, "len": [len(b_off[tag]), len(b_on[tag])]}})
            else:
                bump("tables_identical")
        order_on = tt.getGlyphOrder()
        if len(order_on) != len(order_off):
            violations.append({"mech": "glyph_count_differs", "detail": {"mode": str(mode)}})
            continue
        if post3:
            bump("post3_fonts")
        # CFF 1: same drawing and same non-name dict values per glyph index
        if "CFF " in tt and "CFF " in t_off:
            gs_on, gs_off = tt.getGlyphSet(), t_off.getGlyphSet()
            for i in range(len(order_on)):
                ra, rb = RecordingPen(), RecordingPen()
                gs_off[order_off[i]].draw(ra)
                gs_on[order_on[i]].draw(rb)
                bump("cff_charstrings_compared")
                if ra.value != rb.value:
                    violations.append({"mech": "cff_charstring_differs", "detail": {
                        "mode": str(mode), "index": i, "names": [order_off[i], order_on[i]]}})
                    break
            ta, tb = t_off["CFF "].cff.topDictIndex[0], tt["CFF "].cff.topDictIndex[0]
            for key in ("FontBBox", "FontMatrix", "UnderlinePosition", "UnderlineThickness",
                        "ItalicAngle", "isFixedPitch", "FullName", "FamilyName", "Weight",
                        "Notice", "Copyright", "version"):
                if getattr(ta, key, None) != getattr(tb, key, None):
                    violations.append({"mech": "cff_topdict_differs", "detail": {
                        "mode": str(mode), "key": key}})
            pa, pb = ta.Private, tb.Private
            for key in ("defaultWidthX", "nominalWidthX", "BlueValues", "StdHW", "StdVW"):
                if getattr(pa, key, None) != getattr(pb, key, None):
                    violations.append({"mech": "cff_private_differs", "detail": {
                        "mode": str(mode), "key": key}})
        if post3:
            continue
        # ---- the lib decides when the caller does not: ufo2ft's own key first, else the Glyphs
        # legacy opt-out, else 'on' exactly when public.postscriptNames is present
        if mode is None:
            L_ = spec["lib"]
            use_ = L_.get("com.github.googlei18n.ufo2ft.useProductionNames",
                          (not L_.get("com.schriftgestaltung.Don't use Production Names"))
                          and psn is not None)
            bump("lib_decides_names_%s" % ("on" if use_ else "off"))
            if not use_ and order_on != order_off:
                violations.append({"mech": "lib_switch_not_honoured", "detail": {
                    "lib": {k: v for k, v in L_.items() if "roduction" in k or "lyphNames" in k},
                    "renamed": [[a, b] for a, b in zip(order_off, order_on) if a != b][:6]}})
                continue
        # ---- names
        # (keepGlyphNames = false asks for NO names: where the format cannot drop them - CFF 1 -
        # the compiler keeps the source names, which is not judged)
        keep_ = spec["lib"].get("com.github.googlei18n.ufo2ft.keepGlyphNames", True)
        if mode is True or (mode is None and use_ and keep_) or order_on != order_off:
            rules = rule_names(src, psn)
            seen = set()
            for i, (old, new) in enumerate(zip(order_off, order_on)):
                if new in seen:
                    violations.append({"mech": "duplicate_final_name", "detail": {
                        "mode": str(mode), "name": new}})
                seen.add(new)
                if old not in src:
                    continue            # synthesised .notdef keeps its name
                adm = admissible_final(old, rules[old])
                if old == ".notdef":
                    # glyph 0 keeps its name whatever the lib says (OpenType / CFF require it)
                    adm = {".notdef"}
                base_ok = new in adm
                suffixed = any(new.startswith(a + ".") and new[len(a) + 1:].isdigit() for a in adm)
                if not (base_ok or suffixed):
                    violations.append({"mech": "final_name_rule", "detail": {
                        "mode": str(mode), "glyph": old, "got": new, "admissible": sorted(adm)[:6]}})
                elif suffixed and not base_ok:
                    bump("collisions_resolved")
                if not LEGAL.match(new):
                    violations.append({"mech": "illegal_final_name", "detail": {
                        "mode": str(mode), "glyph": old, "got": new}})
                if new != old:
                    renamed_any = True
                    bump("renamed_glyphs")
                    if psn and psn.get(old):
                        bump("lib_names")
                        if STRIP.search(psn[old]):
                            bump("illegal_chars_stripped")
                    elif re.match(r"^uni[0-9A-F]{4}$", new):
                        bump("uni_names")
                    elif re.match(r"^u[0-9A-F]{5,6}$", new):
                        bump("u_names")
                    elif re.match(r"^uni([0-9A-F]{4}){2,}", new) or "_" in new:
                        bump("ligature_names")
                    elif "." in new:
                        bump("suffix_names")
    nontrivial = bool(results) and renamed_any and n_tables >= 8
    return {"status": "violated" if violations else "held", "violations": violations,
            "counters": counters, "nontrivial": nontrivial}


def classify(v, case):
    psn = case["ufo"]["lib"].get("public.postscriptNames") or {}
    if v["mech"] in ("final_name_rule", "illegal_final_name", "duplicate_final_name"):
        g = v["detail"].get("glyph")
        empties = [k for k, val in psn.items() if val and not STRIP.sub("", val)]
        if empties and (g in empties or v["mech"] == "duplicate_final_name"):
            return "production_name_empty_after_stripping"
    if (v["mech"] in ("names_on_exception", "names_default_exception")
            and psn.get(".notdef") and "CharsetCompiler" in v["detail"].get("trace", "")
            and "assert charset[0] == \".notdef\"" in v["detail"].get("trace", "")):
        return "postscriptNames_renames_notdef_cff_assertion"
    return None
