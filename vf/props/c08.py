"""C08 - Output is a pure function of UFO content and options.

Every case is compiled in FRESH interpreters started with different PYTHONHASHSEED values; inside
each interpreter under the variants {defcon, ufoLib2} x {built in memory, saved and re-opened} x
{first call, second call on the same objects, after another compile function ran on the same
objects, inplace=True on a private copy}.  M-bytes: sha256 per saved table (head checksum masked).
Oracle: for a fixed (case, function, options) all digests are equal; a mismatch is localised to
the table.
"""
import json
import os
import shutil
import subprocess
import sys
import tempfile

import vf  # noqa: F401
from vf import VERIF
from vf.gen import masters
from vf.gen import scripts as S
from vf.props.c01 import bounded_font

ID = "C08"
RULE = ("case = generated UFO (component graph, kerning groups on both sides, several mark "
        "classes, multi-script repertoire, categories, GSUB features, lib filters incl. "
        "propagateAnchors) or generated 2-3 master designspace, with a complete public.glyphOrder; "
        "compiled by compileTTF / compileOTF / compileVariableTTF / compileVariableCFF2 / "
        "compileInterpolatableTTFsFromDS in 4 (thorough: 8) fresh interpreters with different "
        "PYTHONHASHSEED, each under 2 libraries x memory/disk x 4 call histories; distinct = sha1 of "
        "the case; non-trivial = >= 24 digests were produced and compared")
ASSUMPTIONS = [
    "SOURCE_DATE_EPOCH pinned; head.checkSumAdjustment masked",
    "public.glyphOrder lists every glyph (defcon and ufoLib2 report different stored orders for "
    "unlisted glyphs, see C03)",
    "ufo2ft is single-threaded: the only schedule non-determinism is hash / iteration order and "
    "call history, which is what is swept",
]
NONVACUITY = ["cases_partial_glyph_order", "cases_compared", "digests_compared", "hash_seeds_run", "variants_lib",
              "variants_disk", "variants_second_call", "variants_after_other", "variants_inplace",
              "cases_multi_mark_classes", "cases_kern_groups", "cases_multi_script",
              "cases_designspace"]


def n_cases(tier):
    return 64 if tier == "quick" else 700


def budget_s(tier):
    return 170 if tier == "quick" else 1700


def seeds(tier):
    return [0, 1, 2, 3] if tier == "quick" else [0, 1, 2, 3, 4, 5, 6, 7]


FIXTURES = [("TestFont.ufo", "compileTTF"), ("TestFont.ufo", "compileOTF"),
            ("MultipleAnchorClasses.ufo", "compileTTF"), ("ColorTest.ufo", "compileOTF"),
            ("TestMathFont-Regular.ufo", "compileOTF"), ("DottedCircleTest.ufo", "compileTTF"),
            ("TestVarfea.designspace", "compileVariableTTF"),
            ("TestVarFont.designspace", "compileVariableCFF2s"),
            ("SkipExportGlyphsTest.designspace", "compileInterpolatableTTFsFromDS"),
            ("CantarellAnchorPropagation.ufo", "compileTTF")]


def gen_dotted_circle_average(rng, tier):
    """The dottedCircle filter gives U+25CC the AVERAGE position of an anchor over all bases:
    three fractional positions whose exact mean lies on a rounding boundary (508.5) - the result
    must not depend on the order in which the glyphs happen to be visited (creation order,
    sorted order after re-opening, set order under another hash seed)."""
    glyphs = []
    tops = [(250, 500.3), (240.7, 505.4), (262.1, 519.8), (250, 508.5)]
    bots = [(250, -100.3), (233.3, -105.4), (270.9, -119.8), (250, -108.5)]
    for i, (nm, cp) in enumerate((("a", 0x61), ("e", 0x65), ("o", 0x6F), ("n", 0x6E))):
        g = S._spec(rng, nm, [cp])
        g["width"] = 500
        g["anchors"] = [{"name": "top", "x": tops[i][0], "y": tops[i][1]},
                        {"name": "bottom", "x": bots[i][0], "y": bots[i][1]}]
        glyphs.append(g)
    for nm, cp, an in (("acutecomb", 0x301, "_top"), ("dotbelowcomb", 0x323, "_bottom")):
        g = S._spec(rng, nm, [cp], mark=True)
        g["anchors"] = [{"name": an, "x": 0, "y": 480 if an == "_top" else -20}]
        glyphs.append(g)
    dc = S._spec(rng, "uni25CC", [0x25CC])
    dc["width"] = 688
    glyphs.append(dc)
    glyphs.append(S._spec(rng, "space", [0x20], empty=True))
    rng.shuffle(glyphs)
    ufo = {"glyphs": glyphs, "kerning": [], "groups": {}, "features": "",
           "lib": {"com.github.googlei18n.ufo2ft.filters": [{"name": "dottedCircle", "pre": True}]},
           "glyphOrder": [g["name"] for g in glyphs],
           "info": {"unitsPerEm": 1000, "familyName": "T", "styleName": "R"}}
    func = rng.choice(["compileTTF", "compileOTF"])
    return {"kind": "outline", "ufo": ufo, "func": func, "opts": {}, "per_lib": False,
            "dotted_circle_average": True,
            "other_func": "compileOTF" if func == "compileTTF" else "compileTTF", "tier": tier}


def gen_flagged_components(rng, tier):
    """Dedicated stratum of the listed finding inplace_changes_component_flags_...: a chain
    c -> b -> a whose components carry identifiers, TrueType component flags on c's component,
    compiled with flattenComponents=True."""
    tri = [[[0, 0, "line"], [100, 0, "line"], [50, 80, "line"]]]
    glyphs = [
        {"name": "a", "width": 500, "unicodes": [0x61], "contours": tri, "components": [], "anchors": []},
        {"name": "b", "width": 500, "unicodes": [], "contours": [], "anchors": [],
         "components": [{"base": "a", "t": [1, 0, 0, 1, 10, 0], "id": "b.c0"}]},
        {"name": "c", "width": 500, "unicodes": [], "contours": [], "anchors": [],
         "components": [{"base": "b", "t": [1, 0, 0, 1, 0, 20], "id": "c.c0"}],
         "lib": {"public.objectLibs": {"c.c0": {"public.truetype.roundOffsetToGrid": False,
                                                "public.truetype.useMyMetrics": True}}}}]
    ufo = {"glyphs": glyphs, "kerning": [], "groups": {}, "features": "", "lib": {},
           "glyphOrder": [g["name"] for g in glyphs],
           "info": {"unitsPerEm": 1000, "familyName": "T", "styleName": "R"}}
    return {"kind": "outline", "ufo": ufo, "func": "compileTTF", "opts": {"flattenComponents": True},
            "per_lib": False, "other_func": "compileOTF", "tier": tier}


def gen_case_pairs(rng, tier):
    """Glyph names that differ in case only (a / A, v / V ...), none of them in the stored glyph
    order: whatever orders the unlisted glyphs must be a total order of the NAMES - anything
    coarser leaves the result to set iteration order, i.e. to the hash seed."""
    glyphs = []
    for nm, cp in (("space", 0x20), ("a", 0x61), ("A", 0x41), ("v", 0x76), ("V", 0x56), ("t", 0x74),
                   ("T", 0x54), ("w", 0x77), ("W", 0x57), ("o", 0x6F), ("O", 0x4F)):
        glyphs.append(S._spec(rng, nm, [cp], empty=(nm == "space")))
    rng.shuffle(glyphs)
    ufo = {"glyphs": glyphs, "kerning": [["A", "V", -40], ["a", "v", -10]], "groups": {},
           "features": "", "lib": {}, "glyphOrder": ["space"],
           "info": {"unitsPerEm": 1000, "familyName": "T", "styleName": "R"}}
    func = rng.choice(["compileTTF", "compileOTF"])
    return {"kind": "outline", "ufo": ufo, "func": func, "opts": {}, "per_lib": True, "case_pairs": True,
            "other_func": "compileOTF" if func == "compileTTF" else "compileTTF", "tier": tier}


def gen_shared_options(rng, tier):
    """Options that are OBJECTS (an ftConfig dict asking for GPOS compaction) shared by every
    call of the child interpreter - first call, second call, after another function, inplace:
    a call that leaves its mark on the caller's options changes the next call's output.  The
    family has two disjoint 12 x 12 blocks of class kerning, which compaction really splits."""
    n = 12
    ufos = []
    for weight in (400, 700):
        names = ["g%03d" % i for i in range(4 * n)]
        glyphs = [{"name": nm, "width": 500 + weight // 10, "unicodes": [0x100 + i],
                   "contours": [[[50, 0, "line"], [50, 400 + i, "line"],
                                 [300 + weight // 10, 400 + i, "line"], [300 + weight // 10, 0, "line"]]],
                   "components": [], "anchors": []} for i, nm in enumerate(names)]
        left, right = names[:2 * n], names[2 * n:]
        groups, kerning = {}, []
        for i in range(n):
            groups["public.kern1.A%02d" % i] = [left[i]]
            groups["public.kern1.B%02d" % i] = [left[n + i]]
            groups["public.kern2.A%02d" % i] = [right[i]]
            groups["public.kern2.B%02d" % i] = [right[n + i]]
        for block in "AB":
            for i in range(n):
                for j in range(n):
                    kerning.append(["public.kern1.%s%02d" % (block, i), "public.kern2.%s%02d" % (block, j),
                                    -(10 + 3 * i + 5 * j) - weight // 100])
        ufos.append({"glyphs": glyphs, "groups": groups, "kerning": kerning, "features": "",
                     "lib": {}, "glyphOrder": names,
                     "info": {"unitsPerEm": 1000, "familyName": "T", "styleName": "W%d" % weight,
                              "ascender": 800, "descender": -200, "xHeight": 500, "capHeight": 700}})
    ds = {"axes": [{"name": "Weight", "tag": "wght", "min": 400, "default": 400, "max": 700}],
          "ufos": ufos, "sources": [{"ufo": 0, "location": {"Weight": 400}, "name": "m400"},
                                    {"ufo": 1, "location": {"Weight": 700}, "name": "m700"}]}
    return {"kind": "ds", "shared_options": True, "ds": ds,
            "func": rng.choice(["compileVariableTTF", "compileVariableCFF2"]),
            "opts": {"ftConfig": {"fontTools.otlLib.optimize.gpos:COMPRESSION_LEVEL": 9}},
            "other_func": "compileVariableTTF", "tier": tier}


def gen(rng, idx, tier):
    if idx < len(FIXTURES):
        fx, func = FIXTURES[idx]
        static = fx.endswith(".ufo")
        return {"kind": "fixture", "fixture": fx, "func": func, "opts": {}, "tier": tier,
                "other_func": ("compileOTF" if func == "compileTTF" else "compileTTF") if static
                else "compileTTF"}
    if idx == len(FIXTURES):
        return gen_shared_options(rng, tier)
    if idx == len(FIXTURES) + 1:
        return gen_case_pairs(rng, tier)
    if idx == len(FIXTURES) + 2:
        return gen_dotted_circle_average(rng, tier)
    if idx == len(FIXTURES) + 3:
        return gen_flagged_components(rng, tier)
    r = rng.random()
    if r < 0.3:
        ds = masters.family(rng, n_glyphs=rng.choice([4, 6]), missing_glyph=False,
                            extra_glyph=False, rules=rng.choice([0, 1]))
        for u in ds["ufos"]:
            u["glyphOrder"] = [g["name"] for g in u["glyphs"]]
        func = rng.choice(["compileVariableTTF", "compileVariableCFF2",
                           "compileInterpolatableTTFsFromDS"])
        if rng.random() < 0.5:
            # a feature file in the default master only (the other masters have none: None in
            # one UFO library, the empty string in the other)
            di_ = masters.default_source_index(ds)
            for ui_, u in enumerate(ds["ufos"]):
                u["features"] = ("languagesystem DFLT dflt;\nlanguagesystem latn dflt;\n"
                                 if ui_ == ds["sources"][di_]["ufo"] else "")
            ds.setdefault("meta", {})["features_in_default_master_only"] = True
        return {"kind": "ds", "ds": ds, "func": func, "opts": {},
                "other_func": rng.choice(["compileTTF", "compileVariableTTF", None]),
                "tier": tier}
    if r < 0.65:
        # layout-heavy font: where set / dict iteration order could leak
        glyphs, desc = S.repertoire(rng, scripts=rng.sample(["Latn", "Cyrl", "Arab", "Deva", "Grek"],
                                                            rng.choice([1, 2, 3])), n=8,
                                    n_marks=3, n_unencoded=3)
        classes = S.add_mark_anchors(rng, glyphs, desc, classes=("top", "bottom", "ogonek"))
        kerning, groups = S.script_kerning(rng, desc, per_script=4)
        names = [g["name"] for g in glyphs if g["name"] != ".notdef"]
        for side in ("public.kern1.", "public.kern2."):
            for i in range(3):
                groups.setdefault(side + "X%d" % i, rng.sample(names, min(len(names), 3)))
        # disjoint partitions per side
        for side in ("public.kern1.", "public.kern2."):
            seen = set()
            for k in sorted(k for k in groups if k.startswith(side)):
                groups[k] = [m for m in groups[k] if m not in seen]
                seen |= set(groups[k])
        kerning += [["public.kern1.X0", "public.kern2.X1", -20], ["public.kern1.X2", names[0], 15]]
        features, rules = S.gsub_alternates(rng, desc, languagesystems=[("DFLT", "dflt"), ("latn", "dflt")])
        lib = {"public.openTypeCategories": {g["name"]: ("mark" if desc[g["name"]]["mark"] else "base")
                                             for g in glyphs if g["name"] != ".notdef"}}
        if rng.random() < 0.45:
            # mark classes grouped by graph colouring (non-default option): marks that carry
            # several mark anchors make classes conflict, further classes give the colouring a
            # choice
            marks = [g for g in glyphs if desc[g["name"]]["mark"]]
            cl = rng.sample(["top", "bottom", "ogonek"], 3)
            if len(marks) >= 2:
                # one mark in two classes (they conflict), another mark in a third class only
                def mk(c):
                    return {"name": "_" + c, "x": rng.randint(-50, 50), "y": rng.randint(0, 600)}
                marks[0]["anchors"] = [mk(cl[0]), mk(cl[1])]
                marks[1]["anchors"] = [mk(cl[2])]
                for g in marks[2:]:
                    g["anchors"] = [mk(rng.choice(cl))]
                for g in glyphs:
                    if not desc[g["name"]]["mark"] and g["name"] not in (".notdef", "space") \
                            and not any(a["name"] in cl for a in g["anchors"]):
                        if desc[g["name"]]["kind"] == "letter":
                            g["anchors"] += [{"name": c, "x": 250, "y": 500 + 30 * i}
                                             for i, c in enumerate(cl)]
            lib["com.github.googlei18n.ufo2ft.featureWriters"] = [
                {"class": "CursFeatureWriter"}, {"class": "KernFeatureWriter"},
                {"class": "MarkFeatureWriter", "options": {"groupMarkClasses": True}},
                {"class": "GdefFeatureWriter"}]
        if classes and rng.random() < 0.4:
            # a contextual anchor ('*cls' + identifier + public.objectLibs entry in the glyph lib)
            letters = [g for g in glyphs if desc[g["name"]]["kind"] == "letter"
                       and any(a["name"] == classes[0] for a in g["anchors"])]
            if len(letters) >= 2:
                g0, g1 = letters[0], letters[1]
                ident = "ctx%04d" % rng.randint(0, 9999)
                g0["anchors"].append({"name": "*" + classes[0], "x": 111, "y": 555,
                                      "identifier": ident})
                g0.setdefault("lib", {})["public.objectLibs"] = {
                    ident: {"GPOS_Context": "%s *" % g1["name"]}}
        ufo = {"glyphs": glyphs, "kerning": kerning, "groups": groups, "features": features,
               "lib": lib, "info": {"unitsPerEm": 1000, "familyName": "T", "styleName": "R"}}
        kind = "layout"
    else:
        glyphs = bounded_font(rng, rng.choice(["mixed", "int"]), tmode="tt", allow_degenerate=False)
        for g in glyphs:
            if rng.random() < 0.5 and g["name"] != ".notdef":
                g["anchors"] = [{"name": rng.choice(["top", "bottom", "_top"]), "x": 100, "y": 300}]
        simple = [g for g in glyphs if g["contours"] and not g["components"]
                  and g["name"] != ".notdef"]
        if len(simple) >= 2 and rng.random() < 0.4:
            # anchor names that collide during propagation: 'top' of two components becomes
            # top_1 / top_2 while a third component (itself a propagated composite) already
            # carries top_1 / top_2
            b1, b2 = simple[0], simple[1]
            for b, xy in ((b1, (120, 310)), (b2, (80, 280))):
                b["anchors"] = [{"name": "top", "x": xy[0], "y": xy[1]}]
            glyphs.append({"name": "lig.one", "width": 700, "unicodes": [], "contours": [],
                           "anchors": [], "components": [
                               {"base": b1["name"], "t": [1, 0, 0, 1, 0, 0]},
                               {"base": b2["name"], "t": [1, 0, 0, 1, 350, 0]}]})
            glyphs.append({"name": "lig.two", "width": 900, "unicodes": [], "contours": [],
                           "anchors": [], "components": [
                               {"base": "lig.one", "t": [1, 0, 0, 1, 17, 40]},
                               {"base": b2["name"], "t": [1, 0, 0, 1, 500, -30]},
                               {"base": b1["name"], "t": [1, 0, 0, 1, 700, 25]}]})
        if rng.random() < 0.4:
            # a mark made of marks ('hookcomb_barcomb'): anchor propagation promotes the component
            # whose OUTLINE box corner is closest to the origin; one component is a curve whose
            # control points reach far outside its outline box, the other one's corner lies
            # (mostly) between the two boxes' corners
            a, b = rng.randint(0, 60), rng.randint(200, 400)
            hook = [[a + 100, b + 100, "line"], [a, b, None], [a + 200, b, None],
                    [a + 120, b + 100, "curve"]]
            ox, oy = (35, 12) if rng.random() < 0.75 else rng.choice([(-40, -30), (150, 90)])
            bar = [[a + ox, b + oy, "line"], [a + ox + 150, b + oy, "line"],
                   [a + ox + 150, b + oy + 20, "line"], [a + ox, b + oy + 20, "line"]]
            glyphs.append({"name": "hookcomb", "width": 0, "unicodes": [0x309], "contours": [hook],
                           "components": [], "anchors": [
                               {"name": "_top", "x": a + 100, "y": b + 150},
                               {"name": "top", "x": a + 100, "y": b + 260}]})
            glyphs.append({"name": "barcomb", "width": 0, "unicodes": [0x304], "contours": [bar],
                           "components": [], "anchors": [
                               {"name": "_top", "x": a + 80, "y": b + 30},
                               {"name": "top", "x": a + 80, "y": b + 90}]})
            comps = [{"base": "hookcomb", "t": [1, 0, 0, 1, 0, 0]},
                     {"base": "barcomb", "t": [1, 0, 0, 1, 0, 0]}]
            rng.shuffle(comps)
            glyphs.append({"name": "hookcomb_barcomb", "width": 0, "unicodes": [], "contours": [],
                           "components": comps, "anchors": []})
            if not any(a_["name"] == "top" for g in glyphs for a_ in g["anchors"]
                       if g["name"] not in ("hookcomb", "barcomb")) and simple:
                simple[0]["anchors"] = [{"name": "top", "x": 200, "y": 600}]
        lib = {"com.github.googlei18n.ufo2ft.filters": [
            {"name": "propagateAnchors", "pre": True}, {"name": "sortContours"}]}
        if rng.random() < 0.25:
            # UFO 3 identifiers on components + per-component TrueType flags in the glyph lib
            for g in glyphs:
                for k_, c_ in enumerate(g["components"]):
                    c_["id"] = "%s.c%d" % (g["name"], k_)
                if g["components"] and rng.random() < 0.6:
                    g.setdefault("lib", {})["public.objectLibs"] = {
                        g["components"][0]["id"]: {
                            "public.truetype.roundOffsetToGrid": rng.random() < 0.5,
                            "public.truetype.useMyMetrics": rng.random() < 0.5}}
        if simple and rng.random() < 0.3:
            # anchors that the writers turn into GDEF carets and cursive records, on glyphs that
            # a filter of the user's moves: the tables must be built from the moved anchors
            # whether or not the compile is in place
            tgt = simple[-1]
            tgt["anchors"] = [a for a in tgt["anchors"] if a["name"] in ("top", "bottom")] + [
                {"name": "caret_1", "x": 210, "y": 0}, {"name": "vcaret_1", "x": 0, "y": 330},
                {"name": "entry", "x": 15, "y": 40}, {"name": "exit", "x": 480, "y": 55}]
            if len(simple) > 1:
                simple[0]["anchors"] = [a for a in simple[0]["anchors"] if a["name"] == "top"] + [
                    {"name": "entry", "x": 5, "y": 20}, {"name": "exit", "x": 390, "y": 25}]
            lib["com.github.googlei18n.ufo2ft.filters"].append(
                {"name": "transformations", "pre": rng.random() < 0.5,
                 "kwargs": {"OffsetX": rng.choice([0, 30]), "OffsetY": rng.choice([70, -45])}})
            lib["public.openTypeCategories"] = {tgt["name"]: "ligature"}
        if rng.random() < 0.25:
            # a curve conversion of the user's own that remembers what it did (in the glyph
            # set's lib - which, not being compiled in place, is not the caller's)
            lib["com.github.googlei18n.ufo2ft.filters"].append(
                {"name": "cubicToQuadratic", "pre": rng.random() < 0.5,
                 "kwargs": {"rememberCurveType": True}})
        ufo = {"glyphs": glyphs, "kerning": [], "groups": {}, "features": "", "lib": lib,
               "info": {"unitsPerEm": 1000, "familyName": "T", "styleName": "R"}}
        kind = "outline"
    ufo["glyphOrder"] = [g["name"] for g in ufo["glyphs"]]
    partial = rng.random() < 0.3
    if partial:
        # only part of the glyphs is listed: the rest is ordered by the compiler; the two UFO
        # libraries report different stored orders then (C03), so digests are compared per library
        ufo["glyphOrder"] = ufo["glyphOrder"][:len(ufo["glyphOrder"]) // 2]
    func = rng.choice(["compileTTF", "compileOTF"])
    opts = {}
    if rng.random() < 0.3:
        opts["removeOverlaps"] = False
    if func == "compileTTF" and rng.random() < 0.3:
        opts["flattenComponents"] = True
    opts_objects = None
    if rng.random() < 0.3:
        # writer / filter INSTANCES shared by every call of one interpreter
        opts_objects = {}
        if rng.random() < 0.7:
            wl = [{"class": "KernFeatureWriter", "options": rng.choice([{}, {"ignoreMarks": False}])},
                  {"class": "MarkFeatureWriter", "options": rng.choice([{}, {"quantization": 10}])},
                  {"class": "GdefFeatureWriter"}, {"class": "CursFeatureWriter"}]
            opts_objects["featureWriters"] = wl[:rng.randint(2, 4)]
        if kind == "outline" and rng.random() < 0.7:
            opts_objects["filters"] = rng.sample([
                {"class": "DecomposeTransformedComponentsFilter", "options": {"pre": True}},
                {"class": "TransformationsFilter", "options": {"OffsetX": 10, "pre": True}},
                {"class": "ReverseContourDirectionFilter", "options": {}},
                {"class": "FlattenComponentsFilter", "options": {"pre": True}},
                {"class": "CubicToQuadraticFilter", "options": {"rememberCurveType": True}},
                {"class": "CubicToQuadraticFilter", "options": {"rememberCurveType": True, "pre": True}},
            ], rng.randint(1, 2))
        if not opts_objects:
            opts_objects = None
    return {"kind": kind, "ufo": ufo, "func": func, "opts": opts, "per_lib": partial,
            "epoch": rng.choice([None, None, 0, 0, 86400]), "opts_objects": opts_objects,
            "other_func": "compileOTF" if func == "compileTTF" else "compileTTF", "tier": tier}


def sample_view(case):
    v = {"kind": case["kind"], "func": case["func"], "opts": case["opts"],
         "other_func": case["other_func"]}
    if "fixture" in case:
        v["fixture"] = case["fixture"]
    elif "ufo" in case:
        v["glyphs"] = [g["name"] for g in case["ufo"]["glyphs"]]
        v["groups"] = case["ufo"]["groups"]
    else:
        v["ds_meta"] = case["ds"].get("meta")
    return v


def run(case):
    counters = {}

    def bump(k, n=1):
        counters[k] = counters.get(k, 0) + n

    tmp = tempfile.mkdtemp(prefix="vfc08p_")
    try:
        path = os.path.join(tmp, "case.json")
        json.dump(case, open(path, "w"))
        per_seed = {}
        for seed in seeds(case.get("tier", "quick")):
            env = dict(os.environ, PYTHONHASHSEED=str(seed))
            if case.get("epoch") is not None:
                # any pinned date is a pinned date - also the epoch itself
                env["SOURCE_DATE_EPOCH"] = str(case["epoch"])
            try:
                p = subprocess.run([sys.executable, "-m", "vf.props.c08_child", path], cwd=VERIF,
                                   env=env, capture_output=True, text=True, timeout=300)
            except subprocess.TimeoutExpired:
                return {"status": "inconclusive", "counters": {"child_timeout": 1}}
            if p.returncode != 0:
                return {"status": "harness_error", "note": p.stderr[-1500:]}
            per_seed[seed] = json.loads(p.stdout)
            bump("hash_seeds_run")
    finally:
        shutil.rmtree(tmp, ignore_errors=True)
    violations = []
    refs = {}
    n = 0
    for seed, res in per_seed.items():
        for key, val in res.items():
            group = key.split("/")[0] if case.get("per_lib") else "all"
            ref, ref_key = refs.get(group, (None, None))
            if key.endswith("/error"):
                violations.append({"mech": "compile_exception", "detail": {
                    "seed": seed, "variant": key, "trace": val[-1200:]}})
                continue
            if key.endswith("/other_failed"):
                bump("other_function_failed")
                continue
            n += 1
            parts = key.split("/")
            bump("variants_lib")
            if parts[1] == "disk":
                bump("variants_disk")
            bump({"first": "variants_first_call", "second": "variants_second_call",
                  "after_other": "variants_after_other", "inplace": "variants_inplace"}[parts[2]])
            sig = [d["all"] for d in val]
            if ref is None:
                refs[group] = (val, (seed, key))
                continue
            if sig != [d["all"] for d in ref]:
                tables = sorted({t for a, b in zip(ref, val)
                                 for t in set(a["tables"]) | set(b["tables"])
                                 if a["tables"].get(t) != b["tables"].get(t)})
                violations.append({"mech": "digest_differs", "detail": {
                    "reference": list(ref_key), "variant": [seed, key], "tables": tables,
                    "n_fonts": [len(ref), len(val)]}})
    if n == 0 and violations and all(v["mech"] == "compile_exception" for v in violations):
        # the compile fails identically in every interpreter and variant: nothing to compare,
        # and not a purity question (C01 / C10 judge such failures)
        last = {v["detail"]["trace"].strip().splitlines()[-1][:80] for v in violations}
        if len(last) == 1:
            return {"status": "inconclusive", "counters": dict(counters, compile_fails_everywhere=1),
                    "note": last.pop()}
    bump("digests_compared", n)
    if n:
        bump("cases_compared")
    if case.get("per_lib"):
        bump("cases_partial_glyph_order")
    if case.get("dotted_circle_average"):
        bump("cases_dotted_circle_anchor_average_on_a_rounding_boundary")
    if case.get("opts_objects"):
        bump("cases_with_writer_or_filter_instances_shared_by_all_calls")
    if case.get("case_pairs"):
        bump("cases_unlisted_glyph_names_differing_in_case_only")
    if case.get("epoch") == 0:
        bump("cases_with_source_date_epoch_zero")
    if case.get("shared_options"):
        bump("cases_shared_option_objects_with_gpos_compaction")
    if case["kind"] == "ds":
        bump("cases_designspace")
        if (case["ds"].get("meta") or {}).get("features_in_default_master_only"):
            bump("cases_designspace_features_in_default_master_only")
    if case["kind"] == "outline" and any(g["name"] == "hookcomb_barcomb" for g in case["ufo"]["glyphs"]):
        bump("cases_mark_of_marks_curve_vs_control_box"
             + ("_per_library_only" if case.get("per_lib") else ""))
    if case["kind"] == "layout":
        bump("cases_multi_mark_classes")
        bump("cases_kern_groups")
        if len({s for g in case["ufo"]["glyphs"] for s in [g["name"][-3:]]}) > 1:
            bump("cases_multi_script")
    # keep one violation per (mechanism, table set)
    seen, uniq = set(), []
    for v in violations:
        k = (v["mech"], tuple(v["detail"].get("tables", [])), v["detail"].get("variant", [None, None])[1])
        if k not in seen:
            seen.add(k)
            uniq.append(v)
    return {"status": "violated" if uniq else "held", "violations": uniq[:8],
            "counters": counters, "nontrivial": n >= 24}


def classify(v, case):
    if case.get("fixture", "").startswith("ColorTest"):
        # the colour-layer filter rewrites the source font during the first compile (C07 finding);
        # a second compile of the same objects then sees an already 'exploded' font
        variant = v["detail"].get("variant", [None, ""])[1]
        if v["mech"] == "compile_exception" or variant.endswith(("/second", "/after_other")):
            return "color_layer_history_changes_output"
    if case.get("fixture", "").startswith("TestMathFont"):
        variant = v["detail"].get("variant", [None, ""])[1]
        if variant.endswith(("/second", "/after_other")) and v["detail"].get("tables") in (["MATH"],):
            return "math_constants_history_changes_output"
    variant = v["detail"].get("variant", [None, ""])[1]
    if (v["mech"] == "digest_differs" and variant.endswith("/inplace") and case.get("func") == "compileTTF"
            and _user_cu2qu_that_remembers(case)
            and set(v["detail"].get("tables") or ()) <= {"glyf", "loca", "maxp", "head", "hmtx", "hhea", "OS/2"}):
        # the built-in conversion writes / consults the curve-type marker only when in place:
        # the second of the two conversions runs (and reverses the contours again) otherwise
        return "inplace_changes_output_with_user_cu2qu_filter_that_remembers"
    if (v["mech"] == "digest_differs" and variant.endswith("/inplace") and case.get("func") == "compileTTF"
            and _component_flags_and_restructured_components(case)
            and set(v["detail"].get("tables") or ()) <= {"glyf", "loca", "head"}):
        # the TrueType component flags are read from the glyph of the SOURCE font (by component
        # index + identifier); a filter that rebuilds components (flattening re-adds every
        # component without its identifier) changes what an in-place compile finds there
        return "inplace_changes_component_flags_when_a_filter_rebuilds_components"
    return None


def _component_flags_and_restructured_components(case):
    gl = (case.get("ufo") or {}).get("glyphs") or []
    flagged = any("public.objectLibs" in (g.get("lib") or {}) and any(c.get("id") for c in g["components"])
                  for g in gl)
    if not flagged:
        return False
    if (case.get("opts") or {}).get("flattenComponents"):
        return True
    lf = ((case.get("ufo") or {}).get("lib") or {}).get("com.github.googlei18n.ufo2ft.filters") or []
    names = {f.get("name") for f in lf} | {
        d.get("class") for d in (case.get("opts_objects") or {}).get("filters") or []}
    return bool(names & {"flattenComponents", "FlattenComponentsFilter", "decomposeTransformedComponents",
                         "DecomposeTransformedComponentsFilter"})


def _user_cu2qu_that_remembers(case):
    lf = ((case.get("ufo") or {}).get("lib") or {}).get("com.github.googlei18n.ufo2ft.filters") or []
    if any(f.get("name") == "cubicToQuadratic" and (f.get("kwargs") or {}).get("rememberCurveType")
           for f in lf):
        return True
    return any(d.get("class") == "CubicToQuadraticFilter" and (d.get("options") or {}).get("rememberCurveType")
               for d in (case.get("opts_objects") or {}).get("filters") or [])
