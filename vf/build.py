"""Build real defcon / ufoLib2 font objects (and designspaces) from JSON-serialisable case
descriptions.  A "ufo spec" is a dict:

  info      {attr: value}
  glyphs    [glyph spec]            (default layer, in creation order)
  layers    {layerName: [glyph spec]}   (optional extra layers)
  lib, layerLib (lib of the default layer), kerning [[l, r, v]], groups {name: [..]}, features "text"
  glyphOrder  list | None           (written to lib public.glyphOrder when not None)

  glyph spec: name, width, height, unicodes [int], contours [[ [x, y, type|None, smooth] ]],
              components [{"base": name, "t": [xx, xy, yx, yy, dx, dy]}],
              anchors [{"name", "x", "y", "identifier"?}], lib {}, verticalOrigin (optional)
"""
import copy

import vf  # noqa: F401


def _module(lib):
    if lib == "defcon":
        import defcon
        return defcon
    import ufoLib2
    return ufoLib2


def _fill_glyph(g, gs):
    g.width = gs.get("width", 0)
    if "height" in gs:
        g.height = gs["height"]
    if gs.get("unicodes"):
        g.unicodes = list(gs["unicodes"])
    pen = g.getPointPen()
    for contour in gs.get("contours", []):
        pen.beginPath()
        for p in contour:
            x, y, st = p[0], p[1], p[2]
            smooth = bool(p[3]) if len(p) > 3 else False
            pen.addPoint((x, y), segmentType=st, smooth=smooth)
        pen.endPath()
    for c in gs.get("components", []):
        if c.get("id"):
            pen.addComponent(c["base"], tuple(c["t"]), identifier=c["id"])
        else:
            pen.addComponent(c["base"], tuple(c["t"]))
    for a in gs.get("anchors", []):
        ad = {"name": a["name"], "x": a["x"], "y": a["y"]}
        if a.get("identifier"):
            ad["identifier"] = a["identifier"]
        g.appendAnchor(ad)
    for k, v in (gs.get("lib") or {}).items():
        g.lib[k] = copy.deepcopy(v)
    if gs.get("verticalOrigin") is not None:
        if hasattr(type(g), "verticalOrigin"):
            g.verticalOrigin = gs["verticalOrigin"]
        else:
            g.lib["public.verticalOrigin"] = gs["verticalOrigin"]


def build_ufo(spec, lib="defcon"):
    mod = _module(lib)
    font = mod.Font()
    for k, v in (spec.get("info") or {}).items():
        setattr(font.info, k, copy.deepcopy(v))
    for gs in spec.get("glyphs", []):
        g = font.newGlyph(gs["name"])
        _fill_glyph(g, gs)
    for lname, glyphs in (spec.get("layers") or {}).items():
        if lib == "defcon":
            layer = font.newLayer(lname)
        else:
            layer = font.newLayer(lname)
        for gs in glyphs:
            g = layer.newGlyph(gs["name"])
            _fill_glyph(g, gs)
    for k, v in (spec.get("lib") or {}).items():
        font.lib[k] = copy.deepcopy(v)
    for k, v in (spec.get("layerLib") or {}).items():
        font.layers.defaultLayer.lib[k] = copy.deepcopy(v)
    if spec.get("glyphOrder") is not None:
        font.lib["public.glyphOrder"] = list(spec["glyphOrder"])
    for name, members in (spec.get("groups") or {}).items():
        font.groups[name] = list(members)
    for l, r, v in spec.get("kerning") or []:
        font.kerning[(l, r)] = v
    if spec.get("features"):
        font.features.text = spec["features"]
    return font


def build_designspace(ds, lib="defcon"):
    """ds spec: axes [{name, tag, min, default, max, map?}], sources [{ufo: ufo spec | index into
    'ufos', location {axisname: v}, layerName?, name?}], rules, lib, instances,
    variableFonts [{name, axisSubsets [{name} (whole range) | {name, range [min, default, max]} (user values) | {name, value}], lib?}].
    Returns (DesignSpaceDocument with source.font set, list of distinct font objects)."""
    from fontTools.designspaceLib import (
        AxisDescriptor, DesignSpaceDocument, InstanceDescriptor, RuleDescriptor,
        SourceDescriptor,
    )
    doc = DesignSpaceDocument()
    for a in ds["axes"]:
        ad = AxisDescriptor()
        ad.name, ad.tag = a["name"], a["tag"]
        ad.minimum, ad.default, ad.maximum = a["min"], a["default"], a["max"]
        if a.get("map"):
            ad.map = [tuple(m) for m in a["map"]]
        doc.addAxis(ad)
    fonts = [build_ufo(u, lib) for u in ds["ufos"]]
    for i, s in enumerate(ds["sources"]):
        sd = SourceDescriptor()
        sd.font = fonts[s["ufo"]]
        sd.location = dict(s["location"])
        sd.name = s.get("name", "master.%d" % i)
        sd.familyName = ds["ufos"][s["ufo"]].get("info", {}).get("familyName")
        sd.styleName = ds["ufos"][s["ufo"]].get("info", {}).get("styleName")
        if s.get("layerName"):
            sd.layerName = s["layerName"]
        if s.get("filename"):
            sd.filename = s["filename"]
        doc.addSource(sd)
    for r in ds.get("rules") or []:
        rd = RuleDescriptor()
        rd.name = r["name"]
        rd.conditionSets = [[dict(c) for c in cs] for cs in r["conditionSets"]]
        rd.subs = [tuple(s) for s in r["subs"]]
        doc.addRule(rd)
    if ds.get("rulesProcessingLast"):
        doc.rulesProcessingLast = True
    for inst in ds.get("instances") or []:
        idesc = InstanceDescriptor()
        idesc.location = dict(inst["location"])
        idesc.familyName = inst.get("familyName", "Inst")
        idesc.styleName = inst.get("styleName", "S")
        idesc.name = inst.get("name")
        doc.addInstance(idesc)
    for vf_ in ds.get("variableFonts") or []:
        from fontTools.designspaceLib import (
            RangeAxisSubsetDescriptor, ValueAxisSubsetDescriptor, VariableFontDescriptor,
        )
        subsets = []
        for sub in vf_["axisSubsets"]:
            if "value" in sub:
                subsets.append(ValueAxisSubsetDescriptor(name=sub["name"], userValue=sub["value"]))
            elif "range" in sub:
                lo, df, hi = sub["range"]
                subsets.append(RangeAxisSubsetDescriptor(name=sub["name"], userMinimum=lo,
                                                         userDefault=df, userMaximum=hi))
            else:
                subsets.append(RangeAxisSubsetDescriptor(name=sub["name"]))
        vd = VariableFontDescriptor(name=vf_["name"], axisSubsets=subsets)
        for k, v in (vf_.get("lib") or {}).items():
            vd.lib[k] = copy.deepcopy(v)
        doc.addVariableFont(vd)
    for k, v in (ds.get("lib") or {}).items():
        doc.lib[k] = copy.deepcopy(v)
    return doc, fonts


def save_and_reopen(font, lib, path):
    """Write the font to disk and open it again with the same library."""
    font.save(path)
    mod = _module(lib)
    if hasattr(mod.Font, "open"):
        f = mod.Font.open(path)
        return f
    return mod.Font(path)
