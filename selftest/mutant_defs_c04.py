def define(M):
    M("C04", "long_metric_off_by_one", "Lib/ufo2ft/outlineCompiler.py",
      "            while advances[numLongMetrics - 2] == lastAdvance:\n                numLongMetrics -= 1\n                if numLongMetrics <= 1:",
      "            while advances[numLongMetrics - 2] == lastAdvance:\n                numLongMetrics -= 1\n                if numLongMetrics <= 2:")
    M("C04", "long_metric_too_short", "Lib/ufo2ft/outlineCompiler.py",
      "        setattr(table, \"numberOf%sMetrics\" % (\"H\" if isHhea else \"V\"), numLongMetrics)",
      "        setattr(table, \"numberOf%sMetrics\" % (\"H\" if isHhea else \"V\"), max(1, numLongMetrics - 1))")
    M("C04", "rsb_from_width_only", "Lib/ufo2ft/outlineCompiler.py",
      "                secondSideBearing = advance - firstSideBearing - boundsAdvance",
      "                secondSideBearing = advance - boundsAdvance")
    M("C04", "font_box_skips_last_glyph", "Lib/ufo2ft/outlineCompiler.py",
      "        for glyphBox in self.glyphBoundingBoxes.values():\n            if glyphBox is None:",
      "        for glyphBox in list(self.glyphBoundingBoxes.values())[:-1]:\n            if glyphBox is None:")
    M("C04", "last_char_index_not_clamped", "Lib/ufo2ft/outlineCompiler.py",
      "        if maxIndex > 0xFFFF:", "        if maxIndex > 0x10FFFF:")
    M("C04", "vorg_default_least_common", "Lib/ufo2ft/outlineCompiler.py",
      "        vorg.defaultVertOriginY = vorg_count.most_common(1)[0][0]",
      "        vorg.defaultVertOriginY = vorg_count.most_common()[-1][0]")
    M("C04", "tsb_uses_ymin", "Lib/ufo2ft/outlineCompiler.py",
      "            top = bounds.yMax if bounds else 0", "            top = bounds.yMin if bounds else 0")
    M("C04", "lsb_zero_for_negative", "Lib/ufo2ft/outlineCompiler.py",
      "            left = bounds.xMin if bounds else 0", "            left = max(bounds.xMin, 0) if bounds else 0")
