"""R-render / R-draw / R-round: exact-rational reference for "the glyph's source outline with all
component references resolved", written independently of ufo2ft:

* floats are taken as exact rationals; component matrices are COMPOSED along the path from the
  root glyph to the leaf and applied once; a leaf's contours are reversed iff the composed
  determinant is negative; own contours first, then components depth-first in order;
* own point->segment conversion (UFO point-pen semantics, implied on-curves, all-off-curve
  quadratic contours);
* a normal form of drawing sequences (DESIGN.md section 4.1).
"""
from fractions import Fraction as F
import math


def fr(x):
    if isinstance(x, F):
        return x
    if isinstance(x, int):
        return F(x)
    return F(*float(x).as_integer_ratio())


def otround(x):
    """floor(x + 1/2) on exact rationals: halves round up (towards +inf)."""
    return math.floor(fr(x) + F(1, 2))


def quantize(v, q):
    return q * otround(fr(v) / fr(q))


IDENT = (F(1), F(0), F(0), F(1), F(0), F(0))


def mat(t):
    return tuple(fr(v) for v in t)


def compose(outer, inner):
    """Matrix of 'apply inner first, then outer' for UFO affine 6-tuples
    (x' = xx*x + yx*y + dx ; y' = xy*x + yy*y + dy)."""
    a, b, c, d, e, f = inner
    A, B, C, D, E, G = outer
    return (A * a + C * b, B * a + D * b,
            A * c + C * d, B * c + D * d,
            A * e + C * f + E, B * e + D * f + G)


def apply(m, x, y):
    xx, xy, yx, yy, dx, dy = m
    return (xx * x + yx * y + dx, xy * x + yy * y + dy)


def det(m):
    return m[0] * m[3] - m[1] * m[2]


def resolve(glyphs, name, _m=IDENT, _stack=(), missing="skip"):
    """Fully resolved contours of glyph `name`: list of (points, flip) where points are
    point-pen points transformed by the composed matrix (exact rationals) and flip says the
    composed determinant is negative (the contour must be drawn in reverse).
    glyphs: {name: glyph spec}.  Raises ValueError on cycles."""
    if name in _stack:
        raise ValueError("cycle")
    g = glyphs[name]
    out = []
    flip = det(_m) < 0
    for c in g.get("contours", []):
        pts = []
        for p in c:
            x, y = apply(_m, fr(p[0]), fr(p[1]))
            pts.append([x, y, p[2], p[3] if len(p) > 3 else False])
        out.append((pts, flip))
    for comp in g.get("components", []):
        if comp["base"] not in glyphs:
            if missing == "skip":
                continue
            raise KeyError(comp["base"])
        m = compose(_m, mat(comp["t"]))
        out.extend(resolve(glyphs, comp["base"], m, _stack + (name,), missing))
    return out


def reverse_cycle(start, segs):
    """Reverse a CLOSED cyclic segment list (last segment ends at start).  Returns (start, segs)."""
    pts = [start]
    for s in segs:
        pts.append(s[-1])
    out = []
    for i in range(len(segs) - 1, -1, -1):
        s = segs[i]
        a = pts[i]          # where the original segment started
        if s[0] == "l":
            out.append(("l", a))
        elif s[0] == "c":
            out.append(("c", s[2], s[1], a))
        elif s[0] == "q":
            out.append(("q", s[1], a))
    return start, out


# ----------------------------------------------------------------------------------------------
# point pen -> segments


def to_segments(pts):
    """One point-pen contour -> (start, [segments], closed).
    segments: ('l', p) | ('c', p1, p2, p3) | ('q', p1, p2) (single quadratic, implied on-curves
    made explicit).  For closed contours the list includes the segment arriving back at start."""
    if not pts:
        return None
    if pts[0][2] == "move":
        closed = False
        start = (pts[0][0], pts[0][1])
        rest = pts[1:]
    else:
        closed = True
        ons = [i for i, p in enumerate(pts) if p[2] is not None]
        if not ons:
            # all off-curve quadratic contour: implied on-curve points between every pair
            offs = [(p[0], p[1]) for p in pts]
            n = len(offs)
            mids = [((offs[i][0] + offs[(i + 1) % n][0]) / 2, (offs[i][1] + offs[(i + 1) % n][1]) / 2)
                    for i in range(n)]
            # fontTools starts at the implied point between the last and the first off-curve
            start = mids[-1]
            segs = []
            for i in range(n):
                segs.append(("q", offs[i], mids[i]))
            return start, segs, True
        k = ons[0]
        rest = pts[k + 1:] + pts[:k + 1]
        start = (pts[k][0], pts[k][1])
    segs = []
    offs = []
    for p in rest:
        if p[2] is None:
            offs.append((p[0], p[1]))
            continue
        end = (p[0], p[1])
        st = p[2]
        if st == "line" or not offs and st in ("curve", "qcurve"):
            segs.append(("l", end))
        elif st == "curve":
            if len(offs) == 2:
                segs.append(("c", offs[0], offs[1], end))
            elif len(offs) == 1:
                # a cubic with one control point is drawn as a quadratic by fontTools pens
                segs.append(("q", offs[0], end))
            else:
                raise ValueError("super-bezier not generated")
        elif st == "qcurve":
            for i, o in enumerate(offs):
                if i == len(offs) - 1:
                    segs.append(("q", o, end))
                else:
                    nx = offs[i + 1]
                    segs.append(("q", o, ((o[0] + nx[0]) / 2, (o[1] + nx[1]) / 2)))
        else:
            raise ValueError(st)
        offs = []
    return start, segs, closed


class DerivedF(F):
    """A coordinate that is not a source coordinate but computed from several of them (control
    point of a degree-elevated quadratic).  The compiler computes it in floating point with the
    factor 2/3, so even a value that is EXACTLY a half in rational arithmetic reaches the
    rounding step a last-bit above or below the boundary: both neighbours are admissible there
    (source coordinates on an exact half stay strict: halves up)."""
    __slots__ = ()


def elevate(p0, seg):
    """Quadratic -> cubic, exact."""
    _, p1, p2 = seg
    c1 = (DerivedF(p0[0] + F(2, 3) * (p1[0] - p0[0])), DerivedF(p0[1] + F(2, 3) * (p1[1] - p0[1])))
    c2 = (DerivedF(p2[0] + F(2, 3) * (p1[0] - p2[0])), DerivedF(p2[1] + F(2, 3) * (p1[1] - p2[1])))
    return ("c", c1, c2, p2)


def cubic_form(start, segs):
    out = []
    cur = start
    for s in segs:
        if s[0] == "q":
            s = elevate(cur, s)
        out.append(s)
        cur = s[-1]
    return out


# ----------------------------------------------------------------------------------------------
# rounding with tie band (DESIGN 4.2)

TIE = F(1, 1 << 20)


def round_choices(v):
    """Admissible integer roundings of exact value v: one value, or two when v lies within the
    tie band of a rounding boundary *and* is not exactly a half (exact halves are strict)."""
    r = otround(v)
    frac = v + F(1, 2) - math.floor(v + F(1, 2))   # distance above the boundary, in [0,1)
    if frac == 0:
        return (r, r - 1) if isinstance(v, DerivedF) else (r,)
    if frac < TIE:
        return (r, r - 1)
    if 1 - frac < TIE:
        return (r, r + 1)
    return (r,)


def ref_cycles(resolved, keep_quadratic=False):
    """Resolved contours -> list of (start, closed cyclic segment list) in exact rationals, with
    flipped contours reversed.  Quadratics are degree-elevated unless keep_quadratic.
    Contours consisting of a single point yield (start, [])."""
    out = []
    for pts, flip in resolved:
        t = to_segments(pts)
        if t is None:
            continue
        start, segs, closed = t
        if not keep_quadratic:
            segs = cubic_form(start, segs)
        end = segs[-1][-1] if segs else start
        if segs and (not closed or end != start):
            # explicit closing line (an open contour is closed by the font formats)
            if end != start:
                segs = segs + [("l", start)]
        if flip and segs:
            start, segs = reverse_cycle(start, segs)
        out.append((start, segs))
    return out


# ---- normalisation of integer drawings (both sides) ----

def close_and_clean(start, segs):
    """Closed cyclic list of segments over integer (or numeric) points with draws-nothing
    operations removed.  Returns list of segments; empty if the contour draws nothing."""
    cur = start
    out = []
    for s in segs:
        pts = s[1:]
        if all(p == cur for p in pts):
            continue
        out.append(s)
        cur = s[-1]
    if cur != start:
        out.append(("l", start))
    return out


def merge_axis_linear(start, segs):
    """What a CFF specialiser does to adjacent hlineto/hlineto and vlineto/vlineto: linear merge
    from the recorded start point, never across it (DESIGN 4.1 f)."""
    out = []
    cur = start
    prev_dir = None
    prev_start = None
    for s in segs:
        if s[0] == "l":
            end = s[1]
            dx, dy = end[0] - cur[0], end[1] - cur[1]
            d = "h" if dy == 0 and dx != 0 else ("v" if dx == 0 and dy != 0 else None)
            if dx == 0 and dy == 0:
                d = prev_dir if prev_dir in ("h", "v") else "z"
            if d is not None and d == prev_dir and out and out[-1][0] == "l":
                out[-1] = ("l", end)
            else:
                out.append(s)
            prev_dir = d
            cur = end
        else:
            out.append(s)
            prev_dir = None
            cur = s[-1]
    return out


def canon_cycle(segs):
    """Direction-sensitive canonical rotation of a cyclic segment list."""
    if not segs:
        return ()
    n = len(segs)
    best = None
    for k in range(n):
        rot = tuple(segs[k:] + segs[:k])
        # a segment is identified by the point it starts from too: make (prev_end, seg) explicit
        key = tuple((rot[i - 1][-1],) + rot[i] for i in range(n))
        if best is None or _lt(key, best):
            best = key
    return best


def _lt(a, b):
    return _flat(a) < _flat(b)


def _flat(key):
    out = []
    for item in key:
        for part in item:
            if isinstance(part, str):
                out.append((0, part))
            else:
                out.append((1, (float(part[0]), float(part[1]))))
    return out


def drawing_from_recording(value):
    """RecordingPen.value -> list of (start, segs, closed) with numeric points."""
    out = []
    cur = None
    for op, args in value:
        if op == "moveTo":
            cur = [tuple(args[0]), [], False]
            out.append(cur)
        elif op == "lineTo":
            cur[1].append(("l", tuple(args[0])))
        elif op == "curveTo":
            if len(args) == 3:
                cur[1].append(("c", tuple(args[0]), tuple(args[1]), tuple(args[2])))
            else:
                raise ValueError("unexpected curveTo arity %d" % len(args))
        elif op == "qCurveTo":
            pts = [tuple(a) if a is not None else None for a in args]
            cur[1].append(("Q",) + tuple(pts))
        elif op == "closePath":
            cur[2] = True
        elif op == "endPath":
            pass
        elif op == "addComponent":
            out.append(("component", args))
    return [tuple(c) if isinstance(c, list) else c for c in out]


def merge_axis_cyclic(segs, eps=0):
    """Full cyclic merge of consecutive horizontal/horizontal or vertical/vertical line
    segments (removes collinear points and zero-area spikes on an axis); DESIGN 4.1 (f)."""
    segs = list(segs)
    changed = True
    while changed and segs:
        changed = False
        n = len(segs)
        if n == 1:
            s = segs[0]
            if s[0] == "l":
                # a single closing line from a point to itself draws nothing
                segs = []
            break
        for i in range(n):
            s, t = segs[i], segs[(i + 1) % n]
            if s[0] != "l" or t[0] != "l":
                continue
            a = segs[i - 1][-1]
            b, c = s[1], t[1]
            if eps:
                same_y = abs(a[1] - b[1]) <= eps and abs(b[1] - c[1]) <= eps
                same_x = abs(a[0] - b[0]) <= eps and abs(b[0] - c[0]) <= eps
            else:
                same_y = a[1] == b[1] == c[1]
                same_x = a[0] == b[0] == c[0]
            if same_y or same_x:
                j = (i + 1) % n
                if c == a or (eps and abs(c[0] - a[0]) <= eps and abs(c[1] - a[1]) <= eps):
                    for k in sorted({i, j}, reverse=True):
                        del segs[k]
                else:
                    segs[i] = ("l", c)
                    del segs[j]
                changed = True
                break
    return segs


def clean_cycle(start, segs):
    """Drop draws-nothing operations from a closed cycle (all points equal to the current
    point).  Returns the cleaned cyclic list (possibly empty)."""
    cur = start
    out = []
    for s in segs:
        if all(p == cur for p in s[1:]):
            continue
        out.append(s)
        cur = s[-1]
    if out and cur != start:
        out.append(("l", start))
    # the first segment may have become degenerate relative to the (cyclic) previous end
    return out


def round_cycle(start, segs, rnd=otround):
    rs = (rnd(start[0]), rnd(start[1]))
    out = []
    for s in segs:
        out.append((s[0],) + tuple((rnd(p[0]), rnd(p[1])) for p in s[1:]))
    return rs, out


def tie_coords(cycles):
    """Coordinates lying inside the tie band (not exact halves)."""
    n = 0
    for start, segs in cycles:
        for p in [start] + [q for s in segs for q in s[1:]]:
            for v in p:
                if len(round_choices(v)) > 1:
                    n += 1
    return n


def recording_to_cycles(value):
    """RecordingPen.value of a CFF glyph -> list of (start, closed cyclic seg list)."""
    out = []
    cur = None
    for op, args in value:
        if op == "moveTo":
            cur = [tuple(args[0]), []]
            out.append(cur)
        elif op == "lineTo":
            cur[1].append(("l", tuple(args[0])))
        elif op == "curveTo":
            if len(args) != 3:
                raise ValueError("curveTo arity %d" % len(args))
            cur[1].append(("c", tuple(args[0]), tuple(args[1]), tuple(args[2])))
        elif op in ("closePath", "endPath"):
            pass
        else:
            raise ValueError("unexpected op %s" % op)
    res = []
    for start, segs in out:
        end = segs[-1][-1] if segs else start
        if segs and end != start:
            segs = segs + [("l", start)]
        res.append((start, segs))
    return res


def canon_drawing(cycles, merge=False):
    """Normal form of a list of closed cycles over exact-comparable points: per contour the
    canonical rotation of the cleaned (optionally axis-merged) cycle; empty contours dropped.
    Contour ORDER is kept."""
    out = []
    for start, segs in cycles:
        c = clean_cycle(start, segs)
        if merge:
            c = merge_axis_cyclic(c)
        if not c:
            continue
        out.append(canon_cycle(c))
    return out


def match_cycle_tol(ref, got, dev):
    """Is there a rotation of `got` (closed cyclic seg list) equal to `ref` in segment types with
    every point within `dev` (per coordinate)?  Returns max deviation or None."""
    n = len(ref)
    if n != len(got):
        return None
    best = None
    for k in range(n):
        worst = 0.0
        ok = True
        for i in range(n):
            a, b = ref[i], got[(i + k) % n]
            if a[0] != b[0]:
                ok = False
                break
            for p, q in zip(a[1:], b[1:]):
                d = max(abs(float(p[0]) - float(q[0])), abs(float(p[1]) - float(q[1])))
                if d > dev:
                    ok = False
                    break
                worst = max(worst, d)
            if not ok:
                break
        if ok and (best is None or worst < best):
            best = worst
    return best
