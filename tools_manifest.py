"""Regenerates MANIFEST.json from the table below (python3 tools_manifest.py)."""
import json
import os

HERE = os.path.dirname(os.path.abspath(__file__))
BASE = ("cd /repo && /venv/bin/python -m pytest -ra -q -p no:cacheprovider --timeout=900 "
        "--continue-on-collection-errors")

# id -> (technique, level text, level note, design ref)
CHECKS = {
 "C01": ("runtime monitoring: reference-model oracle (exact-rational component resolver + rounding model) over reloaded CFF drawings of generated UFOs",
         "Exploration: thousands of generated UFOs (hostile coordinates, nested/mirrored/sheared components, explicit fractional CFF width bases in fontinfo, lib filters - also decompose filters restricted by include / exclude - that must not change the drawing; negative and oversized advances must be rejected) compiled by the real compileOTF under every roundTolerance/cffVersion/optimizeCFF value; each reloaded glyph is compared with an independent exact-rational resolver. Held means: on all executions observed; nothing is claimed about inputs the generator never produced.",
         "Trusts fontTools' CFF reader and RecordingPen; coordinates |v|<=16000, <=14 glyphs, depth<=5; normal form of DESIGN 4.1/4.2.",
         "DESIGN.md section 5 C01, 4.1, 4.2"),
 "C02": ("runtime monitoring: structural + segment-wise Bezier-distance oracle over reloaded glyf data of generated UFOs; maxp recomputed by own DFS",
         "Exploration: generated UFOs compiled by the real compileTTF (12 %: through compileInterpolatableTTFs as two identical masters) under random convertCubics/reverseDirection/flattenComponents/allQuadratic/cubicConversionError (down to 0.00005)/dropImpliedOnCurves settings, with the per-glyph public.truetype.overlap flag key on a third of the fonts and cu2qu's curve_type marker in the lib of some cubic-free sources, 30 % of the flatten cases through a FlattenComponentsFilter object that first served a sibling font; every reloaded glyph is matched point for point (lines, quadratics, on-curve end points, direction) against the exact-rational resolver, each converted cubic is measured against its quadratic run, composites are compared with the (flattened) reference component list, maxp is recomputed.",
         "Trusts fontTools' glyf reader; distance bound conversionError*upm + sqrt(1/2) + 0.07; 2x2 entries > 2 (not storable) only counted.",
         "DESIGN.md section 5 C02, 4.3"),
 "C12": ("runtime monitoring: relation between executions (one UFO compiled under every optimizeCFF x subroutinizer x cffVersion combination; drawings, advances, layout bytes compared pairwise)",
         "Exploration: each generated UFO is compiled 12 times by the real compileOTF (1 %: ~800 glyphs sharing 230-300 curve motifs, so that compreffor fills the global subroutine index, under 4 combinations; 20 % of the non-integer fonts with an explicit roundTolerance of 0 / 0.25 under every combination); all supported combinations must reload to the same normal-form drawing per glyph, the same advances (hmtx and, for CFF 1, the charstring's own width) and byte-identical GPOS/GDEF/GSUB; the unsupported combination must raise NotImplementedError.",
         "Trusts fontTools' CFF/CFF2 reader; with an explicit roundTolerance the cffsubr combinations are compared within tx's two-decimal operand noise (0.005 per coordinate), everything else exactly; normal form of DESIGN 4.1 (strict differences counted).",
         "DESIGN.md section 5 C12, 4.1"),
 "C03": ("runtime monitoring: rule oracle over reloaded glyph order / cmap of generated UFOs, plus a completely enumerated small scope of makeOfficialGlyphOrder",
         "Exploration with an exhaustively enumerated sub-space: ~1200 random UFOs (hostile names, BMP/supplementary/duplicate code points incl. U+0000, stored order or explicit argument with duplicates/unknown names/.notdef anywhere, UVS, colour-layer fonts whose exploded alternates must stay unencoded, skip lists in the lib with the argument absent / empty / non-empty) through compileTTF/compileOTF -> reload, judged by the order and cmap rules written from the statement; every run also enumerates all 32 name sets x 1555 order lists through the real makeOfficialGlyphOrder (99k calls).",
         "Trusts fontTools' cmap/maxp readers; ASCII glyph names; '.notdef' carries no code point.",
         "DESIGN.md section 5 C03"),
 "C18": ("runtime monitoring: reference oracle over reloaded GDEF classes / ligature carets / GPOS cursive records and lookup flags of generated multi-script UFOs",
         "Exploration: 3000 generated UFOs (category maps incl. invalid values, non-exported glyphs and maps that use a single class, boundary / origin caret and cursive anchor values, caret/vcaret anchors, one-sided and suffixed entry/exit anchors in mixed-direction repertoires (Khmer and Myanmar included; 20 % with letters that also carry a script-neutral code point) with GSUB-reachable alternates and cursive glyphs encoded beyond the BMP only, with/without user GDEF blocks) compiled by the real compileTTF; GDEF and CursivePos data read back and compared with the UFO data; script direction by an independent provenance closure.",
         "Trusts fontTools' GDEF/GPOS readers and unicodedata; script-neutral glyphs must keep the right-to-left flag, glyphs of mixed provenance are not judged (counted).",
         "DESIGN.md section 5 C18"),
 "C20": ("runtime monitoring: reachability oracle over the reloaded GPOS ScriptList -> LangSys -> feature -> lookup -> coverage graph of generated multi-script UFOs",
         "Exploration: 2400 generated UFOs with kerning and mark/cursive anchors, with and without languagesystem statements, 10 % as the default master of a two-master variable font whose other master has no feature text (also in the user's own order: a named language declared before its script's dflt; script chains that need repeated merging), comment-only '# Automatic Code' placeholder blocks directly below the languagesystem list on 15 %, stray digits of scripts without letters in the font, incl. encoded source glyphs of a foreign script that are not exported (public.skipExportGlyphs) next to kerned glyphs whose Script_Extensions name that script; for every language system reaching generated kern/dist, every generated mark/mkmk/curs/abvm/blwm lookup covering a glyph of that script must be reachable too, and every language system that exposes any generated positioning feature must reach the generated kern/dist lookups acting on its script's glyphs. A pair-positioning lookup that no feature refers to is a violation of its own. Two known defects are listed as findings (a script the exported font really supports is registered only by the kern writer; the dist kerning of a file whose only languagesystem is a single-tag script lands under DFLT through a feaLib quirk); any other unreachable feature is a violation.",
         "Trusts fontTools' GPOS reader and unicodedata script data; script membership closed over the generated GSUB rules.",
         "DESIGN.md section 5 C20, section 6"),
 "C04": ("runtime monitoring: recomputation oracle over compiled and reloaded tables (raw hmtx/vmtx decoding, own Bezier extrema), byte comparison of save/reload/save, enumerated advance sequences",
         "Exploration with an enumerated sub-space: all 363 advance sequences of length<=5 over {0,300,700} x TTF/OTF plus ~900 random UFOs (U+0000 as lowest / only code point on 10 %; TrueType glyph programs incl. on composites - half of them with a programmed composite whose bases share components and which sorts by name before its base - on 15 % of the TTF cases; 15 % of the CFF ones with a rounding tolerance: per-glyph bearings judged directionally, the rest not judged there); the compiled TTFont is judged twice - ufo2ft's own values before saving (fontTools recomputes hhea/head/OS2/numberOfHMetrics on save) and the reloaded font - against bearings, boxes, aggregates, long-metric counts, VORG, maxp, post names and OS/2 indices recomputed from the stored glyph data; save -> reload -> save (lazy and with every table decompiled) must be byte-identical.",
         "Trusts fontTools' readers (hmtx/vmtx also decoded from raw bytes); CFF tolerances per DESIGN 4.6 as corrected (nearest-integer bearings, outward-rounded aggregates on save); SOURCE_DATE_EPOCH pinned.",
         "DESIGN.md section 5 C04, 4.6"),
 "C11": ("runtime monitoring: relation between executions (names on / off / lib default) with per-table byte comparison, plus a naming-rule oracle written from the statement",
         "Exploration: ~560 generated UFOs (hostile glyph names, postscriptNames maps with duplicates/empty/illegal values, ligatures mixing BMP and supplementary-plane parts, lib switches (ufo2ft key, Glyphs legacy key with true and false values) judged by a lib-switch oracle when the caller passes no argument, TTF/CFF/CFF2 and a variable stratum incl. a variable font whose own default source is not the designspace default), each compiled three times by the real compile functions; every table except post/'CFF ' must be byte-identical (head checksum masked), CFF charstrings and dict values equal per glyph index, final names unique, legal and admissible under the naming rules.",
         "Trusts fontTools' sfnt reader; Latin-1 feature-file-safe source names; uniqueness numbering scheme not prescribed.",
         "DESIGN.md section 5 C11"),
 "C05": ("runtime monitoring: GPOS interpreter (shaper semantics over the reloaded tables) against an independent UFO kerning lookup, per script tag, for every ordered glyph pair",
         "Exploration: 700 generated multi-script UFOs (all four kerning precedence levels with deliberate exceptions, zero/fractional/negative values incl. exact half-step ties of both parities at quantisation 1/2/5/10, script sets that need repeated merging, missing glyphs, unknown groups, GDEF marks, languagesystems none/some/all, quantisation, both kern writers, writer objects that first served another font of other scripts, first-side classes mixing one left-to-right and one right-to-left letter; stale user classes named like the writer's own kerning classes on 15 %; 8 % compiled as the default master of a two-master designspace with substitution rules); every ordered glyph pair is evaluated under every script tag by an interpreter of the compiled GPOS and compared with the UFO lookup (value, applied once, x-placement rule); three listed mechanisms are known findings, each re-exercised by a dedicated stratum.",
         "Trusts fontTools' GPOS/GDEF readers and unicodedata; shaper semantics of DESIGN section 3; quantifier of DESIGN 4.4.",
         "DESIGN.md section 5 C05, 4.4, section 6"),
 "C16": ("runtime monitoring: field-by-field reference oracle (independent fallback table) over reloaded name/OS2/hhea/head/post/CFF tables, plus an exhaustive sweep of every Unicode scalar through the PostScript-name normaliser",
         "Exploration with an exhaustive sub-space: 6000 sampled font-info subsets (both UFO libraries, TTF/OTF, variable-font overrides) compiled, saved, reloaded and compared field by field with the explicit value or the documented fallback; every run also pushes all 1 112 064 Unicode scalar values through the real PostScript-name fallback and fully compiles representatives of each outcome class.",
         "Trusts fontTools' table readers; attributes without a destination in the listed tables are unchecked (listed in the evidence assumptions).",
         "DESIGN.md section 5 C16"),
 "C17": ("runtime monitoring: compiled feature text parsed back and compared with the user's statements (subsequence / marker-position oracle), GSUB bytes with vs without writers, writer call-order log",
         "Exploration: 3000 generated feature files (languagesystems, classes, GSUB features, hand-written kern/mark/mkmk/curs/abvm/blwm/GDEF blocks (carets by position or by index) with the marker at top/middle/bottom/alone/mis-cased/twice or with no statement at all, ordinary comments that merely contain the marker text) x writer lists (default, lib, explicit with ellipsis - also with one positioning writer named in front of the ellipsis and again among the defaults -, skip/append, a harness GSUB writer placed last) compiled by the real compileTTF; the debug feature file is parsed back with feaLib and every user statement must survive in order, generated rules must sit at the marker, GSUB bytes must equal the no-writer compile, GSUB writers must run first (hook on BaseFeatureWriter.write).",
         "Trusts feaLib's parser/asFea round trip (checked per case) and fontTools' sfnt reader.",
         "DESIGN.md section 5 C17"),
 "C15": ("runtime monitoring: before/after snapshots of real filter applications compared through the exact-rational resolver (rendering invariance, matrix image, anchor-position closure)",
         "Exploration: 4000 component-graph fonts (depth<=4, shared bases, arbitrary affine transforms, anchors) x the real Decompose / DecomposeTransformed / Flatten / Transformations / PropagateAnchors filter objects with include/exclude/predicate selections on the font, a glyph-set copy or a foreign dict, and the interpolatable variants of Decompose / DecomposeTransformed / Flatten applied once to 2-3 compatible masters without an instantiator; the glyphs are read back and every glyph's fully resolved contours must equal (exactly for dyadic inputs) the original's, resp. its image under the requested matrix; propagated anchors must lie where some component path puts a base anchor (and, when the composite has a non-mark component, where a base's anchor or an attaching mark's anchor lands); every anchor of a non-mark component's base must appear (plain or numbered) on an included glyph with components - mixed glyphs too - unless it had one of that name; for a mark made of marks the anchors must come from the component whose outline's lower-left corner is closest to the origin (ties not judged); second application adds nothing.",
         "Exact for dyadic/integer inputs, 1e-9 relative otherwise; selection heuristics of anchor propagation deliberately not re-implemented.",
         "DESIGN.md section 5 C15"),
 "C06": ("runtime monitoring: GPOS interpreter (MarkBasePos / MarkLigPos / MarkMarkPos with lookup flags and filtering sets, later lookup wins) against anchor-difference candidates computed from the UFO",
         "Exploration: 600 generated UFOs (marks with several attaching anchors, bases, ligatures with numbered anchors and gaps and, on a quarter of them, a plain anchor at a random position among the numbered ones, mark-to-mark anchors, fractional coordinates, Indic code points for abvm/blwm incl. a second, possibly undeclared Indic script, roles by anchors / categories / user GDEF incl. base-classed glyphs that keep a paired mark anchor, stale user-written markClass statements under the writer's own class names, groupMarkClasses, quantisation); every glyph pair (and every ligature component) is evaluated under every script tag with mark, mkmk, abvm, blwm active together; the final attachment must be one of the source-defined candidates, or absent when there is none.",
         "Trusts fontTools' GPOS/GDEF readers; shaper semantics of DESIGN section 3; only the mark (and GDEF) writer runs.",
         "DESIGN.md section 5 C06, section 6"),
 "C13": ("runtime monitoring: relation between executions (with / without the skip list) over reloaded outlines, order, cmap, metrics and GPOS results evaluated by the interpreter",
         "Exploration: 500 component-graph UFOs with kerning groups, mark anchors and categories x random skip subsets (nested chains, mirrored references, group members; category maps that name only non-exported glyphs; a decoy list in a master's own lib on the designspace paths; static compiles of a named layer; a glyph that is a composite in one master and drawn in the other) delivered by argument / UFO lib / both / designspace lib / the union of the master UFOs' libs (compileInterpolatableTTFs on a master list), OTF and TTF, static plus interpolatable and variable strata, plus a sparse-master stratum (leaf <- middle <- top chains whose skipped inner glyphs have non-linear sparse layer masters; optionally on two axes with sparse sources that omit the axis they leave at its default; the variable fonts compiled with and without the skip list are read back at nine axis positions); each compiled twice by the real compile functions; skipped names must be absent everywhere, the remaining glyphs' contour multisets (OTF exact, TTF within the stored-form error bound), advances, order, cmap, kerning and mark attachment must be unchanged.",
         "Trusts fontTools' readers; TTF cases restricted to line/quadratic sources; feature text without GSUB rules.",
         "DESIGN.md section 5 C13"),
 "C07": ("runtime monitoring: deep before/after state snapshots of every source object, identity-aliasing check at working-copy creation, recording dicts (tripwires) keyed by call site, source-free failpoints (sys.monitoring) for the raising executions",
         "Fault enumeration + exploration: every fixture under tests/data with both UFO libraries plus ~480 generated UFOs / designspaces through all nine public compile functions with option combinations and call histories (once, twice, TTF then OTF), including compiles of non-default layers (empty, all glyphs non-exported, sparse) and sparse masters whose working glyph set is empty together with filters that run master by master, families with a composite of an anchor-less composite compiled with PropagateAnchors as a PRE filter, and components carrying UFO 3 identifiers with and without public.objectLibs entries; late-failing inputs and InjectedFault raised at sampled ufo2ft function entries exercise the 'or raises' clause; after every call the deep snapshot of all layers, libs, info, kerning, groups, features and of the designspace must equal the one taken before; no working glyph set may share an object with a source layer; no tripwire may record a write; inplace=True runs prove the monitor sees mutations.",
         "Snapshot scope as listed in the evidence assumptions; failpoints sampled, not all entries; faults inside C extensions cannot be injected.",
         "DESIGN.md section 5 C07, 2.3"),
 "C14": ("runtime monitoring: contract monitor around real filter calls (pre/post snapshots of the glyph set and of the source font, returned set, reuse histories versus fresh objects)",
         "Exploration: 1400 applications of the 12 shipped filter classes and 5 interpolatable variants (each class at least once per run) to generated component-graph fonts under include / exclude / predicate selections (including empty include / exclude lists), on the font itself, on a separate glyph-set copy or on a plain dict of glyph copies (cu2qu with and without rememberCurveType), with one filter object reused across fonts, plus a pipeline stratum (7 %: the real compileInterpolatable*FromDS on a family with a chain of interpolatable and per-master lib filters and a sparse master, monitors around the pre-processor's _run and the filters' __call__: step report = union of the filters' reports, every changed glyph reported, and after every step the instantiator - cached models and held interpolated glyphs included - reproduces each glyph set at its own location); from the snapshots the four clauses are decided: untouched glyphs unchanged, every changed/added/removed glyph reported, source font unchanged when a separate glyph set is given, reused object == fresh object.",
         "Glyph state = outline, components, anchors, metrics, unicodes, lib; over-reporting only counted.",
         "DESIGN.md section 5 C14, 2.3"),
 "C08": ("runtime monitoring: per-table sha256 digests of saved fonts compared across fresh interpreters started with different PYTHONHASHSEED values and across library / memory-vs-disk / inplace / call-history variants",
         "Exploration: 64 cases (10 repository fixtures + generated layout-heavy UFOs incl. the groupMarkClasses option with a deliberate colouring tie, outline UFOs with lib filters incl. colliding propagated anchor names and a mark-of-marks composite whose curve component's control box exceeds its outline box, user cubicToQuadratic filters that remember the curve type, caret / vcaret / entry / exit anchors under an anchor-moving transformations lib filter, writer / filter objects shared by all calls of an interpreter, contextual anchors, generated designspaces (half of them with feature text in the default master only), one case whose ftConfig option object asking for GPOS compaction is shared by every call, one with unlisted glyph names that differ in case only; SOURCE_DATE_EPOCH default / 0 / 86400 per case) each compiled in 4 fresh interpreters (PYTHONHASHSEED 0-3; thorough: 8) under {defcon, ufoLib2} x {in memory, saved and re-opened} x {first call, second call on the same objects, after another compile function, inplace=True}; all digests of one (case, function, options) must be equal, a mismatch is localised to the table. ufo2ft has no threads: hash order and call history are the only schedules.",
         "SOURCE_DATE_EPOCH pinned; head checksum masked; complete public.glyphOrder except in the per-library stratum.",
         "DESIGN.md section 5 C08"),
 "C19": ("runtime monitoring: closed-form variation reference (exact rationals, independent of varLib/fontMath) against real Instantiator instances; deep before/after snapshots of all sources; repeated generation from one instantiator",
         "Exploration: 2000 generated compatible master families (1-2 axes, 2-4 masters, intermediate/sparse masters, axis maps, rules, aligned/ragged kerning, default source optionally on a named layer, both UFO libraries) x ~14 instance locations each (master locations, axis extremes, rule boundaries, interior points) x rounding on/off; every coordinate, advance, anchor, info number and kerning value is compared with the master (at master locations) or the closed-form blend; 3 %: two axes named against alphabetical order with two off-axis masters whose coordinates cross - no closed form there, instead quantities that are equal in every master (advance, point coordinate, kerning pair, info number, anchor coordinate) must be equal in every instance; glyph set, unicodes, rule swaps (involution), source snapshots and k-th generation == first are checked.",
         "Closed forms cover the layouts listed in the evidence assumptions; exact ties accept both neighbours only where the statement does not fix the rounding mode.",
         "DESIGN.md section 5 C19, section 3 R-var, 4.5"),
 "C09": ("runtime monitoring: structural comparison of the produced master fonts glyph by glyph (contours, end points, on/off flags, component lists with their 2x2 parts, drawn CFF path operations), sparse-master glyph-set bounds, with a per-master control compile that counts would-be divergences",
         "Exploration: 1200 generated compatible master families (per-master exaggerated curvature so that a per-master cu2qu diverges - measured by the control -, per-master component 2x2 differences in a single random entry, sparse layer masters - also hosted in a separate UFO, or given as a UFO of their own without layerName, or ALL masters but the default one - with nested composites) through compileInterpolatableTTFs / TTFsFromDS / OTFsFromDS with flattenComponents, skipExportGlyphs, custom filters (as an argument or declared in every master's lib, incl. a decompose filter that runs after the curve conversion) and optimizeCFF 1-2 on the OTF path; every glyph must have identical point structure in all masters that contain it; sparse masters (incl. sources that omit a default-valued axis) must hold '.notdef', the layer's glyphs and only glyphs tied to them by component references, and every glyph decomposed in the full masters that contains a layer glyph must be decomposed there too.",
         "Masters compatible by construction; placeholder glyphs of sparse masters exempt from the structure comparison.",
         "DESIGN.md section 5 C09"),
 "C10": ("runtime monitoring: the compiled variable font is evaluated at every master location by fontTools' instancer (trusted reader) and compared with the interpolatable master (outlines, advances) and - through the GPOS interpreter - with that master's kerning and anchor data",
         "Exploration: 800 generated compatible families (1-2 axes, intermediate and sparse masters, axis maps, aligned / ragged per-master kerning with exceptions, kerning groups present in one master only, lib categories with base-mark kerning, per-master anchors) through compileVariableTTF / compileVariableCFF2 (10 %: compileVariableTTFs / CFF2s on a designspace defining the whole space plus single-axis variable fonts that use a subset of the shuffled sources; 5 %: a single variable font covering a sub-range of the axis with its own default; 20 %: the legacy kern writer selected in the masters' libs; default masters without kerning; 35 % of the mapped variable-feature families after an unmapped sibling family was compiled in the same process) with variableFeatures on and off, plus a pre-filter stratum (PropagateAnchors: the master compiled alone with the same filter is the reference for attachments that exist only after the filter); at each full master's location outlines and advances must be within one unit of the interpolatable master with identical point structure, kerning must equal the master's UFO lookup and mark attachment one of the master's anchor candidates (exact, +-1 / +-2 only for masters strictly inside another master's support).",
         "Trusts fontTools.varLib.instancer (a point off by more than one unit is re-evaluated at the master's design location with avar removed - the reader's 2.14 rounding of user locations - and the avar mapping is judged separately); kerning judged for pairs where the static compile of the master alone already gives the UFO value (C05 covers the rest).",
         "DESIGN.md section 5 C10, 4.5, section 6"),
}

NOT_APPLICABLE = [
]


def main():
    checks = []
    for pid, (tech, text, note, ref) in sorted(CHECKS.items()):
        checks.append({
            "property_id": pid,
            "quick_cmd": f"./check {pid} --tier quick",
            "thorough_cmd": f"./check {pid} --tier thorough",
            "evidence_file": f"evidence/{pid}.json",
            "replay_cmd_template": f"./check {pid} --replay {{path}}",
            "engine": "vf",
            "level_claimed": {"category": "fault_enumeration" if pid == "C07" else "exploration",
                              "text": text, "design_ref": ref},
            "level_note": note,
            "technique": tech,
        })
    claimed = set(CHECKS)
    na = [e for e in NOT_APPLICABLE if e["property_id"] not in claimed]
    all_ids = ["C%02d" % i for i in range(1, 21)]
    listed = claimed | {e["property_id"] for e in na}
    for pid in all_ids:
        if pid not in listed:
            na.append({"property_id": pid,
                       "reason": "check not built yet in this session (runtime-monitoring design in DESIGN.md section 5); not claimed until its monitor runs silent on the unchanged tree"})
    m = {
        "version": 1,
        "setup_cmd": "./setup.sh",
        "hooks": {
            "guard": "UFO2FT_VERIF",
            "enable": "No instrumentation lives in /repo: monitors are attached from the harness at import time (wrappers / icontract on the real classes) in fresh worker interpreters started by ./check with UFO2FT_VERIF=1; the repository is pure Python, so 'rebuilding' is importing /repo/Lib from the current working tree.",
            "baseline_off_cmd": BASE,
            "source_commits": [],
            "add_only": True,
        },
        "engines": [{
            "name": "vf",
            "path": "vf/",
            "serves_properties": sorted(claimed),
            "kind_free_text": "runtime monitoring: seeded generators -> real ufo2ft in fresh worker processes -> monitors/oracles (reference models, relations between executions, state snapshots) -> JSONL event logs -> verdict + evidence",
        }],
        "checks": checks,
        "not_applicable": sorted(na, key=lambda e: e["property_id"]),
        "notes": "All checks: ./check <ID> --tier quick|thorough [--replay FILE]; VERIF_SEED selects the generator seed. Exit 0 held / 1 VIOLATION / 2 INCONCLUSIVE (deciding monitor observed nothing). Known findings: known_findings.json (read-only at run time).",
    }
    json.dump(m, open(os.path.join(HERE, "MANIFEST.json"), "w"), indent=1)
    try:
        import sys
        sys.path.append(os.path.join(HERE, ".deps"))
        import jsonschema
        jsonschema.validate(m, json.load(open("/root/.vp/MANIFEST.schema.json")))
        print("MANIFEST.json valid;", len(checks), "checks,", len(na), "not claimed")
    except ImportError:
        print("written (jsonschema unavailable)")


if __name__ == "__main__":
    main()
