"""C17 - Automatic features only add to the user's feature file.

Run: generated feature files (languagesystems, class / markClass definitions, named lookups, GSUB
features, hand-written kern/mark/mkmk/curs blocks and `table GDEF`, `# Automatic Code` marker at
top / middle / bottom / alone / mis-cased / twice) over a generated UFO on which every automatic
writer has something to write  x  writer lists (default, lib-specified, explicit with / without
ellipsis, skip / append modes, a harness-defined GSUB writer placed LAST)
-> compileTTF(debugFeatureFile=...) with the writers, with featureWriters=[] and (when the harness
GSUB writer is in the list) with that writer alone.
Observe: the compiled feature text parsed back with feaLib; raw GSUB bytes after save -> reload;
the order of BaseFeatureWriter.write calls (M-order).
Oracle: see RULE / the mechanisms in run().
"""
import io
import traceback

import vf  # noqa: F401
from vf.build import build_ufo
from vf.gen import features as G
from vf.ref import fea as R

from ufo2ft.featureWriters import BaseFeatureWriter
from ufo2ft.featureWriters import ast as _uast

ID = "C17"
RULE = ("case = seeded UFO (Latin bases/alternates/ligatures/marks with top/bottom/_top/_bottom, "
        "top_N, entry/exit, caret anchors; kerning with groups; optional Arabic / Devanagari "
        "glyphs; optional public.openTypeCategories) + user feature file (languagesystems, class "
        "and markClass definitions, named lookups, 0-4 GSUB features with single/alternate/"
        "ligature substitutions, hand-written kern/mark/mkmk/curs blocks with the marker "
        "none/top/middle/bottom/alone/mis-cased/twice, hand-written abvm / blwm blocks in Devanagari fonts, optional table GDEF) x writer list "
        "(default | lib-specified | explicit with/without ellipsis; skip/append; harness GSUB "
        "writer last) x UFO library; strata: default ~94 %, plus 2 % each for the listed "
        "mechanisms (user lookup named like a generated lookup; useExtension on a block that the "
        "marker splits; UseMarkFilteringSet in a user GSUB lookup behind a marker'd mkmk block); "
        "distinct = sha1 of the case description; non-trivial = the "
        "font compiled with the writers and at least one hand-written block of a tag owned by a "
        "listed writer was judged or a non-empty GSUB was compared")
ASSUMPTIONS = [
    "fontTools.feaLib's parser is trusted to read the user's and the compiled feature text; "
    "statements are compared as whitespace-normalised asFea() text tagged with the names of "
    "their enclosing blocks; per case the asFea round trip of the user's file is checked to be "
    "idempotent, otherwise the case is discarded (generator_unsuitable)",
    "comments are not statements; the marker is a comment starting with '# Automatic Code' "
    "(exact case) that is a direct child of a top-level feature block; the first one counts",
    "each built-in writer class occurs at most once in a writer list; 'has something to write' "
    "holds by construction of the UFO for kern, mark, mkmk and curs",
    "append mode: the generated block follows the user's blocks of that tag (brief of C17)",
    "a feature file the compiler rejects WITHOUT any writer is outside the quantifier",
    "GSUB identity is judged on the raw table bytes after save -> reload; when the harness GSUB "
    "writer is in the list the reference is the compile with that writer alone",
    "the `useExtension` keyword of a block counts as part of the statements inside it (a "
    "statement that survives inside a block that lost the keyword is reported separately as "
    "block_useExtension_lost)",
    "<= 40 glyphs, <= 12 kerning pairs, <= 12 top-level blocks in the user's file",
]
NONVACUITY = ["cases_judged", "user_statements_matched", "gsub_compared_nonempty",
              "gsub_compared_with_harness_writer", "order_checked_gsub_hoisted",
              "writer_calls_logged", "marker_top", "marker_middle", "marker_bottom",
              "marker_alone", "marker_miscased_ignored", "skip_existing_respected",
              "append_block_after", "writers_default", "writers_lib",
              "writers_explicit_ellipsis", "gdef_user_table_judged", "user_blocks_unchanged",
              "useExtension_statements_kept"]

HAND_TAGS = ["kern", "mark", "mkmk", "curs"]
# tags a listed writer generates; a hand-written block of one of them is subject to the
# skip / append / marker rules (abvm and blwm: hand-written without marker only)
OWNED_TAGS = HAND_TAGS + ["abvm", "blwm", "dist"]


class HarnessGsubWriter(BaseFeatureWriter):
    """A feature writer that produces a substitution feature (ss20: o -> o.alt).  Declares
    tableTag 'GSUB', so the compiler has to run it before every writer that reads the GSUB."""

    tableTag = "GSUB"
    features = frozenset(["ss20"])

    def _write(self):
        feaFile = self.context.feaFile
        feature = _uast.FeatureBlock("ss20")
        feature.statements.append(
            _uast.SingleSubstStatement([_uast.GlyphName("o")], [_uast.GlyphName("o.alt")],
                                       [], [], False))
        self._insert(feaFile=feaFile, features=[feature])
        return True


# ---------------------------------------------------------------------------------------------
# M-order: log of writer.write calls

_LOG = []


def _install_hook():
    cur = BaseFeatureWriter.__dict__.get("write")
    if cur is None:
        return False
    if getattr(cur, "_vf_c17", False):
        return True
    orig = cur

    def write(self, font, feaFile, compiler=None):
        rec = {"cls": type(self).__name__, "tableTag": getattr(self, "tableTag", None),
               "mode": getattr(self, "mode", None)}
        _LOG.append(rec)
        res = orig(self, font, feaFile, compiler=compiler)
        rec["ret"] = bool(res)
        return res

    write._vf_c17 = True
    BaseFeatureWriter.write = write
    return True


# ---------------------------------------------------------------------------------------------

def n_cases(tier):
    return 3000 if tier == "quick" else 48000


def budget_s(tier):
    return 150 if tier == "quick" else 1500


GENERATED_LOOKUP_NAMES = ["kern_Latn", "kern_Latn", "kern_Default", "kern_Latn_marks",
                          "mark2base", "mark2liga", "mark2mark_top", "mark2mark_bottom",
                          "curs_ltr", "curs"]


def gen(rng, idx, tier):
    """Strata: default (~94 %) avoids the three mechanisms that are known to disagree with the
    statement (section 6 protocol); one small dedicated stratum per mechanism keeps exercising
    it."""
    spec, facts = G.gen_ufo(rng)
    r = rng.random()
    stratum = "default"
    if r < 0.02:
        stratum = "lookup_name_collision"
        fea, summary = G.gen_fea(rng, facts, collide=rng.choice(GENERATED_LOOKUP_NAMES))
        writers = G.gen_writers(rng)
    elif r < 0.04:
        stratum = "useExtension_split"
        t = rng.choice(HAND_TAGS)
        fea, summary = G.gen_fea(rng, facts, want={t: "middle"}, ext_split=True)
        writers = {"kind": "default"}
    elif r < 0.06:
        stratum = "mark_filtering_set"
        fea, summary = G.gen_fea(rng, facts, mfs=True, want={
            "mkmk": rng.choice(["top", "middle", "bottom", "alone"])})
        writers = {"kind": "default"}
    else:
        fea, summary = G.gen_fea(rng, facts)
        writers = G.gen_writers(rng)
    dup = (writers.get("kind") == "explicit" and len(writers["list"]) >= 2
           and writers["list"][1] == "..." and isinstance(writers["list"][0], dict)
           and writers["list"][0].get("class") in ("KernFeatureWriter", "MarkFeatureWriter",
                                                   "CursFeatureWriter"))
    if dup:
        # two writers for one feature AND two markers in the user's block: each writer fills
        # one marker - twice the rules by configuration, not the case under study
        import re
        for m in re.finditer(r"feature (\w+) \{(.*?)\} \1;", fea, re.S):
            if len(re.findall(r"^\s*# Automatic Code", m.group(2), re.M)) >= 2:
                writers = {"kind": "default"}
                break
    spec["features"] = fea
    return {"stratum": stratum, "ufo": spec, "writers": writers,
            "lib": rng.choice(["defcon", "ufoLib2"]), "summary": summary}


def sample_view(case):
    return {"lib": case["lib"], "writers": case["writers"], "features": case["ufo"]["features"],
            "n_glyphs": len(case["ufo"]["glyphs"]), "kerning": case["ufo"]["kerning"][:4]}


def _make_font(case, with_lib_writers=True):
    font = build_ufo(case["ufo"], case["lib"])
    lib = case["writers"].get("lib")
    if with_lib_writers and lib is not None:
        font.lib["com.github.googlei18n.ufo2ft.featureWriters"] = [
            {k: v for k, v in d.items() if k != "as"} for d in lib]
    return font


def _make_writer(e):
    import ufo2ft.featureWriters as FW
    klass = HarnessGsubWriter if e["class"] == "HarnessGsubWriter" else getattr(FW, e["class"])
    opts = e.get("options") or {}
    if e.get("as") == "class" and not opts:
        return klass
    return klass(**opts)


def _writers_arg(cfg):
    if cfg["kind"] in ("default", "lib"):
        return None
    return [Ellipsis if e == "..." else _make_writer(e) for e in cfg["list"]]


def _compile(font, writers):
    """-> (feature text, raw GSUB bytes or None)"""
    import ufo2ft
    from fontTools.ttLib import TTFont
    dbg = io.StringIO()
    tt = ufo2ft.compileTTF(font, featureWriters=writers, debugFeatureFile=dbg,
                           useProductionNames=False)
    buf = io.BytesIO()
    tt.save(buf)
    buf.seek(0)
    tt2 = TTFont(buf)
    gsub = tt2.reader["GSUB"] if "GSUB" in tt2.reader else None
    n_lookups = 0
    if gsub is not None:
        n_lookups = len(tt2["GSUB"].table.LookupList.Lookup) if tt2["GSUB"].table.LookupList else 0
    return dbg.getvalue(), gsub, (n_lookups, tt2)


def _gsub_resolved(tt):
    """XML dump of the GSUB table in which every MarkFilteringSet index is replaced by the glyph
    set it denotes in this font's GDEF (used only to DESCRIBE a byte difference)."""
    import re
    from fontTools.misc.xmlWriter import XMLWriter
    if "GSUB" not in tt:
        return None
    sets = []
    if "GDEF" in tt and getattr(tt["GDEF"].table, "MarkGlyphSetsDef", None) is not None:
        sets = [sorted(c.glyphs) if c is not None else None
                for c in tt["GDEF"].table.MarkGlyphSetsDef.Coverage]
    buf = io.BytesIO()
    w = XMLWriter(buf)
    tt["GSUB"].toXML(w, tt)
    w.close()
    xml = buf.getvalue().decode("utf-8")

    def rep(m):
        k = int(m.group(1))
        return "<MarkFilteringSet glyphs=%r/>" % (sets[k] if k < len(sets) else "?%d" % k,)
    return re.sub(r'<MarkFilteringSet value="(\d+)"/>', rep, xml)


def _texts(ls):
    return [l["text"] for l in ls]


def run(case):
    # ufo2ft writes the feature text to a NamedTemporaryFile(delete=False) when feaLib rejects
    # it; point the tempfile module at a scratch directory that is removed afterwards
    import shutil
    import tempfile
    scratch = tempfile.mkdtemp(prefix="vf_c17_")
    old = tempfile.tempdir
    tempfile.tempdir = scratch
    try:
        return _run(case)
    finally:
        tempfile.tempdir = old
        shutil.rmtree(scratch, ignore_errors=True)


def _run(case):
    counters = {}

    def bump(k, n=1):
        counters[k] = counters.get(k, 0) + n

    def done(status, violations=(), nontrivial=False):
        return {"status": status, "violations": list(violations), "counters": counters,
                "nontrivial": nontrivial}

    hooked = _install_hook()
    cfg = case["writers"]
    user_text = case["ufo"]["features"]
    glyph_names = [g["name"] for g in case["ufo"]["glyphs"]]

    # ---- the user's file, read independently; asFea round trip must be idempotent -------------
    try:
        udoc = R.parse(user_text, glyph_names)
        t1 = udoc.asFea()
        udoc2 = R.parse(t1, glyph_names)
        t2 = udoc2.asFea()
        uleaves = R.leaves(udoc)
        if t1 != t2 or [(l["tag"], l["text"]) for l in uleaves] != [
                (l["tag"], l["text"]) for l in R.leaves(udoc2)]:
            bump("generator_unsuitable")
            bump("generator_unsuitable_not_idempotent")
            return done("inconclusive")
    except Exception:  # noqa: BLE001
        bump("generator_unsuitable")
        bump("generator_unsuitable_unparsable")
        return done("inconclusive")

    # ---- compile without any writer: the user's file must be valid on its own -------------------
    try:
        _, gsub_plain, (nl_plain, tt_plain) = _compile(_make_font(case), [])
    except Exception:  # noqa: BLE001
        bump("generator_unsuitable")
        bump("generator_unsuitable_rejected_without_writers")
        return done("inconclusive")

    # ---- compile with the writers -----------------------------------------------------------------
    eff = R.effective_writers(cfg)
    has_harness = any(w["class"] == "HarnessGsubWriter" for w in eff)
    del _LOG[:]
    try:
        out_text, gsub_main, (nl_main, tt_main) = _compile(_make_font(case), _writers_arg(cfg))
    except Exception:  # noqa: BLE001
        return done("violated", [{"mech": "unexpected_exception", "detail": {
            "trace": traceback.format_exc()[-3000:], "writers": cfg,
            "user_lookup_names": sorted({k[7:] for l in uleaves for k in l["tag"].split(">")
                                         if k.startswith("lookup:")})}}])
    log = [dict(r) for r in _LOG]
    bump("cases_judged")
    if (cfg["kind"] == "explicit" and len(cfg["list"]) >= 2 and cfg["list"][1] == "..."
            and isinstance(cfg["list"][0], dict) and cfg["list"][0].get("class") != "HarnessGsubWriter"):
        bump("writers_one_class_twice_in_the_effective_list")
    bump("writers_" + ("explicit_ellipsis" if cfg["kind"] == "explicit" and "..." in cfg["list"]
                       else "explicit_plain" if cfg["kind"] == "explicit" else cfg["kind"]))
    violations = []

    def viol(mech, **detail):
        violations.append({"mech": mech, "detail": detail})

    # ---- (3) GSUB bytes ----------------------------------------------------------------------------
    if has_harness:
        harness_entry = [w for w in eff if w["class"] == "HarnessGsubWriter"][0]
        try:
            _, gsub_ref, (nl_ref, tt_ref) = _compile(
                _make_font(case, with_lib_writers=False),
                [HarnessGsubWriter(mode=harness_entry["mode"])])
        except Exception:  # noqa: BLE001
            return done("violated", [{"mech": "unexpected_exception_harness_only", "detail": {
                "trace": traceback.format_exc()[-3000:]}}])
        bump("gsub_compared_with_harness_writer")
    else:
        gsub_ref, nl_ref, tt_ref = gsub_plain, nl_plain, tt_plain
    if gsub_main != gsub_ref:
        try:
            modulo = _gsub_resolved(tt_main) == _gsub_resolved(tt_ref)
        except Exception:  # noqa: BLE001
            modulo = None
        viol("gsub_differs", with_harness_writer=has_harness,
             len_with=len(gsub_main) if gsub_main else None,
             len_without=len(gsub_ref) if gsub_ref else None, writers=cfg,
             equal_after_resolving_mark_filtering_sets=modulo,
             user_file_uses_mark_filtering_set="UseMarkFilteringSet" in user_text)
    if gsub_ref is not None and nl_ref > 0:
        bump("gsub_compared_nonempty")
    else:
        bump("gsub_compared_empty")

    # ---- (4) call order ----------------------------------------------------------------------------
    if hooked:
        bump("writer_calls_logged", len(log))
        first_other = next((i for i, r in enumerate(log) if r["tableTag"] != "GSUB"), None)
        late = [r["cls"] for i, r in enumerate(log)
                if r["tableTag"] == "GSUB" and first_other is not None and i > first_other]
        if late:
            viol("gsub_writer_after_other_writer", order=[(r["cls"], r["tableTag"]) for r in log])
        spec_first_other = next((i for i, w in enumerate(eff) if w["tableTag"] != "GSUB"), None)
        if has_harness and spec_first_other is not None and any(
                w["tableTag"] == "GSUB" and i > spec_first_other for i, w in enumerate(eff)):
            if any(r["tableTag"] == "GSUB" for r in log):
                bump("order_checked_gsub_hoisted")
        if has_harness and not any(r["cls"] == "HarnessGsubWriter" for r in log):
            viol("listed_writer_not_run", order=[(r["cls"], r["tableTag"]) for r in log])

    # ---- the compiled feature text ---------------------------------------------------------------
    try:
        odoc = R.parse(out_text, glyph_names)
    except Exception:  # noqa: BLE001
        viol("compiled_feature_text_unparsable", trace=traceback.format_exc()[-1500:])
        return done("violated", violations)
    oleaves = R.leaves(odoc)

    # (1) every user statement survives, in order
    ok, miss, matched = R.subsequence([(l["tag"], l["text"]) for l in uleaves],
                                      [(l["tag"], l["text"]) for l in oleaves])
    bump("user_statements_matched", matched)
    if not ok:
        viol("user_statement_lost_or_reordered", statement=uleaves[miss]["text"],
             tag=uleaves[miss]["tag"], index=miss, n_user=len(uleaves))
    else:
        # ... inside a block that still carries the user's `useExtension` keyword
        okx, missx, _ = R.subsequence([(l["xtag"], l["text"]) for l in uleaves],
                                      [(l["xtag"], l["text"]) for l in oleaves])
        n_ext = sum(1 for l in uleaves if "+useExtension" in l["xtag"])
        if not okx:
            lost = uleaves[missx]
            t = lost["topkey"][8:] if lost["topkey"].startswith("feature:") else None
            sp = R.split_at_marker(udoc, t) if t in OWNED_TAGS else None
            viol("block_useExtension_lost", statement=lost["text"], tag=lost["xtag"],
                 marker_splits_block=bool(sp and sp["has_marker"] and sp["before"]
                                          and sp["after"]),
                 statement_after_marker=bool(sp and lost["text"] in sp["after"]))
        elif n_ext:
            bump("useExtension_statements_kept", n_ext)

    # (2) per user-written top-level block
    o_by_key, u_by_key = {}, {}
    for l in oleaves:
        if l["topkey"]:
            o_by_key.setdefault(l["topkey"], []).append(l)
    for l in uleaves:
        if l["topkey"]:
            u_by_key.setdefault(l["topkey"], []).append(l)
    u_blocks = R.top_blocks(udoc)
    o_blocks = R.top_blocks(odoc)
    user_keys = []
    for _, k in u_blocks:
        if k not in user_keys:
            user_keys.append(k)
    o_lookup_top = {}
    for i, k in o_blocks:
        if k.startswith("lookup:"):
            o_lookup_top.setdefault(k[7:], i)
    user_lookup_names = {k[7:] for k in user_keys if k.startswith("lookup:")}
    judged_hand = False

    for key in user_keys:
        U = _texts(u_by_key.get(key, []))
        O = o_by_key.get(key, [])
        Ot = _texts(O)
        n_u = sum(1 for _, k in u_blocks if k == key)
        n_o = sum(1 for _, k in o_blocks if k == key)
        tag = key[8:] if key.startswith("feature:") else None
        w = R.writer_for_tag(eff, tag) if tag in OWNED_TAGS else None
        if key == "table:GDEF":
            _judge_gdef(U, Ot, n_u, n_o, viol, bump)
            continue
        sp = R.split_at_marker(udoc, tag) if tag in OWNED_TAGS else None
        if w is None or (w["mode"] == "skip" and not sp["has_marker"]):
            # nothing may be generated into / for this block
            if Ot != U:
                extra = len(Ot) - len(U)
                viol("user_feature_regenerated_or_modified" if tag in OWNED_TAGS
                     else "user_block_modified", key=key, n_user=len(U), n_output=len(Ot),
                     first_difference=_first_diff(U, Ot), extra_statements=extra,
                     writer=w, miscased_marker=bool(sp and sp["miscased"]))
            elif n_o != n_u and U:
                viol("user_block_count_changed", key=key, n_user_blocks=n_u, n_output_blocks=n_o)
            else:
                bump("user_blocks_unchanged")
                if w is not None:
                    judged_hand = True
                    bump("skip_existing_respected")
                    if sp["miscased"]:
                        bump("marker_miscased_ignored")
            continue
        judged_hand = True
        if w["mode"] == "append":
            # U then generated, generated in a block after the user's blocks
            if Ot[:len(U)] != U:
                viol("append_changed_user_block", key=key, first_difference=_first_diff(U, Ot))
            elif len(Ot) == len(U) and tag in ("abvm", "blwm", "dist"):
                # whether the mark writer has above-/below-base rules to write depends on the
                # declared scripts and the anchors: 'has something to write' is not guaranteed
                bump("append_indic_nothing_generated")
            elif len(Ot) == len(U):
                viol("append_generated_nothing", key=key, writer=w)
            else:
                if U and O[len(U)]["top"] <= O[len(U) - 1]["top"]:
                    viol("append_inside_user_block", key=key, statement=Ot[len(U)])
                else:
                    bump("append_block_after")
                    if sp["has_marker"]:
                        bump("append_marker_ignored")
            continue
        # skip mode with a marker: before + generated + after
        U1, U2 = sp["before"], sp["after"]
        where = ("alone" if not U1 and not U2 else "top" if not U1 else "bottom" if not U2
                 else "middle")
        n1, n2 = len(U1), len(U2)
        if Ot == U1 + U2:
            viol("marker_not_honoured", key=key, where=where, writer=w)
            continue
        if len(Ot) < n1 + n2 or Ot[:n1] != U1 or (n2 and Ot[-n2:] != U2):
            viol("generated_rules_not_at_marker_position", key=key, where=where,
                 user_before=U1, user_after=U2, output=Ot[:40])
            continue
        gen_leaves = O[n1:len(O) - n2] if n2 else O[n1:]
        if not gen_leaves:
            viol("marker_not_honoured", key=key, where=where, writer=w)
            continue
        # generated top-level lookups referenced from the generated rules sit between the
        # hand-written parts as well
        lo = O[n1 - 1]["top"] if n1 else -1
        hi = O[len(O) - n2]["top"] if n2 else len(odoc.statements)
        bad = []
        for l in gen_leaves:
            r = l.get("ref")
            if r is None or r in user_lookup_names or r not in o_lookup_top:
                continue
            t = o_lookup_top[r]
            if not (lo < t < hi):
                bad.append({"lookup": r, "top_index": t, "after_index": lo, "before_index": hi})
        if bad:
            viol("generated_lookup_not_at_marker_position", key=key, where=where, lookups=bad)
            continue
        bump("marker_" + where)
        if sp["n_blocks"] > 1:
            bump("marker_in_one_of_two_blocks")

    for t in (case.get("summary") or {}).get("indic_hand_written") or []:
        bump("hand_written_" + t + "_blocks")
    nontrivial = judged_hand or (gsub_ref is not None and nl_ref > 0)
    return done("violated" if violations else "held", violations, nontrivial)


def _first_diff(a, b):
    for i, (x, y) in enumerate(zip(a, b)):
        if x != y:
            return {"index": i, "user": x, "output": y}
    if len(a) != len(b):
        i = min(len(a), len(b))
        return {"index": i, "user": a[i] if i < len(a) else None,
                "output": b[i] if i < len(b) else None}
    return None


def _judge_gdef(U, Ot, n_u, n_o, viol, bump):
    """A hand-written GDEF table: not duplicated, its statements kept in order, and the writer
    adds only the kind of statement the user did not write (class definition / carets)."""
    if n_o != n_u:
        viol("gdef_table_duplicated", n_user_blocks=n_u, n_output_blocks=n_o)
        return
    ok, miss, _ = R.subsequence(U, Ot)
    if not ok:
        viol("gdef_statement_lost", statement=U[miss])
        return
    u_cd = sum(1 for t in U if t.startswith("GlyphClassDef"))
    o_cd = sum(1 for t in Ot if t.startswith("GlyphClassDef"))
    if u_cd and o_cd != u_cd:
        viol("gdef_glyphclassdef_duplicated", user=u_cd, output=o_cd)
        return
    u_car = [t for t in U if t.startswith("LigatureCaretBy")]
    o_car = [t for t in Ot if t.startswith("LigatureCaretBy")]
    if u_car and o_car != u_car:
        viol("gdef_ligature_carets_overridden", user=u_car, output=o_car)
        return
    bump("gdef_user_table_judged")
    if len(Ot) > len(U):
        bump("gdef_user_table_extended")


def classify(v, case):
    """Mechanism predicates (never case hashes) for the listed findings."""
    import re
    d = v.get("detail") or {}
    if v["mech"] == "unexpected_exception":
        m = re.search(r'Lookup "([^"]+)" has already been defined', d.get("trace", ""))
        if m and m.group(1) in (d.get("user_lookup_names") or []):
            return "generated_lookup_name_collides_with_user_lookup"
    if v["mech"] == "block_useExtension_lost":
        if d.get("marker_splits_block") and d.get("statement_after_marker") and \
                d.get("tag", "").startswith("feature:"):
            return "useExtension_lost_on_marker_split"
    if v["mech"] == "gsub_differs":
        if d.get("equal_after_resolving_mark_filtering_sets") is True and \
                d.get("user_file_uses_mark_filtering_set"):
            return "gsub_mark_filtering_set_renumbered"
    return None
