def define(M):
    # ---------------- C19 ----------------
    F = "Lib/ufo2ft/instantiator.py"
    # master shortcut hands out the cached master itself; kerning_instance.round() then rounds
    # the Variator's master in place -> later instances blend rounded masters (history + blend)
    M("C19", "master_shortcut_no_copy", F,
      "            return copy.deepcopy(self.location_to_master[normalized_location_key])\n",
      "            return self.location_to_master[normalized_location_key]\n")
    M("C19", "kerning_not_rounded", F,
      "            if self.round_geometry:\n                kerning_instance.round()\n",
      "            if self.round_geometry and False:\n                kerning_instance.round()\n")
    M("C19", "groups_not_swapped", F,
      "        font.groups[group_name] = group_members_new\n",
      "        font.groups[group_name] = list(group_members)\n")
    # axis extremes taken in user coordinates (invisible without an axis map)
    M("C19", "bounds_in_user_coordinates", F,
      "                axis.map_forward(axis.minimum),\n                axis.map_forward(axis.default),\n"
      "                axis.map_forward(axis.maximum),\n",
      "                axis.minimum,\n                axis.map_forward(axis.default),\n"
      "                axis.maximum,\n")
    M("C19", "anchors_from_default_source", F,
      "        glyph_instance.extractGlyph(output_glyph, onlyGeometry=True)\n",
      "        glyph_instance.extractGlyph(output_glyph, onlyGeometry=True)\n"
      "        output_glyph.anchors = [\n"
      "            dict(a) for a in self.default_source_glyphs[glyph_name].anchors\n"
      "        ]\n")
    M("C19", "swap_also_swaps_unicodes", F,
      "    # 2. Swap anchors.\n",
      "    glyph_old.unicodes, glyph_new.unicodes = (\n"
      "        list(glyph_new.unicodes),\n        list(glyph_old.unicodes),\n    )\n"
      "    # 2. Swap anchors.\n")
    M("C19", "rules_at_normalized_location", F,
      "        swaps = process_rules_swaps(self.designspace_rules, location, self.glyph_names)\n",
      "        swaps = process_rules_swaps(\n"
      "            self.designspace_rules, location_normalized, self.glyph_names\n        )\n")
    M("C19", "swap_components_one_way", F,
      "            if c.baseGlyph == name_old:\n                c.baseGlyph = name_new\n"
      "            elif c.baseGlyph == name_new:\n                c.baseGlyph = name_old\n",
      "            if c.baseGlyph == name_old:\n                c.baseGlyph = name_new\n")
    M("C19", "sparse_layers_feed_kerning", F,
      "            continue  # No kerning in non-default source layers.\n",
      "            pass  # No kerning in non-default source layers.\n")
    M("C19", "python_round_instead_of_otround", F,
      "fontMath.mathFunctions.setRoundIntegerFunction(fontTools.misc.fixedTools.otRound)\n",
      "fontMath.mathFunctions.setRoundIntegerFunction(round)\n")
    M("C19", "swap_keeps_width", F,
      "    glyph_old.width = glyph_new.width\n",
      "    pass\n")
    M("C19", "glyph_set_union_of_sources", F,
      "        return self.default_source_glyphs.keys()\n",
      "        return {n: None for _, layer in self.source_layers for n in layer}.keys()\n")
    M("C19", "info_not_rounded", F,
      "        if self.round_geometry:\n            info_instance = info_instance.round()\n",
      "        if self.round_geometry and False:\n            info_instance = info_instance.round()\n")
    M("C19", "sorts_source_groups_in_place", F,
      "    groups = designspace.default.font.groups\n",
      "    groups = designspace.default.font.groups\n"
      "    for _name in list(groups.keys()):\n        groups[_name] = sorted(groups[_name])\n")
    # the empty-glyph filter applied to every glyph: drops nothing for compatible masters, but
    # a variant that drops the LAST master of a glyph is what a wrong slice would do
    M("C19", "glyph_model_drops_last_master", F,
      "    # Filter out empty glyphs if the default glyph is not empty.\n",
      "    if len(locations_and_masters) > 2:\n"
      "        locations_and_masters = locations_and_masters[:-1]\n"
      "    # Filter out empty glyphs if the default glyph is not empty.\n")
    M("C19", "swap_kerning_first_side_only", F,
      "        if second == name_old:\n            second = name_new\n"
      "        elif second == name_new:\n            second = name_old\n",
      "")
    M("C19", "glyph_not_rounded", F,
      "        if self.round_geometry:\n            glyph_instance = glyph_instance.round()\n",
      "        if self.round_geometry and glyph_name not in self.skip_export_glyphs and False:\n"
      "            glyph_instance = glyph_instance.round()\n")
    M("C19", "instance_location_default_wins", F,
      "        location = {**self.default_design_location, **instance.location}\n",
      "        location = {**instance.location, **self.default_design_location}\n")
