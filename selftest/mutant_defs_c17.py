def define(M):
    # ---------------- C17 ----------------
    BASE = "Lib/ufo2ft/featureWriters/baseFeatureWriter.py"
    # marker in the middle: the tail block loses its first statement (off by one after the
    # marker comment was already deleted)
    M("C17", "middle_marker_drops_tail_statement", BASE,
      "                    afterBlock.statements = block.statements[markerIndex:]",
      "                    afterBlock.statements = block.statements[markerIndex + 1 :]")
    # skip mode no longer removes the features the user already wrote from the todo list
    M("C17", "skip_mode_ignores_existing_feature", BASE,
      "            todo.difference_update(existing)\n",
      "            pass\n")
    # GSUB writers are not hoisted before the writers that read the GSUB
    M("C17", "gsub_writers_not_hoisted", "Lib/ufo2ft/featureCompiler.py",
      "        self.featureWriters = gsubWriters + others",
      "        self.featureWriters = others + gsubWriters")
    # class / markClass definitions go into the first feature block of the file instead of the
    # top of the file
    M("C17", "classdefs_inserted_inside_first_feature_block", BASE,
      "        feaFile.statements = statements = others + statements\n",
      "        blk = next((s for s in statements if isinstance(s, ast.FeatureBlock)), None)\n"
      "        if blk is not None and others:\n"
      "            blk.statements[0:0] = others\n"
      "        else:\n"
      "            feaFile.statements = statements = others + statements\n")
    # the marker is matched case-insensitively
    M("C17", "marker_regex_case_insensitive", BASE,
      'INSERT_FEATURE_MARKER = r"\\s*# Automatic Code.*"',
      'INSERT_FEATURE_MARKER = r"(?i)\\s*# Automatic Code.*"')
    # marker at the bottom: generated feature inserted BEFORE the block
    M("C17", "bottom_marker_inserts_before_block", BASE,
      "                elif onlyCommentsAfter:\n                    index = statements.index(block) + 1",
      "                elif onlyCommentsAfter:\n                    index = statements.index(block)")
    # marker at the top: generated feature inserted AFTER the block
    M("C17", "top_marker_inserts_after_block", BASE,
      "                elif onlyCommentsBefore:\n                    index = statements.index(block)\n",
      "                elif onlyCommentsBefore:\n                    index = statements.index(block) + 1\n")
    # features with a marker are still treated as existing -> never generated
    M("C17", "marker_never_honoured", BASE,
      "                existing.difference_update(insertComments.keys())",
      "                pass")
    # generated top-level lookups are put at the top of the file, not at the marker
    M("C17", "generated_lookups_at_top_of_file", BASE,
      "                statements[:minindex] + lookups + statements[minindex:]",
      "                lookups + statements")
    # GDEF writer adds a second GlyphClassDef to a hand-written GDEF table
    M("C17", "gdef_writer_duplicates_glyphclassdef",
      "Lib/ufo2ft/featureWriters/gdefFeatureWriter.py",
      '                    ctx.todo.discard("GlyphClassDefs")',
      "                    pass")
    # options of lib-specified writers (mode=append, features=...) are dropped
    M("C17", "lib_writer_options_dropped", "Lib/ufo2ft/featureWriters/__init__.py",
      "            writer = klass(**options)",
      "            writer = klass()")
    # the ellipsis always expands to the default writers, the lib list is ignored
    M("C17", "ellipsis_ignores_lib_writers", "Lib/ufo2ft/featureCompiler.py",
      "                writers = loadFeatureWriters(self.ufo)\n",
      "                writers = None\n")
    # the kern writer registers languagesystems itself when the user wrote none (the "obvious"
    # repair of C20) -> the GSUB script list changes
    M("C17", "kern_writer_adds_languagesystems",
      "Lib/ufo2ft/featureWriters/kernFeatureWriter.py",
      "        # NOTE: We don't write classDefs because we literalise all classes.\n",
      "        if not any(isinstance(s, ast.LanguageSystemStatement) for s in feaFile.statements):\n"
      "            feaFile.statements.insert(0, ast.LanguageSystemStatement(\"latn\", \"dflt\"))\n"
      "            feaFile.statements.insert(0, ast.LanguageSystemStatement(\"DFLT\", \"dflt\"))\n")
    # marker in the middle: the generated block is inserted after the split-off tail block
    # (before-part, after-part, generated) instead of between the two parts
    M("C17", "middle_marker_tail_before_generated", BASE,
      "                    statements.insert(index, afterBlock)\n",
      "                    statements.insert(index, afterBlock)\n                    index += 1\n")
