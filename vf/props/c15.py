"""C15 - Component/transform filters preserve rendering; anchors follow components.

Run: generated component DAG fonts (depth <= 4, shared bases, mixed glyphs, dyadic / mirrored /
rotated / general transforms, anchors with fractional coordinates) x {defcon, ufoLib2} x the REAL
filter object (DecomposeComponentsFilter, DecomposeTransformedComponentsFilter,
FlattenComponentsFilter, TransformationsFilter, PropagateAnchorsFilter) with include lists /
exclude lists / predicates, applied in place on the font or on a separate glyph set.
Observe: every glyph read back through the point-pen protocol into the spec format.
Oracle: exact-rational resolver (vf.ref.render: composed matrices, reversal by composed
determinant) evaluated on the ORIGINAL spec and on the read-back spec; see the functions
check_decomposition / check_transformations / check_propagate.
"""
import math
import traceback
from fractions import Fraction as F

import vf  # noqa: F401
from vf.build import build_ufo
from vf.gen import outlines
from vf.ref import glyphsnap as S
from vf.ref import render as R

ID = "C15"
RULE = ("case = seeded component-DAG UFO (3-14 glyphs, nesting depth <= 4, shared bases, mixed "
        "glyphs, int/dyadic/float coordinates, identity/dyadic/mirrored/rotated/general component "
        "transforms, base/mark/ligature anchors with fractional coordinates, optional glyph heights "
        "and openTypeCategories) x UFO library x one of the five filters x selection (all / include "
        "list / exclude list / predicate) x target (font in place / copied glyph set / foreign dict) "
        "x, for TransformationsFilter, offset/scale/slant/origin options; distinct = sha1 of the case "
        "description; non-trivial = the filter changed at least one glyph and that glyph was judged")
ASSUMPTIONS = [
    "defcon / ufoLib2 glyph.drawPoints, .anchors, .width, .height report what is stored (reader)",
    "missing base glyphs and cyclic component graphs are outside the quantifier (not generated)",
    "dyadic/int inputs with dyadic component matrices: all filter arithmetic is exact in binary "
    "floating point, the resolved contours are compared EXACTLY; otherwise within 1e-9 x the "
    "font's coordinate magnitude (decompose/flatten/propagate) resp. 1e-6 x (transformations)",
    "contours are compared as a multiset of direction-sensitive closed cycles (start point free, "
    "open contours closed); nothing is cleaned away: zero-length segments and single-point "
    "contours must survive; whether contour ORDER was preserved is counted",
    "TransformationsFilter: the requested matrix is T(OffsetX,OffsetY) . T(0,h) . S(ScaleX%,ScaleY%)"
    " . SkewX(Slant deg) . T(0,-h), h = origin height (half heights: exact half or rounded half both "
    "accepted); the advance may be mapped as width*ScaleX or as the vector (width,height) under the "
    "linear part (both accepted, counted); height is observed only; ScaleX, ScaleY > 0 in the "
    "default stratum",
    "PropagateAnchorsFilter: weak oracle - an added anchor n (or n_k) must coincide with the image "
    "of an anchor n of some component's base under the transforms composed along a component path; "
    "the selection heuristics are not modelled; the returned modified set is not judged (C14)",
    "glyphs a filter does not include are only judged on what they render",
]
FILTERS = ["decompose", "decomposeTransformed", "flatten", "transformations", "propagateAnchors"]
CLASSNAME = {
    "decompose": "DecomposeComponentsFilter",
    "decomposeTransformed": "DecomposeTransformedComponentsFilter",
    "flatten": "FlattenComponentsFilter",
    "transformations": "TransformationsFilter",
    "propagateAnchors": "PropagateAnchorsFilter",
}
NONVACUITY = ["evaluated_" + c for c in CLASSNAME.values()] + [
    "neg_det_glyphs_acted", "depth3_glyphs_acted", "exact_glyphs", "tol_glyphs",
    "tf_included_base_and_composite", "tf_glyphs_mapped", "tf_anchors_mapped",
    "anchors_added", "anchors_added_numbered", "anchors_kept_checked", "second_application_runs",
    "select_include", "select_exclude", "select_predicate", "target_glyphset_copy",
    "target_glyphset_dict", "lib_defcon", "lib_ufoLib2", "flatten_glyphs_flattened",
    "dtc_decomposed", "dtc_kept_untransformed",
]

TOL_DECOMP = F(1, 10 ** 9)
TOL_TF = F(1, 10 ** 6)


def n_cases(tier):
    return 4000 if tier == "quick" else 60000


def budget_s(tier):
    return 150 if tier == "quick" else 1500


# ----------------------------------------------------------------------------------------------
# generation

BASE_ANCHORS = ["top", "bottom", "ogonek", "topright", "center"]
MARK_ANCHORS = ["_top", "_bottom", "_ogonek"]


def _pt(rng, mode):
    return outlines.coord(rng, mode), outlines.coord(rng, mode)


def add_anchors(rng, glyphs, mode, density):
    """Base / mark / ligature style anchors; composites sometimes already carry anchors (must not
    be overridden)."""
    for g in glyphs:
        if rng.random() > density:
            continue
        anchors = []
        composite = bool(g["components"])
        r = rng.random()
        if composite and r < 0.6:
            # a composite with own anchors (possibly names its bases have too)
            names = rng.sample(BASE_ANCHORS, rng.randint(1, 2))
            if "_" in g["name"].strip("_") and rng.random() < 0.5:
                names = ["top_1", "top_2"][:rng.randint(1, 2)] + names[:1]
            if rng.random() < 0.15:
                names.append(rng.choice(MARK_ANCHORS))
        elif r < 0.3:
            # mark: _x, often also x (mark-to-mark)
            m = rng.choice(MARK_ANCHORS)
            names = [m]
            if rng.random() < 0.6:
                names.append(m[1:])
            if rng.random() < 0.2:
                names.append(rng.choice(BASE_ANCHORS))
        else:
            names = rng.sample(BASE_ANCHORS, rng.randint(1, 3))
        seen = set()
        for n in names:
            if n in seen:
                continue
            seen.add(n)
            x, y = _pt(rng, mode)
            anchors.append({"name": n, "x": x, "y": y})
        g["anchors"] = anchors


def rename_ligatures(rng, glyphs):
    """Give some multi-component composites ligature-like names (a_b)."""
    used = {g["name"] for g in glyphs}
    ren = {}
    for g in glyphs:
        if len(g["components"]) >= 2 and not g["contours"] and rng.random() < 0.3 \
                and g["name"] != ".notdef":
            a = g["components"][0]["base"].split(".")[0].strip("_") or "x"
            b = g["components"][1]["base"].split(".")[0].strip("_") or "y"
            new = "%s_%s" % (a.replace("_", ""), b.replace("_", ""))
            if new not in used and new not in ren.values():
                ren[g["name"]] = new
                used.add(new)
    if ren:
        rename_glyphs(glyphs, ren)


def selected(g, select):
    """Evaluate the selection on a glyph SPEC (mirrors the lambda given to the filter)."""
    k = select["kind"]
    if k == "all":
        return True
    if k == "include":
        return g["name"] in select["names"]
    if k == "exclude":
        return g["name"] not in select["names"]
    p = select["pred"]
    if p == "names":
        return g["name"] in select["names"]
    if p == "has_components":
        return bool(g["components"])
    if p == "no_contours":
        return not g["contours"]
    if p == "width_gt":
        return g["width"] > select["arg"]
    raise ValueError(p)


def filter_kwargs(select):
    k = select["kind"]
    if k == "all":
        return {}
    if k == "include":
        return {"include": list(select["names"])}
    if k == "exclude":
        return {"exclude": list(select["names"])}
    p = select["pred"]
    if p == "names":
        names = set(select["names"])
        return {"include": lambda g: g.name in names}
    if p == "has_components":
        return {"include": lambda g: bool(g.components)}
    if p == "no_contours":
        return {"include": lambda g: len(g) == 0}
    if p == "width_gt":
        arg = select["arg"]
        return {"include": lambda g: g.width > arg}
    raise ValueError(p)


def gen_select(rng, glyphs, state_predicates=True):
    names = [g["name"] for g in glyphs]
    r = rng.random()
    if r < 0.3:
        return {"kind": "all"}
    # degenerate lists: an empty include list selects nothing, an empty exclude list everything
    e = rng.random()
    if e < 0.05:
        return {"kind": "include", "names": []}
    if e < 0.08:
        return {"kind": "exclude", "names": []}
    k = rng.randint(1, max(1, len(names) - 1))
    if r < 0.55:
        # biased towards taking a composite together with (some of) its bases
        pick = set(rng.sample(names, k))
        comps = [g for g in glyphs if g["components"]]
        if comps and rng.random() < 0.7:
            g = rng.choice(comps)
            pick.add(g["name"])
            for c in g["components"]:
                if rng.random() < 0.7:
                    pick.add(c["base"])
        return {"kind": "include", "names": sorted(pick)}
    if r < 0.75:
        return {"kind": "exclude", "names": sorted(rng.sample(names, min(k, 4)))}
    preds = ["names"]
    if state_predicates:
        preds += ["has_components", "no_contours", "width_gt"]
    p = rng.choice(preds)
    sel = {"kind": "predicate", "pred": p}
    if p == "names":
        sel["names"] = sorted(rng.sample(names, k))
    elif p == "width_gt":
        sel["arg"] = rng.choice([0, 300, 600, 599.5])
    return sel


SCALES_EXACT = [100, 50, 200, 25, 400, 100]
SCALES_ANY = [100, 50, 200, 150, 75, 125, 80, 110, 33.3, 1, 400, 62.5, 99.9]


def gen_tf_options(rng, exactish):
    def off():
        return rng.choice([0, 0, rng.randint(-300, 300), rng.randint(-300, 300) + 0.5,
                           round(rng.uniform(-300, 300), 3)])
    o = {"OffsetX": off(), "OffsetY": off(),
         "ScaleX": 100, "ScaleY": 100, "Slant": 0, "Origin": rng.choice([0, 1, 2, 3, 4, 4])}
    r = rng.random()
    pool = SCALES_EXACT if exactish else SCALES_ANY
    if r < 0.75:
        o["ScaleX"] = rng.choice(pool)
        o["ScaleY"] = rng.choice(pool) if rng.random() < 0.7 else o["ScaleX"]
    if not exactish and rng.random() < 0.45:
        o["Slant"] = rng.choice([12, -12, 9.5, 30, 45, -20.25, 1])
    if (o["OffsetX"], o["OffsetY"], o["ScaleX"], o["ScaleY"], o["Slant"]) == (0, 0, 100, 100, 0) \
            and rng.random() < 0.9:
        o["OffsetX"] = rng.choice([10, -35.5, 120])
    return o


def is_empty(g):
    return not (g["contours"] or g["components"] or g["anchors"])


def tf_sandwiches(glyphs, select):
    """Non-included glyphs N that are referenced (directly) by an included glyph and reach an
    included non-empty glyph: N's rendering changes under an included composite's component."""
    by = {g["name"]: g for g in glyphs}
    inc = {n for n, g in by.items() if selected(g, select)}
    act = {n for n in inc if not is_empty(by[n])}
    out = set()
    for n in act:
        for c in by[n]["components"]:
            b = c["base"]
            if b not in act and (S.reaches(by, b) & act):
                out.add(b)
    return out


def rename_glyphs(glyphs, ren):
    for g in glyphs:
        g["name"] = ren.get(g["name"], g["name"])
        for c in g["components"]:
            c["base"] = ren.get(c["base"], c["base"])


def draws_nothing(by, name):
    """No segment at all in the resolved outline (nothing, or single points only)."""
    return not any(segs for _, segs in S.drawing(by, name))


def ligmark_hazards(glyphs):
    """Ligature-named composites with a component whose outline is empty: when all components
    are marks the filter asks for the bounds of each component (None for an empty one)."""
    by = {g["name"]: g for g in glyphs}
    out = []
    for g in glyphs:
        n = g["name"]
        if g["components"] and "_" in n and not n.startswith("_"):
            if any(draws_nothing(by, c["base"]) for c in g["components"]):
                out.append(n)
    return out


def outlined(glyphs, max_depth=None):
    """Names of the glyphs that draw something (optionally only those nested <= max_depth, or
    the shallowest ones when there is none)."""
    by = {g["name"]: g for g in glyphs}
    names = [g["name"] for g in glyphs if not draws_nothing(by, g["name"])]
    if max_depth is None or not names:
        return names
    d = {n: S.depth_of(by, n) for n in names}
    lim = max(max_depth, min(d.values()))
    return [n for n in names if d[n] <= lim]


def gen(rng, idx, tier):
    filt = rng.choice(["decompose", "decomposeTransformed", "flatten", "flatten",
                       "transformations", "transformations", "transformations",
                       "propagateAnchors", "propagateAnchors"])
    # small dedicated strata for the listed findings (<= 5 % together), see classify()
    stratum = "default"
    r = rng.random()
    if r < 0.012:
        stratum, filt = "tf_sandwich", "transformations"
    elif r < 0.022:
        stratum, filt = "tf_empty_advance", "transformations"
    elif r < 0.034:
        stratum, filt = "tf_mirror_matrix", "transformations"
    elif r < 0.044:
        stratum, filt = "pa_ligmark_empty", "propagateAnchors"
    mode = rng.choice(["mixed", "dyadic", "int", "mixed"])
    exact = mode in ("dyadic", "int")
    glyphs = outlines.component_font(rng, mode=mode, max_depth=4,
                                     tmode="dyadic" if exact else None, max_seg=6)
    if not outlined(glyphs):
        glyphs[0]["contours"] = [[[0, 0, "line", False], [100, 0, "line", False],
                                  [50, 100.5, "line", False]]]
    if filt == "decomposeTransformed":
        for g in glyphs:
            for c in g["components"]:
                if rng.random() < 0.45:
                    c["t"][:4] = [1, 0, 0, 1]
    if filt == "propagateAnchors":
        rename_ligatures(rng, glyphs)
    add_anchors(rng, glyphs, mode, 0.75 if filt == "propagateAnchors" else 0.45)
    for g in glyphs:
        if rng.random() < 0.15:
            g["height"] = rng.choice([1000, 500, 880.5, 1200])
    info = {"unitsPerEm": 1000, "familyName": "T", "styleName": "R",
            "capHeight": rng.choice([700, 701, 650, 700.5] if not exact else [700, 701, 640]),
            "xHeight": rng.choice([500, 481, 0, 450.25] if not exact else [500, 481, 0])}
    ufo = {"glyphs": glyphs, "info": info}
    select = gen_select(rng, glyphs)
    case = {"filter": filt, "mode": mode, "exact": exact,
            "lib": rng.choice(["defcon", "ufoLib2"]),
            "target": rng.choice(["font", "font", "font", "glyphset_copy", "glyphset_copy",
                                  "glyphset_dict"])}

    def new_glyph(name, **kw):
        g = {"name": name, "contours": [], "components": [], "anchors": [], "unicodes": [],
             "width": rng.choice([500, 600, 312.5])}
        g.update(kw)
        glyphs.append(g)
        return g

    def comp(base):
        return {"base": base, "t": outlines.transform(rng, "dyadic" if exact else mode)}

    if filt == "propagateAnchors":
        if stratum == "pa_ligmark_empty":
            # a ligature of marks one of which has anchors but no outline
            x, y = _pt(rng, mode)
            new_glyph("emptycomb", width=0, anchors=[{"name": "_top", "x": x, "y": y},
                                                     {"name": "top", "x": x, "y": y + 100}])
            other = rng.choice(outlined(glyphs, 2))
            new_glyph("markcomb", width=0, components=[comp(other)],
                      anchors=[{"name": "_top", "x": y, "y": x}, {"name": "top", "x": y, "y": 300}])
            new_glyph("emptycomb_markcomb", width=0,
                      components=[comp("emptycomb"), comp("markcomb")])
            select = rng.choice([{"kind": "all"},
                                 {"kind": "include", "names": ["emptycomb_markcomb"]}])
        else:
            hz = ligmark_hazards(glyphs)
            if hz:
                used = {g["name"] for g in glyphs}
                ren = {}
                for n in hz:
                    new = n.replace("_", "")
                    while new in used:
                        new += ".x"
                    used.add(new)
                    ren[n] = new
                rename_glyphs(glyphs, ren)
                select = gen_select(rng, glyphs)
            if rng.random() < 0.3:
                # a mark stacked on a mark: which of the two is the base is decided by the
                # lower-left corners of their outlines (pairs that rank differently under other
                # distance measures included)
                sq = lambda w, h: [[[0, 0, "line"], [w, 0, "line"], [w, h, "line"], [0, h, "line"]]]  # noqa: E731
                new_glyph("dotmk", width=0, contours=sq(60, 60),
                          anchors=[{"name": "_top", "x": 30, "y": -10}, {"name": "top", "x": 30, "y": 90}])
                new_glyph("tildemk", width=0, contours=sq(120, 40),
                          anchors=[{"name": "_top", "x": 60, "y": -12}, {"name": "top", "x": 60, "y": 70}])
                o1, o2 = rng.choice([((-150, 150), (0, 250)), ((0, 250), (-150, 150)),
                                     ((120, -90), (10, 170)), ((0, 0), (0, 120)), ((-200, 40), (30, 210)),
                                     ((-96, 128), (0, 168)), ((40, -180), (-130, 130))])
                cs = [{"base": "dotmk", "t": [1, 0, 0, 1, o1[0], o1[1]]},
                      {"base": "tildemk", "t": [1, 0, 0, 1, o2[0], o2[1]]}]
                if rng.random() < 0.5:
                    cs.reverse()
                new_glyph("dotmk_tildemk", width=0, components=cs)
                if not selected(glyphs[-1], select):
                    select = {"kind": "all"}
        cats = {}
        for g in glyphs:
            if any(a["name"].startswith("_") for a in g["anchors"]) and rng.random() < 0.5:
                cats[g["name"]] = "mark"
            elif g["components"] and g["anchors"] and rng.random() < 0.2:
                cats[g["name"]] = "mark"
            elif rng.random() < 0.1:
                cats[g["name"]] = rng.choice(["base", "ligature"])
        if cats:
            ufo["lib"] = {"public.openTypeCategories": cats}
    if filt == "transformations":
        opts = gen_tf_options(rng, exact and rng.random() < 0.6)
        case["options"] = opts
        if stratum == "tf_sandwich":
            # included composite -> NON-included composite -> included outlined glyph
            b = rng.choice(outlined(glyphs, 2))
            new_glyph("sw.mid", components=[comp(b)])
            new_glyph("sw.top", components=[comp("sw.mid")])
            extra = [g["name"] for g in glyphs
                     if g["name"] not in ("sw.mid", "sw.top", b) and rng.random() < 0.3]
            select = {"kind": "include", "names": sorted({b, "sw.top", *extra})}
        elif stratum == "tf_mirror_matrix":
            # mirroring matrix, included composite whose (outlined) base is not included
            opts[rng.choice(["ScaleX", "ScaleY"])] = rng.choice([-100, -50, -150])
            b = rng.choice(outlined(glyphs, 3))
            new_glyph("mm.top", components=[comp(b)])
            select = {"kind": "include", "names": ["mm.top"]}
        elif stratum == "tf_empty_advance":
            # an included glyph with an advance and nothing else, horizontal scale
            opts["ScaleX"] = rng.choice([50, 200, 80, 125])
            new_glyph("sp.empty", width=rng.choice([250, 500, 333.5]))
            if not selected(glyphs[-1], select):
                select = {"kind": "all"}
        if stratum != "tf_sandwich":
            # keep the include set convex: a non-included glyph between two included ones would
            # have to be compensated, which the statement does not let the filter do
            for _ in range(20):
                sw = tf_sandwiches(glyphs, select)
                if not sw:
                    break
                inc = {g["name"] for g in glyphs if selected(g, select)}
                select = {"kind": rng.choice(["include", "predicate"]), "pred": "names",
                          "names": sorted(inc | sw)}
                if select["kind"] == "include":
                    del select["pred"]
        scaled_adv = opts["ScaleX"] != 100 or opts["Slant"] != 0
        if stratum != "tf_empty_advance" and scaled_adv:
            # an included glyph with nothing in it but an advance: give it an anchor or no advance
            for g in glyphs:
                if is_empty(g) and selected(g, select) and (g["width"] or g.get("height")):
                    if rng.random() < 0.5:
                        x, y = _pt(rng, mode)
                        g["anchors"] = [{"name": "top", "x": x, "y": y}]
                    else:
                        g["width"] = 0
                        g.pop("height", None)
    case["stratum"] = stratum
    case["select"] = select
    case["ufo"] = ufo
    # the interpolatable variants (one call on several compatible masters, WITHOUT an
    # instantiator - the UFO-list API): every master must keep its own rendering
    if (stratum == "default" and filt in ("decompose", "decomposeTransformed", "flatten")
            and rng.random() < 0.2):
        case["interp"] = rng.choice([2, 3])
        case["target"] = rng.choice(["font", "glyphset_copy"])
        if select.get("kind") == "predicate":
            case["select"] = {"kind": "all"}
    return case


def other_master(glyphs, k):
    """A compatible master: same structure and 2x2 parts, other offsets / points / advances."""
    import copy
    out = copy.deepcopy(glyphs)
    for gi, g in enumerate(out):
        g["width"] = g["width"] + 10 * k
        for c in g["contours"]:
            for p in c:
                p[0] += 7 * k
                p[1] -= 3 * k
        for ci, c in enumerate(g["components"]):
            c["t"] = list(c["t"][:4]) + [c["t"][4] + (13 + gi + 5 * ci) * k,
                                         c["t"][5] - (9 + 2 * gi) * k]
        for a in g["anchors"]:
            a["x"] += 4 * k
    return out


def sample_view(case):
    g = case["ufo"]["glyphs"]
    return {k: case[k] for k in ("filter", "lib", "target", "select", "mode", "stratum")
            if k in case} | {"options": case.get("options"), "n_glyphs": len(g),
                             "first_glyphs": g[:2]}


# ----------------------------------------------------------------------------------------------
# helpers


def font_scale(before, B):
    """Coordinate magnitude of the font: all source coordinates, component offsets, anchors and
    all resolved coordinates."""
    m = F(1)
    for n, g in before.items():
        for c in g["contours"]:
            for p in c:
                m = max(m, abs(R.fr(p[0])), abs(R.fr(p[1])))
        for c in g["components"]:
            m = max(m, abs(R.fr(c["t"][4])), abs(R.fr(c["t"][5])))
        for a in g["anchors"]:
            m = max(m, abs(R.fr(a["x"])), abs(R.fr(a["y"])))
        if g["components"]:
            m = max(m, S.max_abs(B.cycles(n)))
    return m


def same_components(a, b):
    if len(a) != len(b):
        return False
    for x, y in zip(a, b):
        if x["base"] != y["base"] or [R.fr(v) for v in x["t"]] != [R.fr(v) for v in y["t"]]:
            return False
    return True


def same_contours(a, b):
    if len(a) != len(b):
        return False
    for c, d in zip(a, b):
        if len(c) != len(d):
            return False
        for p, q in zip(c, d):
            if R.fr(p[0]) != R.fr(q[0]) or R.fr(p[1]) != R.fr(q[1]) or p[2] != q[2]:
                return False
    return True


class Ctx:
    def __init__(self, case):
        self.case = case
        self.counters = {}
        self.violations = []
        self.nontrivial = False

    def bump(self, k, n=1):
        self.counters[k] = self.counters.get(k, 0) + n

    def bad(self, mech, **detail):
        if len(self.violations) < 12:
            self.violations.append({"mech": mech, "detail": detail})


def compare_render(ctx, name, ref, got, exact, dev, mech, extra=None):
    """ref / got: exact-rational closed cycles.  Exact comparison when `exact`, else tolerance."""
    if exact:
        ok, same_order = S.compare_exact(ref, got)
        ctx.bump("exact_glyphs")
    else:
        ok, same_order = S.compare_tol(ref, got, dev)
        ctx.bump("tol_glyphs")
    if ok:
        ctx.bump("contour_order_preserved" if same_order else "contour_order_changed")
    else:
        d = {"glyph": name, "exact": bool(exact), "allowed_deviation": float(dev),
             "expected": S.show(ref), "got": S.show(got),
             "equal_up_to_contour_direction": S.compare_tol(ref, got, dev, undirected=True)[0]}
        d.update(extra or {})
        ctx.bad(mech, **d)
    return ok


# ----------------------------------------------------------------------------------------------
# decompose / decomposeTransformed / flatten


def check_decomposition(ctx, before, after, included):
    case = ctx.case
    filt = case["filter"]
    exact = case["exact"]
    B, A = S.Snap(before), S.Snap(after)
    dev = TOL_DECOMP * font_scale(before, B)
    changed = {n for n in before
               if not (same_components(before[n]["components"], after[n]["components"])
                       and same_contours(before[n]["contours"], after[n]["contours"]))}
    for name in before:
        acted = name in changed or bool(S.reaches(before, name) & changed)
        ctx.bump("glyphs_compared")
        if not acted:
            # neither the glyph nor anything it refers to was touched: same spec, same rendering
            ctx.bump("glyphs_untouched")
            continue
        compare_render(ctx, name, B.cycles(name), A.cycles(name), exact, dev, "render_changed",
                       {"filter": filt, "glyph_changed": name in changed})
        if acted:
            ctx.nontrivial = True
            ctx.bump("glyphs_acted")
            if B.n_flipped(name):
                ctx.bump("neg_det_glyphs_acted")
            if S.depth_of(before, name) >= 3:
                ctx.bump("depth3_glyphs_acted")
        # anchors and advance are not these filters' business (observed only, C14 judges it)
        if before[name]["anchors"] != after[name]["anchors"] \
                or before[name]["width"] != after[name]["width"]:
            ctx.bump("observed_decomposition_touched_anchors_or_advance")
    # structural promises
    for name, g in before.items():
        a = after[name]
        inc = name in included
        if filt == "decompose":
            if inc and g["components"]:
                ctx.bump("dc_decomposed")
                if a["components"]:
                    ctx.bad("decompose_left_components", glyph=name, after=a["components"])
        elif filt == "decomposeTransformed":
            transformed = any(not S.is_identity_2x2(c["t"]) for c in g["components"])
            if inc and transformed:
                ctx.bump("dtc_decomposed")
                if a["components"]:
                    ctx.bad("dtc_left_components", glyph=name, after=a["components"])
            elif g["components"]:
                if inc:
                    ctx.bump("dtc_kept_untransformed")
                if not same_components(g["components"], a["components"]) or \
                        not same_contours(g["contours"], a["contours"]):
                    ctx.bad("dtc_decomposed_untransformed", glyph=name, included=inc,
                            before=g["components"], after=a["components"])
        elif filt == "flatten":
            if inc and g["components"]:
                if not same_contours(g["contours"], a["contours"]):
                    ctx.bad("flatten_changed_contours", glyph=name)
                nested = [c["base"] for c in a["components"] if S.component_only(after[c["base"]])]
                if nested and case.get("interp") and g["contours"]:
                    # the interpolatable variant leaves glyphs that mix contours and components
                    # alone (they are decomposed later); only their rendering is judged
                    ctx.bump("interp_mixed_glyph_not_flattened")
                elif nested:
                    ctx.bad("flatten_left_nested", glyph=name, nested=nested)
                # simple / mixed bases are kept as references, in order
                kept_before = [c for c in g["components"] if not S.component_only(before[c["base"]])]
                it = iter(a["components"])
                for c in kept_before:
                    for d in it:
                        if same_components([c], [d]):
                            break
                    else:
                        ctx.bad("flatten_dropped_reference", glyph=name, component=c,
                                after=a["components"])
                        break
                if any(S.component_only(before[c["base"]]) for c in g["components"]):
                    ctx.bump("flatten_glyphs_flattened")
                    if not S.component_only(g):
                        ctx.bump("flatten_mixed_flattened")
                else:
                    ctx.bump("flatten_glyphs_already_flat")


# ----------------------------------------------------------------------------------------------
# transformations


def tf_matrices(opts, info):
    """Admissible exact matrices the options describe (independent of fontTools' Transform)."""
    dx, dy = R.fr(opts["OffsetX"]), R.fr(opts["OffsetY"])
    sx, sy = R.fr(opts["ScaleX"]) / 100, R.fr(opts["ScaleY"]) / 100
    angle = opts["Slant"]
    origin = opts["Origin"]
    cap, xh = R.fr(info["capHeight"]), R.fr(info["xHeight"])
    heights = {0: [cap], 1: [cap / 2, F(R.otround(cap / 2))], 2: [xh],
               3: [xh / 2, F(R.otround(xh / 2))], 4: [F(0)]}[origin]
    out = []
    for h in heights:
        m = R.IDENT
        if sx != 1 or sy != 1 or angle != 0:
            k = R.fr(math.tan(math.radians(angle))) if angle != 0 else F(0)
            m = (F(1), F(0), F(0), F(1), F(0), -h)                     # to the origin line
            m = R.compose((F(1), F(0), k, F(1), F(0), F(0)), m)        # slant: x += k*y
            m = R.compose((sx, F(0), F(0), sy, F(0), F(0)), m)         # scale
            m = R.compose((F(1), F(0), F(0), F(1), F(0), h), m)        # back
        m = R.compose((F(1), F(0), F(0), F(1), dx, dy), m)             # offset
        if m not in out:
            out.append(m)
    return out


def transform_cycles(t, cycles):
    """Image of a drawing under a COMPONENT transform: points mapped, reversed iff det < 0."""
    out = S.map_cycles(t, cycles)
    if R.det(t) < 0:
        out = [R.reverse_cycle(s, segs) if segs else (s, segs) for s, segs in out]
    return out


def own_cycles(g):
    return R.ref_cycles([([[R.fr(p[0]), R.fr(p[1]), p[2], False] for p in c], False)
                         for c in g["contours"]], keep_quadratic=True)


def check_transformations(ctx, before, after, included):
    case = ctx.case
    opts = case["options"]
    mats = tf_matrices(opts, case["ufo"]["info"])
    if len(mats) > 1:
        ctx.bump("tf_half_origin_rounding_matters")
    active = {n for n in included if not is_empty(before[n])}
    ident = mats[0] == R.IDENT
    if ident:
        active = set()
        ctx.bump("tf_identity_matrix")
    B, A = S.Snap(before), S.Snap(after)
    fscale = max(font_scale(before, B), abs(R.fr(opts["OffsetX"])), abs(R.fr(opts["OffsetY"])),
                 abs(R.fr(case["ufo"]["info"]["capHeight"])))
    results = []
    for m in mats:
        sub = Ctx(case)
        _check_tf_with(sub, before, after, included, active, m, B, A, fscale)
        results.append(sub)
        if not sub.violations:
            break
    # half-height origins: judge against the admissible matrix that explains the observation best
    best = min(results, key=lambda s: (len(s.violations), sum(
        1 for v in s.violations if v["detail"].get("equal_up_to_contour_direction") is False)))
    if len(mats) > 1 and not best.violations:
        ctx.bump("tf_half_origin_exact" if best is results[0] else "tf_half_origin_rounded")
    for k, v in best.counters.items():
        ctx.bump(k, v)
    ctx.violations.extend(best.violations)
    ctx.nontrivial = ctx.nontrivial or best.nontrivial


def _check_tf_with(ctx, before, after, included, active, m, B, A, fscale):
    case = ctx.case
    opts = case["options"]
    memo = {}

    def expected(n):
        if n in memo:
            return memo[n]
        if n in active:
            e = S.map_cycles(m, B.cycles(n))
        else:
            e = own_cycles(before[n])
            for c in before[n]["components"]:
                e = e + transform_cycles(R.mat(c["t"]), expected(c["base"]))
        memo[n] = e
        return e

    lin = (m[0], m[1], m[2], m[3], F(0), F(0))
    exactish = (case["exact"] and opts["Slant"] == 0 and opts["ScaleX"] in SCALES_EXACT
                and opts["ScaleY"] in SCALES_EXACT)
    for name in before:
        exp = expected(name)
        got = A.cycles(name)
        scale = max(fscale, S.max_abs(exp))
        dev = TOL_TF * scale
        touched = name in active or bool(S.reaches(before, name) & active)
        if name in active:
            mech = "tf_included_not_mapped_by_matrix"
        elif touched:
            mech = "tf_nonincluded_dependent_render"
        else:
            mech = "tf_nonincluded_render_changed"
        ok = False
        if exactish:
            ok, same_order = S.compare_exact(exp, got)
            if ok:
                ctx.bump("exact_glyphs")
                ctx.bump("tf_exact_glyphs")
        if not ok:
            ok = compare_render(ctx, name, exp, got, False, dev, mech,
                                {"matrix": [float(v) for v in m], "options": opts,
                                 "included": name in included,
                                 "before": S.show(B.cycles(name))})
        if name in active:
            ctx.bump("tf_glyphs_mapped")
            ctx.nontrivial = True
            g, a = before[name], after[name]
            if B.n_flipped(name):
                ctx.bump("neg_det_glyphs_acted")
            if S.depth_of(before, name) >= 3:
                ctx.bump("depth3_glyphs_acted")
            if any(c["base"] in active for c in g["components"]):
                ctx.bump("tf_included_base_and_composite")
            elif g["components"]:
                ctx.bump("tf_included_composite_base_not_included")
            # anchors
            if [x["name"] for x in g["anchors"]] != [x["name"] for x in a["anchors"]]:
                ctx.bad("tf_anchor_names_changed", glyph=name, before=g["anchors"],
                        after=a["anchors"])
            else:
                for x, y in zip(g["anchors"], a["anchors"]):
                    ex, ey = R.apply(m, R.fr(x["x"]), R.fr(x["y"]))
                    ctx.bump("tf_anchors_mapped")
                    if abs(ex - R.fr(y["x"])) > dev or abs(ey - R.fr(y["y"])) > dev:
                        ctx.bad("tf_anchor_not_mapped_by_matrix", glyph=name, anchor=x,
                                expected=[float(ex), float(ey)], got=[y["x"], y["y"]],
                                matrix=[float(v) for v in m], options=opts)
            # advance: width * ScaleX, or the vector (width, height) under the linear part
            w, h = R.fr(g["width"]), R.fr(g["height"] or 0)
            w_scalar = m[0] * w
            w_vec, h_vec = R.apply(lin, w, h)
            gw, gh = R.fr(a["width"]), R.fr(a["height"] or 0)
            wdev = TOL_TF * max(1, abs(w), abs(h), abs(w_vec))
            if abs(gw - w_scalar) <= wdev:
                ctx.bump("tf_advance_width_times_scalex")
                if abs(w_vec - w_scalar) > wdev:
                    ctx.bump("tf_advance_scalar_form_only")
            elif abs(gw - w_vec) <= wdev:
                ctx.bump("tf_advance_vector_form_only")   # slant x height leaks into the advance
            else:
                ctx.bad("tf_advance_not_mapped", glyph=name, width=g["width"], height=g["height"],
                        expected=[float(w_scalar), float(w_vec)], got=a["width"], options=opts)
            if h != 0:
                if abs(gh - h_vec) <= wdev:
                    ctx.bump("tf_height_scaled_by_scaley")
                elif gh == h:
                    ctx.bump("tf_height_unchanged")
                else:
                    ctx.bump("tf_height_other")
        elif name in included and m != R.IDENT:
            # included glyph with nothing in it: only an advance to map
            g, a = before[name], after[name]
            w = R.fr(g["width"])
            if w != 0:
                ctx.bump("tf_included_empty_with_advance")
                # same two admissible forms as for glyphs with content: width * ScaleX, or the
                # vector (width, height) under the linear part (slant x height leaks in)
                h = R.fr(g["height"] or 0)
                w_vec, _h = R.apply((m[0], m[1], m[2], m[3], 0, 0), w, h)
                dev_ = TOL_TF * max(1, abs(w), abs(h), abs(w_vec))
                if abs(R.fr(a["width"]) - m[0] * w) > dev_ and abs(R.fr(a["width"]) - w_vec) > dev_:
                    ctx.bad("tf_empty_glyph_advance_not_mapped", glyph=name, width=g["width"],
                            expected=float(m[0] * w), got=a["width"], options=opts)


# ----------------------------------------------------------------------------------------------
# propagate anchors


def _promoted_mark(glyphs, comps):
    """The component whose transformed outline's (xMin, yMin) is closest to the origin (the
    offset itself for an outline-less base); None when the two best are (nearly) tied."""
    from fontTools.pens.boundsPen import BoundsPen
    from fontTools.pens.pointPen import PointToSegmentPen
    ranked = []
    for c_ in comps:
        bp = BoundsPen(None)
        pen = PointToSegmentPen(bp)
        try:
            for pts, _flip in R.resolve(glyphs, c_["base"], R.mat(c_["t"])):
                pen.beginPath()
                for q in pts:
                    pen.addPoint((float(q[0]), float(q[1])), segmentType=q[2], smooth=bool(q[3]))
                pen.endPath()
        except Exception:  # noqa: BLE001 - cyclic or otherwise unusable: no opinion
            return None
        b = bp.bounds
        corner = (float(c_["t"][4]), float(c_["t"][5])) if b is None else (b[0], b[1])
        ranked.append((corner[0] ** 2 + corner[1] ** 2, id(c_), c_))
    ranked.sort(key=lambda r_: r_[0])
    if len(ranked) >= 2 and abs(ranked[0][0] - ranked[1][0]) <= 1e-6 * max(1.0, ranked[1][0]):
        return None
    return ranked[0][2] if ranked else None


def check_propagate(ctx, before, after, included, second):
    case = ctx.case
    dev = TOL_DECOMP * font_scale(before, S.Snap(before))
    memo = {}
    for name, g in before.items():
        a = after[name]
        nb = len(g["anchors"])
        # "gives a composite an anchor": an included glyph with components (with or without
        # contours of its own) one of whose non-mark components' bases ends up with a plain
        # anchor 'x' must carry 'x' (or numbered 'x_N', several bases) afterwards, unless it
        # had an anchor of that name (or a longer one starting with it) to begin with
        cats_ = (case["ufo"].get("lib") or {}).get("public.openTypeCategories") or {}
        if name in included and g["components"] and not (cats_.get(name) == "mark" and g["anchors"]):
            # (a glyph categorised as mark that has anchors is left alone, by design)
            got_names = {x_["name"] for x_ in a["anchors"]}
            for c_ in g["components"]:
                bg = after.get(c_["base"])
                if bg is None or any(x_["name"].startswith("_") for x_ in bg["anchors"]):
                    continue
                for x_ in bg["anchors"]:
                    xn = x_["name"]
                    if not xn or any(o_["name"].startswith(xn) for o_ in g["anchors"]):
                        continue
                    ctx.bump("base_anchors_expected_on_composite")
                    if g["contours"]:
                        ctx.bump("base_anchors_expected_on_mixed_glyph")
                    if not any(n_ == xn or (n_.startswith(xn + "_") and n_[len(xn) + 1:].isdigit())
                               for n_ in got_names):
                        ctx.bad("base_anchor_not_propagated", glyph=name, base=c_["base"],
                                anchor=xn, has_contours=bool(g["contours"]),
                                after=sorted(got_names))
                        break
        # anchors present before are untouched (name, position, order)
        kept = a["anchors"][:nb]
        if nb:
            ctx.bump("anchors_kept_checked", nb)
        if kept != g["anchors"]:
            ctx.bad("anchor_overridden", glyph=name, before=g["anchors"], after=a["anchors"])
            continue
        added = a["anchors"][nb:]
        if not added:
            continue
        ctx.nontrivial = True
        if not g["components"]:
            ctx.bad("anchor_added_to_simple_glyph", glyph=name, added=added)
            continue
        have = {x["name"] for x in g["anchors"]}
        for x in added:
            ctx.bump("anchors_added")
            if S._NUMBERED.match(x["name"]):
                ctx.bump("anchors_added_numbered")
            if x["name"].startswith("_"):
                ctx.bump("anchors_added_mark")
            if name not in included:
                ctx.bump("anchors_added_to_nonincluded_base")
            if S.depth_of(before, name) >= 2:
                ctx.bump("anchors_added_depth2")
            if x["name"] in have:
                ctx.bad("anchor_duplicate_name_added", glyph=name, anchor=x, before=g["anchors"])
                continue
            have.add(x["name"])
            cands = S.anchor_candidates(before, name, x["name"], memo)
            px, py = R.fr(x["x"]), R.fr(x["y"])
            if case["exact"]:
                ok = (px, py) in cands
                ctx.bump("anchors_exact")
            else:
                ok = any(abs(px - cx) <= dev and abs(py - cy) <= dev for cx, cy in cands)
            if any(not S.is_identity_2x2(c["t"]) for c in g["components"]):
                ctx.bump("anchors_added_under_2x2")
            if not ok:
                ctx.bad("anchor_not_at_component_image", glyph=name, anchor=x,
                        candidates=sorted([float(cx), float(cy)] for cx, cy in cands)[:12],
                        components=g["components"])
                continue
            # "where its BASE's anchor lands": a component that is itself a mark (its glyph, as
            # the filter left it, carries a '_' anchor) only passes on an anchor it attaches at
            # ('x' next to '_x': stacking); its other plain anchors are not the composite's.
            # Judged when the composite has a non-mark component at all (otherwise the filter's
            # choice of a base among marks is its own heuristic).
            def marklike(c_):
                return any(a_["name"].startswith("_") for a_ in after[c_["base"]]["anchors"])
            comps = [c_ for c_ in g["components"] if c_["base"] in after]
            if x["name"].startswith("_") and not (
                    comps and all(marklike(c_) for c_ in comps) and "_" in name[1:]):
                continue
            if comps and all(marklike(c_) for c_ in comps) and "_" in name[1:] \
                    and not name.startswith("_") and not S._NUMBERED.match(x["name"]):
                # a mark made of marks ("dotcomb_tildecomb"): the documented choice of its base is
                # the component whose outline's lower-left corner is closest to the origin; the
                # anchors come from that one, moved onto a stacked mark's own where it attaches
                prom = _promoted_mark(before, comps)
                if prom is None:
                    ctx.bump("mark_ligatures_with_tied_candidates_not_judged")
                    continue
                allowed = set()
                for c_ in comps:
                    names_c = {a_["name"] for a_ in after[c_["base"]]["anchors"]}
                    t_ = R.mat(c_["t"])
                    for a_ in after[c_["base"]]["anchors"]:
                        if a_["name"] == x["name"] and (c_ is prom or ("_" + a_["name"]) in names_c):
                            allowed.add(R.apply(t_, R.fr(a_["x"]), R.fr(a_["y"])))
                ctx.bump("mark_ligature_anchors_judged_against_the_component_closest_to_the_origin")
                if case["exact"]:
                    ok3 = (px, py) in allowed
                else:
                    ok3 = any(abs(px - cx) <= dev and abs(py - cy) <= dev for cx, cy in allowed)
                if not ok3:
                    ctx.bad("mark_ligature_anchor_not_from_closest_component", glyph=name, anchor=x,
                            closest=prom["base"], components=g["components"],
                            allowed=sorted([float(cx), float(cy)] for cx, cy in allowed)[:8])
                continue
            if not comps or all(marklike(c_) for c_ in comps) or x["name"].startswith("_"):
                continue
            wanted = [x["name"]]
            m_ = S._NUMBERED.match(x["name"])
            if m_:
                wanted.append(m_.group(1))
            allowed = set()
            for c_ in comps:
                names_c = {a_["name"] for a_ in after[c_["base"]]["anchors"]}
                t_ = R.mat(c_["t"])
                for a_ in after[c_["base"]]["anchors"]:
                    if a_["name"] in wanted and (not marklike(c_) or ("_" + a_["name"]) in names_c):
                        allowed.add(R.apply(t_, R.fr(a_["x"]), R.fr(a_["y"])))
            ctx.bump("anchors_judged_against_base_or_attaching_mark")
            if case["exact"]:
                ok2 = (px, py) in allowed
            else:
                ok2 = any(abs(px - cx) <= dev and abs(py - cy) <= dev for cx, cy in allowed)
            if not ok2:
                ctx.bad("anchor_taken_from_non_attaching_mark_component", glyph=name, anchor=x,
                        allowed=sorted([float(cx), float(cy)] for cx, cy in allowed)[:8],
                        components=g["components"])
        # outlines are none of this filter's business (observed only, C14 judges it)
        if not (same_components(g["components"], a["components"])
                and same_contours(g["contours"], a["contours"])):
            ctx.bump("observed_propagate_changed_outline")
    if second is not None:
        after2, ret2 = second
        ctx.bump("second_application_runs")
        grew = {n: [after[n]["anchors"], after2[n]["anchors"]] for n in after
                if after2[n]["anchors"] != after[n]["anchors"]}
        if grew:
            n = sorted(grew)[0]
            ctx.bad("second_application_changed_anchors", glyph=n, first=grew[n][0],
                    second=grew[n][1], n_glyphs=len(grew))
        if ret2:
            ctx.bump("second_application_reported_modified")   # C14's business, observed only


# ----------------------------------------------------------------------------------------------
# run


def make_filter(case):
    from ufo2ft.filters.decomposeComponents import DecomposeComponentsFilter
    from ufo2ft.filters.decomposeTransformedComponents import DecomposeTransformedComponentsFilter
    from ufo2ft.filters.flattenComponents import FlattenComponentsFilter
    from ufo2ft.filters.propagateAnchors import PropagateAnchorsFilter
    from ufo2ft.filters.transformations import TransformationsFilter
    cls = {"decompose": DecomposeComponentsFilter,
           "decomposeTransformed": DecomposeTransformedComponentsFilter,
           "flatten": FlattenComponentsFilter,
           "transformations": TransformationsFilter,
           "propagateAnchors": PropagateAnchorsFilter}[case["filter"]]
    kw = filter_kwargs(case["select"])
    if case["filter"] == "transformations":
        kw.update(case["options"])
    return cls(**kw)


def run_interpolatable(case):
    """IFilter variant applied once to 2-3 compatible masters (no instantiator)."""
    from ufo2ft.filters.decomposeComponents import DecomposeComponentsIFilter
    from ufo2ft.filters.decomposeTransformedComponents import (
        DecomposeTransformedComponentsIFilter,
    )
    from ufo2ft.filters.flattenComponents import FlattenComponentsIFilter
    from ufo2ft.util import _GlyphSet

    ctx = Ctx(case)
    cls = {"decompose": DecomposeComponentsIFilter,
           "decomposeTransformed": DecomposeTransformedComponentsIFilter,
           "flatten": FlattenComponentsIFilter}[case["filter"]]
    specs = [case["ufo"]["glyphs"]] + [other_master(case["ufo"]["glyphs"], k)
                                       for k in range(1, case["interp"])]
    fonts = [build_ufo({"glyphs": g, "info": case["ufo"]["info"]}, case["lib"]) for g in specs]
    sets = None
    if case["target"] != "font":
        sets = [_GlyphSet.from_layer(f, copy=True) for f in fonts]
    ctx.bump("interpolatable_runs")
    ctx.bump("lib_" + case["lib"])
    ctx.bump("stratum_" + case["stratum"])
    try:
        cls(**filter_kwargs(case["select"]))(fonts, sets)
        afters = [S.read_glyphset(x) for x in (sets if sets is not None else fonts)]
    except Exception:  # noqa: BLE001
        ctx.bad("unexpected_exception", trace=traceback.format_exc()[-3000:])
        return {"status": "violated", "violations": ctx.violations, "counters": ctx.counters}
    ctx.bump("evaluated_" + CLASSNAME[case["filter"]] + "_interpolatable")
    for mi, (gl, after) in enumerate(zip(specs, afters)):
        before = {}
        for g in gl:
            b = dict(g)
            b.setdefault("height", 0)
            before[g["name"]] = b
        included = {n for n, g in before.items() if selected(g, case["select"])}
        if set(after) != set(before):
            ctx.bad("glyph_set_changed", master=mi, added=sorted(set(after) - set(before)),
                    removed=sorted(set(before) - set(after)))
            continue
        n0 = len(ctx.violations)
        check_decomposition(ctx, before, after, included)
        for v in ctx.violations[n0:]:
            v["detail"]["master"] = mi
        ctx.bump("interpolatable_masters_compared")
    return {"status": "violated" if ctx.violations else "held", "violations": ctx.violations,
            "counters": ctx.counters, "nontrivial": ctx.nontrivial}


def run(case):
    from ufo2ft.util import _GlyphSet

    if case.get("interp"):
        return run_interpolatable(case)
    ctx = Ctx(case)
    spec = case["ufo"]
    before = {}
    for g in spec["glyphs"]:
        b = dict(g)
        b.setdefault("height", 0)
        before[g["name"]] = b
    included = {n for n, g in before.items() if selected(g, case["select"])}
    font = build_ufo(spec, case["lib"])
    target = case["target"]
    if target == "font":
        glyph_set = None
        read_from = font
    elif target == "glyphset_copy":
        glyph_set = _GlyphSet.from_layer(font, copy=True)
        read_from = glyph_set
    else:
        other = build_ufo(spec, case["lib"])
        glyph_set = {g.name: g for g in other}
        read_from = glyph_set
    ctx.bump("target_" + target)
    ctx.bump("lib_" + case["lib"])
    ctx.bump("select_" + case["select"]["kind"])
    ctx.bump("stratum_" + case["stratum"])

    def apply_once():
        f = make_filter(case)
        return f(font) if glyph_set is None else f(font, glyph_set)

    try:
        apply_once()
        after = S.read_glyphset(read_from)
        second = None
        if case["filter"] == "propagateAnchors":
            ret2 = apply_once()
            second = (S.read_glyphset(read_from), sorted(ret2 or ()))
    except Exception:  # noqa: BLE001
        ctx.bad("unexpected_exception", trace=traceback.format_exc()[-3000:])
        return {"status": "violated", "violations": ctx.violations, "counters": ctx.counters}
    ctx.bump("evaluated_" + CLASSNAME[case["filter"]])
    if set(after) != set(before):
        ctx.bad("glyph_set_changed", added=sorted(set(after) - set(before)),
                removed=sorted(set(before) - set(after)))
        return {"status": "violated", "violations": ctx.violations, "counters": ctx.counters}
    if case["filter"] in ("decompose", "decomposeTransformed", "flatten"):
        check_decomposition(ctx, before, after, included)
    elif case["filter"] == "transformations":
        check_transformations(ctx, before, after, included)
    else:
        check_propagate(ctx, before, after, included, second)
    return {"status": "violated" if ctx.violations else "held", "violations": ctx.violations,
            "counters": ctx.counters, "nontrivial": ctx.nontrivial}


# ----------------------------------------------------------------------------------------------
# known findings (mechanism predicates over the case, never hashes)
#
# transformations_empty_glyph_advance_unscaled: TransformationsFilter.filter returns early for a
#   glyph without contours, components and anchors, so an included 'space' keeps its advance
#   under ScaleX (stratum tf_empty_advance).
# transformations_nonincluded_intermediate_double_transform: included composite -> NON-included
#   composite -> included glyph: only DIRECT bases are compensated with the inverse matrix, the
#   included composite renders M.t.t'.M.base instead of M.t.t'.base (stratum tf_sandwich).
# transformations_mirror_matrix_reverses_component_contours: negative ScaleX or ScaleY: own
#   contours keep their point order but a component of a non-included base gets a matrix whose
#   determinant changed sign, so its contours resolve reversed (stratum tf_mirror_matrix).
# propagate_anchors_ligature_mark_empty_component_crash: ligature-named composite of marks one
#   of which has no outline: _component_closest_to_origin subscripts bounds None
#   (stratum pa_ligmark_empty).


def _tf_active(case):
    by = {g["name"]: g for g in case["ufo"]["glyphs"]}
    inc = {n for n, g in by.items() if selected(g, case["select"])}
    return by, {n for n in inc if not is_empty(by[n])}


def classify(v, case):
    mech = v["mech"]
    d = v.get("detail") or {}
    if case["filter"] == "transformations":
        o = case["options"]
        by, act = _tf_active(case)
        name = d.get("glyph")
        if mech == "tf_empty_glyph_advance_not_mapped":
            if name in by and is_empty(by[name]) and selected(by[name], case["select"]):
                return "transformations_empty_glyph_advance_unscaled"
        if mech in ("tf_included_not_mapped_by_matrix", "tf_nonincluded_dependent_render") \
                and name in by:
            closure = ({name} | S.reaches(by, name)) & act
            # (a) included composite -> non-included glyph -> included glyph
            for g in closure:
                for c in by[g]["components"]:
                    b = c["base"]
                    if b not in act and (S.reaches(by, b) & act):
                        return "transformations_nonincluded_intermediate_double_transform"
            # (b) mirroring matrix and an included composite with a non-included base: the
            # component's determinant changes sign, so the resolved contours come out reversed
            if o["ScaleX"] * o["ScaleY"] < 0 and d.get("equal_up_to_contour_direction"):
                for g in closure:
                    if any(c["base"] not in act for c in by[g]["components"]):
                        return "transformations_mirror_matrix_reverses_component_contours"
    if case["filter"] == "propagateAnchors" and mech == "unexpected_exception":
        if "is the lowest" in d.get("trace", "") and "_component_closest_to_origin" in d["trace"] \
                and ligmark_hazards(case["ufo"]["glyphs"]):
            return "propagate_anchors_ligature_mark_empty_component_crash"
    return None
