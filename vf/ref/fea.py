"""Reference side of C17: reading a feature file into a flat list of leaf statements (trusted base:
fontTools.feaLib's *parser*), locating the `# Automatic Code` marker from the property text (not
from ufo2ft's regular expression), the subsequence relation, and a model of which writer is
responsible for which feature tag under a given writer configuration.

Nothing here imports ufo2ft.
"""
import io

MARKER_TEXT = "# Automatic Code"

# feature tags each built-in writer can generate and the table it declares
WRITER_FEATURES = {
    "KernFeatureWriter": ("GPOS", ["kern", "dist"]),
    "MarkFeatureWriter": ("GPOS", ["mark", "mkmk", "abvm", "blwm"]),
    "CursFeatureWriter": ("GPOS", ["curs"]),
    "GdefFeatureWriter": ("GDEF", []),
    "HarnessGsubWriter": ("GSUB", ["ss20"]),
}
DEFAULT_WRITERS = ["CursFeatureWriter", "KernFeatureWriter", "MarkFeatureWriter",
                   "GdefFeatureWriter"]


def parse(text, glyph_names):
    from fontTools.feaLib.parser import Parser
    return Parser(io.StringIO(text), glyphNames=set(glyph_names)).parse()


def norm(s):
    return " ".join(s.split())


def _is_block(st):
    return hasattr(st, "statements")


def _is_comment(st):
    from fontTools.feaLib import ast
    return isinstance(st, ast.Comment)


def block_key(st):
    """Key of a block statement: kind + name (+ useExtension is NOT part of the key)."""
    from fontTools.feaLib import ast
    if isinstance(st, ast.FeatureBlock):
        return "feature:" + st.name
    if isinstance(st, ast.LookupBlock):
        return "lookup:" + st.name
    if isinstance(st, ast.TableBlock):
        return "table:" + st.name
    return type(st).__name__ + ":" + str(getattr(st, "name", ""))


def leaves(doc):
    """Flat list of the leaf statements of a parsed feature file in document order, comments
    removed.  Each leaf: {"tag": path of enclosing block keys ("" at file level), "text":
    whitespace-normalised asFea(), "top": index of the enclosing top-level statement,
    "topkey": key of the enclosing top-level block or "", "cls": statement class name,
    "xtag": like tag, with "+useExtension" appended to the blocks that carry that keyword,
    "ref": name of the referenced lookup for `lookup NAME;` statements}."""
    out = []

    def walk(st, path, xpath, top, topkey):
        if _is_block(st):
            key = block_key(st)
            xkey = key + ("+useExtension" if getattr(st, "use_extension", False) else "")
            for s in st.statements:
                walk(s, path + [key], xpath + [xkey], top, topkey)
            return
        if _is_comment(st):
            return
        rec = {"tag": ">".join(path), "xtag": ">".join(xpath), "text": norm(st.asFea()),
               "top": top, "topkey": topkey, "cls": type(st).__name__}
        if type(st).__name__ == "LookupReferenceStatement":
            rec["ref"] = st.lookup.name
        out.append(rec)

    for i, st in enumerate(doc.statements):
        walk(st, [], [], i, block_key(st) if _is_block(st) else "")
    return out


def top_blocks(doc):
    """[(index, key)] of the top-level block statements."""
    return [(i, block_key(st)) for i, st in enumerate(doc.statements) if _is_block(st)]


def is_marker(st):
    """The marker of the property statement: a comment `# Automatic Code` (exact case)."""
    return _is_comment(st) and str(st).strip().startswith(MARKER_TEXT)


def is_miscased_marker(st):
    if not _is_comment(st):
        return False
    t = str(st).strip()
    return t.lower().startswith(MARKER_TEXT.lower()) and not t.startswith(MARKER_TEXT)


def split_at_marker(doc, tag):
    """For the top-level feature blocks named `tag` of the USER's file: -> dict with
       n_blocks, before / after (leaf texts before / after the first marker that is a direct
       child of such a block), has_marker, miscased (a mis-cased marker is present)."""
    from fontTools.feaLib import ast
    before, after = [], []
    seen = False
    miscased = False
    n_blocks = 0

    def flat(st, acc):
        if _is_block(st):
            for s in st.statements:
                flat(s, acc)
        elif not _is_comment(st):
            acc.append(norm(st.asFea()))

    for st in doc.statements:
        if not (isinstance(st, ast.FeatureBlock) and st.name == tag):
            continue
        n_blocks += 1
        for s in st.statements:
            if not seen and is_marker(s):
                seen = True
                continue
            if is_miscased_marker(s):
                miscased = True
            flat(s, after if seen else before)
    return {"n_blocks": n_blocks, "before": before, "after": after, "has_marker": seen,
            "miscased": miscased}


def subsequence(needle, hay):
    """Greedy in-order match.  -> (ok, index in needle of the first element that could not be
    matched, number matched)."""
    j = 0
    for i, x in enumerate(needle):
        while j < len(hay) and hay[j] != x:
            j += 1
        if j >= len(hay):
            return False, i, i
        j += 1
    return True, None, len(needle)


def effective_writers(cfg):
    """Writer configuration (see vf.gen.features.gen_writers) -> the list the property's
    quantifier describes: None -> lib list if the lib has one, else the defaults; an ellipsis is
    replaced by the lib list / the defaults; an explicit list without ellipsis ignores the lib.
    Each entry: {"class", "tableTag", "mode", "features"}; order as SPECIFIED (not hoisted)."""
    def entry(d):
        table, feats = WRITER_FEATURES[d["class"]]
        opts = d.get("options") or {}
        return {"class": d["class"], "tableTag": table, "mode": opts.get("mode", "skip"),
                "features": list(opts.get("features", feats))}

    def base(lib):
        if lib is not None:
            return [entry(d) for d in lib]
        return [entry({"class": c}) for c in DEFAULT_WRITERS]

    if cfg["kind"] == "default":
        return base(None)
    if cfg["kind"] == "lib":
        return base(cfg["lib"])
    out = []
    for e in cfg["list"]:
        if e == "...":
            out.extend(base(cfg.get("lib")))
        else:
            out.append(entry(e))
    return out


def writer_for_tag(eff, tag):
    ws = [w for w in eff if tag in w["features"]]
    return ws[0] if ws else None
