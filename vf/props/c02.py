"""C02 - TrueType outlines render the source shape; composites stay valid.

Run: generated UFOs x compileTTF settings -> save -> reload.
Observe: glyf coordinates/flags/endPts, component records, maxp, head.glyphDataFormat.
Oracle (DESIGN 4.3): structure (every source segment end point is an explicit on-curve point,
rounded, same cyclic order, direction reversed iff requested; lines and quadratics point for point),
segment-wise distance bound for converted cubics, composites keep references / flatten to depth 1,
maxp recomputed from the reloaded data.
"""
import copy
import io
import math
import traceback

import vf  # noqa: F401
from vf.build import build_ufo
from vf.gen import outlines
from vf.props.c01 import bounded_font, depth_of
from vf.ref import render as R
from vf.ref import tt as T

ID = "C02"
RULE = ("case = seeded random UFO (component DAG, line/cubic/quadratic contours, hostile "
        "coordinates, 2x2 entries mostly < 2) x UFO library x {convertCubics, reverseDirection, "
        "flattenComponents, allQuadratic, cubicConversionError, dropImpliedOnCurves}; distinct = "
        "sha1 of the case; non-trivial = compiled and a glyph with a cubic, a component or a "
        "fractional coordinate was judged")
ASSUMPTIONS = [
    "fontTools' glyf reader is trusted",
    "distance bound for a converted cubic: conversionError*upm + sqrt(1/2) (rounding of control "
    "points) + 0.07 (flattening tolerance 0.03 on both curves), measured segment-wise between matched rounded end points",
    "component transforms with a 2x2 entry of magnitude > 2 cannot be stored as F2Dot14; fontTools "
    "decomposes those glyphs - only counted (overflow_decomposed), shape not judged",
    "zero-length (duplicate point) segments draw nothing: consecutive equal on-curve points are "
    "compared modulo duplicates and counted",
]
NONVACUITY = ["glyphs_judged", "cubics_converted", "multi_segment_splines", "mixed_decomposed",
              "composites_kept", "nested_flattened", "distance_checked", "maxp_checked",
              "reversed_runs", "unreversed_runs", "quadratic_runs_exact"]


def n_cases(tier):
    return 1400 if tier == "quick" else 30000


def budget_s(tier):
    return 150 if tier == "quick" else 1700


def gen(rng, idx, tier):
    mode = rng.choice(["mixed", "mixed", "dyadic", "int"])
    kinds = rng.choice([("line", "curve", "qcurve"), ("line", "curve"), ("line", "qcurve"),
                        ("curve",)])
    glyphs = bounded_font(rng, mode, kinds=kinds, tmode="tt")
    has_cubic = any(p[2] == "curve" for g in glyphs for c in g["contours"] for p in c)
    opts = {
        "convertCubics": rng.random() < 0.85,
        "reverseDirection": rng.random() < 0.75,
        "flattenComponents": rng.random() < 0.4,
        "allQuadratic": rng.random() < 0.8,
        "cubicConversionError": rng.choice([None, None, 0.0005, 0.002, 0.01, 0.0001, 0.00005]),
        "dropImpliedOnCurves": rng.random() < 0.3,
    }
    stratum = "default"
    if not opts["allQuadratic"]:
        if rng.random() < 0.15:
            stratum = "glyf1_offcurve_start"
        else:
            # keep clear of the listed fontTools defect (see classify): every contour starts with
            # an on-curve point
            for g in glyphs:
                for c in g["contours"]:
                    ons = [i for i, p in enumerate(c) if p[2] is not None]
                    if ons and c[0][2] is None:
                        k = ons[0]
                        c[:] = c[k:] + c[:k]
    # the same source through the interpolatable TrueType path (two identical masters): the
    # first master must satisfy the same clauses (the joint conversion of identical curves is
    # the single conversion; implied on-curve points are always kept there)
    # per-glyph TrueType overlap flag (public.truetype.overlap, written by glyphsLib): a flag bit
    # on the first point / component record, the outline must not depend on it
    if rng.random() < 0.35:
        for g in glyphs:
            if rng.random() < 0.4:
                g.setdefault("lib", {})["public.truetype.overlap"] = rng.random() < 0.75
    interp = stratum == "default" and opts.get("allQuadratic", True) and rng.random() < 0.12
    if interp:
        opts["dropImpliedOnCurves"] = False
    extra = {}
    if not has_cubic and rng.random() < 0.25:
        # a source that went through an in-place conversion once carries cu2qu's marker in its
        # font or layer lib: a compile that is NOT in place has to treat it like any other source
        extra[rng.choice(["lib", "layerLib"])] = {"com.github.googlei18n.cu2qu.curve_type": "quadratic"}
    reuse = None
    if opts["flattenComponents"] and not interp and rng.random() < 0.3:
        # flattening requested through a filter OBJECT the caller built once and hands to every
        # compile of a session: first to a sibling font in which the composites used by other
        # composites are drawn (or absent), then to this one - the result must be the one a fresh object gives
        reuse = {"drop": [g["name"] for g in glyphs if is_component_only(g) and rng.random() < 0.3]}
    return {"stratum": stratum, "interp": interp, "reuse": reuse,
            "ufo": dict({"glyphs": glyphs, "info": {"unitsPerEm": rng.choice([1000, 1000, 2048, 4096]),
                                                    "familyName": "T", "styleName": "R"}}, **extra),
            "lib": rng.choice(["defcon", "ufoLib2"]), "opts": opts, "has_cubic": has_cubic}


def sample_view(case):
    g = case["ufo"]["glyphs"]
    return {"lib": case["lib"], "opts": case["opts"], "n_glyphs": len(g), "first_glyphs": g[:2]}


def is_component_only(g):
    return bool(g.get("components")) and not g.get("contours")


def leaves(glyphs, name, m=R.IDENT):
    """Flattened reference: list of (leaf glyph name, composed matrix) where a leaf is a glyph that
    is not component-only (simple, mixed or empty)."""
    out = []
    for comp in glyphs[name].get("components", []):
        b = comp["base"]
        if b not in glyphs:
            continue
        cm = R.compose(m, R.mat(comp["t"]))
        if is_component_only(glyphs[b]):
            out.extend(leaves(glyphs, b, cm))
        else:
            out.append((b, cm))
    return out


def f2dot14(v):
    return round(float(v) * 16384) / 16384.0


def run(case):
    import ufo2ft
    from fontTools.ttLib import TTFont

    counters = {}

    def bump(k, n=1):
        counters[k] = counters.get(k, 0) + n

    spec = case["ufo"]
    opts = case["opts"]
    glyphs = {g["name"]: g for g in spec["glyphs"]}
    upm = spec["info"]["unitsPerEm"]
    font = build_ufo(spec, case["lib"])
    kw = dict(useProductionNames=False, **opts)
    will_keep_cubic_v0 = (not opts["convertCubics"]) and opts["allQuadratic"] and case["has_cubic"]
    try:
        if case.get("interp"):
            kw2 = {k: v for k, v in kw.items() if k != "dropImpliedOnCurves"}
            ttf = list(ufo2ft.compileInterpolatableTTFs(
                [font, build_ufo(spec, case["lib"])], **kw2))[0]
            bump("interpolatable_path_runs")
        elif case.get("reuse"):
            from ufo2ft.filters.flattenComponents import FlattenComponentsFilter

            kw.pop("flattenComponents")
            objs = [..., FlattenComponentsFilter()]
            sib = copy.deepcopy(spec)
            sib["glyphs"] = [g for g in sib["glyphs"] if g["name"] not in case["reuse"]["drop"]]
            inner = {c["base"] for g in spec["glyphs"] if is_component_only(g)
                     for c in g["components"]}
            for g in sib["glyphs"]:
                # (the composites that other composites refer to are the drawn ones there)
                if is_component_only(g) and g["name"] in inner:
                    g["components"] = []
                    g["contours"] = [[(0, 0, "line"), (100, 0, "line"), (50, 80, "line")]]
                g["components"] = [c for c in g.get("components", [])
                                   if c["base"] not in case["reuse"]["drop"]]
            try:
                ufo2ft.compileTTF(build_ufo(sib, case["lib"]), filters=list(objs), **kw)
                bump("filter_objects_first_used_on_a_sibling_font")
            except Exception:  # noqa: BLE001 - the sibling only warms the filter objects up
                bump("sibling_font_failed")
            ttf = ufo2ft.compileTTF(font, filters=list(objs), **kw)
            bump("compiles_with_reused_filter_objects")
        else:
            ttf = ufo2ft.compileTTF(font, **kw)
        buf = io.BytesIO()
        ttf.save(buf)
    except ValueError as e:
        if will_keep_cubic_v0 and "cubic Bezier curves" in str(e):
            bump("rejected_cubic_in_glyf0")
            return {"status": "rejected_ok", "counters": counters}
        return {"status": "violated", "counters": counters, "violations": [
            {"mech": "unexpected_exception", "detail": {"trace": traceback.format_exc()[-3000:]}}]}
    except Exception:  # noqa: BLE001
        return {"status": "violated", "counters": counters, "violations": [
            {"mech": "unexpected_exception", "detail": {"trace": traceback.format_exc()[-3000:]}}]}
    buf.seek(0)
    tt = TTFont(buf)
    glyf = tt["glyf"]
    violations = []
    nontrivial = False
    fmt = tt["head"].glyphDataFormat
    if fmt != (0 if opts["allQuadratic"] else 1):
        violations.append({"mech": "glyph_data_format", "detail": {"got": fmt}})
    max_err = (opts["cubicConversionError"] or 0.001) * upm
    bound = max_err + math.sqrt(0.5) + 0.07
    reverse = opts["reverseDirection"]
    bump("reversed_runs" if reverse else "unreversed_runs")
    if spec.get("lib") or spec.get("layerLib"):
        bump("sources_carrying_cu2qu_curve_type_marker")
    n_dist = 0
    for name, g in glyphs.items():
        if name not in glyf.glyphs and name not in tt.getGlyphOrder():
            violations.append({"mech": "glyph_missing", "detail": {"glyph": name}})
            continue
        og = glyf[name]
        bump("glyphs_judged")
        if "public.truetype.overlap" in (g.get("lib") or {}):
            bump("glyphs_with_overlap_flag_key")
        if g.get("components") or any(fr_nonint(p) for c in g.get("contours", []) for p in c):
            nontrivial = True
        if is_component_only(g):
            v = judge_composite(name, g, glyphs, og, glyf, opts, bump)
            violations.extend(v)
            continue
        # simple or mixed (-> decomposed) or empty
        if og.isComposite():
            violations.append({"mech": "mixed_glyph_kept_components", "detail": {"glyph": name}})
            continue
        if g.get("components") and g.get("contours"):
            bump("mixed_decomposed")
        resolved = R.resolve(glyphs, name)
        exp = T.expected_cycles(resolved, reverse)
        got = T.glyf_contours(og)
        if fmt == 0 and any(p[2] == "cub" for c in got for p in c):
            violations.append({"mech": "cubic_in_glyf_v0", "detail": {"glyph": name}})
            continue
        v, ndist = judge_simple(name, exp, got, opts, bound, bump, n_dist)
        n_dist = ndist
        violations.extend(v)
        if any(p[2] == "curve" for c in g.get("contours", []) for p in c):
            nontrivial = True
    violations.extend(judge_maxp(tt, bump))
    return {"status": "violated" if violations else "held", "violations": violations,
            "counters": counters, "nontrivial": nontrivial}


def fr_nonint(p):
    return float(p[0]) != int(p[0]) or float(p[1]) != int(p[1])


def judge_simple(name, exp, got, opts, bound, bump, n_dist):
    violations = []
    # single-point / empty expected contours: TrueType keeps them as they are; compare counts
    # modulo contours that have no points at all
    exp = [e for e in exp if e is not None]
    if len(exp) != len(got):
        return [{"mech": "contour_count", "detail": {"glyph": name, "expected": len(exp),
                                                     "got": len(got)}}], n_dist
    for ci, (e, gc) in enumerate(zip(exp, got)):
        gs = T.out_segments(gc)
        kinds = ["".join(p[2][0] if p[2] != "on" else "N" for p in c) for c in got]
        if gs is None:
            violations.append({"mech": "unreadable_contour", "detail": {
                "glyph": name, "contour": ci, "kinds": kinds}})
            continue
        res = None
        how = None
        for variant, (ee, gg) in enumerate(_variants(e, gs)):
            res = T.match_contour(ee, gg, allow_dropped=opts["dropImpliedOnCurves"],
                                  cubic_ok=not opts["allQuadratic"], max_run=120)
            if res is not None:
                how = variant
                break
        if res is None:
            violations.append({"mech": "structure", "detail": {
                "glyph": name, "contour": ci, "expected": _show_exp(e), "got": gc[:60],
                "kinds": kinds}})
            continue
        if how:
            bump("strict_diff_duplicate_points")
        for seg in e[1]:
            if seg[0] == "Q":
                bump("quadratic_runs_exact")
        far = []
        for ecur, eseg, gcur, run in res:
            if run and run[0][0] == "c":
                continue
            bump("cubics_converted")
            if len(run) > 1:
                bump("multi_segment_splines")
            if n_dist < 30:
                n_dist += 1
                d = T.cubic_vs_quads(ecur, eseg[1], eseg[2], eseg[3], gcur, run)
                bump("distance_checked")
                if d > bound:
                    far.append({"mech": "conversion_distance", "detail": {
                        "glyph": name, "contour": ci, "distance": d, "bound": bound,
                        "cubic": [[float(v) for v in p] for p in (ecur,) + tuple(eseg[1:])],
                        "run": [list(map(list, (s[1], s[2]))) for s in run]}})
        if far:
            # the structural alignment is not always unique (an implied on-curve point within
            # the slack of a cubic's end point just before the real one): the distance is only a
            # violation if NO structurally valid segmentation keeps every spline within the bound
            def near(ecur, eseg, gcur, run):
                return T.cubic_vs_quads(ecur, eseg[1], eseg[2], eseg[3], gcur, run) <= bound
            ee, gg = list(_variants(e, gs))[how]
            alt = T.match_contour(ee, gg, allow_dropped=opts["dropImpliedOnCurves"],
                                  cubic_ok=not opts["allQuadratic"], max_run=120, accept=near)
            if alt is not None:
                bump("resegmented_contours")
            else:
                violations.extend(far)
    return violations, n_dist


def _variants(e, gs):
    """Strict first, then modulo zero-length segments (duplicate consecutive on-curve points)."""
    yield e, gs
    estart, esegs = e
    if estart is None:
        return
    cur = estart
    ce = []
    for s in esegs:
        if s[0] == "l" and s[1] == cur:
            continue
        ce.append(s)
        cur = s[-1]
    gstart, gsegs, gex = gs
    cur = gstart
    cg = []
    for s in gsegs:
        if s[0] == "l" and s[1] == cur:
            continue
        cg.append(s)
        cur = s[2] if s[0] == "q" else s[-1]
    if len(ce) != len(esegs) or len(cg) != len(gsegs):
        yield (estart, ce), (gstart, cg, gex)


def _show_exp(e):
    start, segs = e
    f = lambda p: None if p is None else [float(p[0]), float(p[1])]  # noqa: E731
    return {"start": f(start), "segs": [[s[0]] + [f(p) for p in s[1:]] for s in segs][:40]}


def judge_composite(name, g, glyphs, og, glyf, opts, bump):
    violations = []
    if opts["flattenComponents"]:
        expected = leaves(glyphs, name)
    else:
        expected = [(c["base"], R.mat(c["t"])) for c in g["components"] if c["base"] in glyphs]
    # a 2x2 entry beyond +-2 cannot be stored; a product that lands on +-2 within float noise
    # (flattening multiplies in floating point, the reference in exact rationals) is on the
    # boundary: either outcome is accepted there
    overflow = any(abs(v) > 2 + 1e-9 for _, m in expected for v in m[:4])
    boundary = not overflow and any(abs(v) > 2 - 1e-9 for _, m in expected for v in m[:4])
    if boundary:
        bump("overflow_boundary_composites")
    if not og.isComposite():
        if overflow or boundary:
            bump("overflow_decomposed")
            return violations
        if not expected:
            return violations
        return [{"mech": "composite_decomposed", "detail": {"glyph": name}}]
    comps = og.components
    if overflow:
        return [{"mech": "overflowing_transform_kept", "detail": {"glyph": name}}]
    if len(comps) != len(expected):
        return [{"mech": "component_count", "detail": {
            "glyph": name, "expected": [b for b, _ in expected],
            "got": [c.glyphName for c in comps]}}]
    bump("composites_kept")
    if opts["flattenComponents"] and depth_of(glyphs, name) >= 2:
        bump("nested_flattened")
    for i, (c, (b, m)) in enumerate(zip(comps, expected)):
        if c.glyphName != b:
            violations.append({"mech": "component_base", "detail": {
                "glyph": name, "index": i, "expected": b, "got": c.glyphName}})
            continue
        if c.glyphName not in glyf.glyphs:
            violations.append({"mech": "dangling_component", "detail": {"glyph": name,
                                                                        "base": c.glyphName}})
        if opts["flattenComponents"] and glyf[c.glyphName].isComposite():
            violations.append({"mech": "flatten_left_nested", "detail": {
                "glyph": name, "base": c.glyphName}})
        if c.x not in R.round_choices(m[4]) or c.y not in R.round_choices(m[5]):
            violations.append({"mech": "component_offset", "detail": {
                "glyph": name, "index": i, "expected": [float(m[4]), float(m[5])],
                "got": [c.x, c.y]}})
        got2 = getattr(c, "transform", ((1, 0), (0, 1)))
        got2 = (got2[0][0], got2[0][1], got2[1][0], got2[1][1])
        for j in range(4):
            ev = max(-2.0, min(float(m[j]), 32767 / 16384.0))
            if abs(got2[j] - ev) > 2.0 ** -14 + 1e-9:
                violations.append({"mech": "component_2x2", "detail": {
                    "glyph": name, "index": i, "expected": [float(v) for v in m[:4]],
                    "got": list(got2)}})
                break
    return violations


def judge_maxp(tt, bump):
    glyf = tt["glyf"]
    maxp = tt["maxp"]
    order = tt.getGlyphOrder()

    def depth(n, seen=()):
        g = glyf[n]
        if not g.isComposite() or n in seen:
            return 0
        return 1 + max([depth(c.glyphName, seen + (n,)) for c in g.components] or [0])

    def resolved_counts(n, seen=()):
        g = glyf[n]
        if not g.isComposite():
            if g.numberOfContours <= 0:
                return 0, 0
            return len(g.coordinates), g.numberOfContours
        p = c = 0
        for comp in g.components:
            if comp.glyphName in seen:
                continue
            a, b = resolved_counts(comp.glyphName, seen + (n,))
            p += a
            c += b
        return p, c

    mp = mc = mcp = mcc = mce = mcd = 0
    for n in order:
        g = glyf[n]
        if g.isComposite():
            p, c = resolved_counts(n)
            mcp, mcc = max(mcp, p), max(mcc, c)
            mce = max(mce, len(g.components))
            mcd = max(mcd, depth(n))
        elif g.numberOfContours > 0:
            mp = max(mp, len(g.coordinates))
            mc = max(mc, g.numberOfContours)
    exp = {"maxPoints": mp, "maxContours": mc, "maxCompositePoints": mcp,
           "maxCompositeContours": mcc, "maxComponentElements": mce, "maxComponentDepth": mcd,
           "numGlyphs": len(order)}
    bump("maxp_checked")
    bad = {k: (v, getattr(maxp, k)) for k, v in exp.items() if getattr(maxp, k) != v}
    if bad:
        return [{"mech": "maxp", "detail": {k: {"expected": a, "stored": b}
                                            for k, (a, b) in bad.items()}}]
    return []


def classify(v, case):
    # fontTools' TTGlyphPointPen.endPath resolves the off-curve points of a cubic segment by
    # walking BACKWARDS from the 'curve' point and wraps to the contour's end only for the first
    # step; when a contour other than the first starts with such off-curve points the walk
    # continues into the PREVIOUS contour: that contour's trailing quadratic off-curve points get
    # flagged cubic and the contour's own trailing control point stays quadratic.
    # Only reachable with glyf format 1 (allQuadratic=False).
    if v["mech"] in ("unreadable_contour", "structure") and not case["opts"]["allQuadratic"]:
        kinds = v["detail"].get("kinds") or []
        ci = v["detail"].get("contour")
        if ci is not None:
            if ci >= 1 and kinds[ci].startswith("c"):
                return "fonttools_glyf1_cubic_offcurves_at_contour_start"
            if ci + 1 < len(kinds) and kinds[ci + 1].startswith("c"):
                return "fonttools_glyf1_cubic_offcurves_at_contour_start"
    return None
