"""R-gpos: a small GPOS interpreter over the compiled, RELOADED tables - it evaluates glyph pairs
the way a shaper does, independently of ufo2ft and of feaLib's builder:

ScriptList -> (Default)LangSys -> FeatureIndex (+ required) -> lookups in lookup-index order;
lookup flags (IgnoreBaseGlyphs / IgnoreLigatures / IgnoreMarks, MarkAttachmentType,
UseMarkFilteringSet through GDEF) decide which glyphs are skipped; lookup types 1, 2 (formats 1
and 2: the first subtable whose coverage and pair / class record match applies and ends the
lookup; format 2 always matches a covered first glyph), 4, 5, 6, 9 (extension).  Types 7/8 are
reported as 'contextual, not evaluated'.
"""
from . import otl


class Gpos:
    def __init__(self, tt):
        self.tt = tt
        self.graph = otl.script_graph(tt, "GPOS")
        self.lookups = otl.lookups(tt, "GPOS")
        self.classes = otl.gdef_classes(tt)
        self.mark_attach = {}
        self.mark_sets = []
        if "GDEF" in tt:
            t = tt["GDEF"].table
            mac = getattr(t, "MarkAttachClassDef", None)
            if mac is not None:
                self.mark_attach = dict(mac.classDefs)
            mgs = getattr(t, "MarkGlyphSetsDef", None)
            if mgs is not None:
                self.mark_sets = [set(c.glyphs) if c is not None else set() for c in mgs.Coverage]

    # ---------------------------------------------------------------- script / feature selection
    def script_tags(self):
        return sorted(self.graph["scripts"]) if self.graph else []

    def feature_indices(self, script, lang="dflt"):
        if not self.graph:
            return []
        sc = self.graph["scripts"].get(script)
        if sc is None:
            sc = self.graph["scripts"].get("DFLT")
        if sc is None:
            return []
        if lang != "dflt" and lang in sc["langs"]:
            return sc["langs"][lang]
        return sc["dflt"] or []

    def lookup_indices(self, script, feature_tags, lang="dflt"):
        idx = set()
        for fi in self.feature_indices(script, lang):
            tag, lks = self.graph["features"][fi]
            if tag in feature_tags:
                idx.update(lks)
        return sorted(idx)

    # ---------------------------------------------------------------- skipping
    def ignored(self, lk, glyph):
        flag = lk["flag"]
        cls = self.classes.get(glyph, 0)
        if flag & 0x0002 and cls == 1:
            return True
        if flag & 0x0004 and cls == 2:
            return True
        if cls == 3:
            if flag & 0x0008:
                return True
            if flag & 0x0010:
                ms = lk["mark_filtering_set"]
                if ms is None or ms >= len(self.mark_sets) or glyph not in self.mark_sets[ms]:
                    return True
            mat = flag >> 8
            if mat and self.mark_attach.get(glyph, 0) != mat:
                return True
        return False

    # ---------------------------------------------------------------- pair adjustment
    def pair(self, g1, g2, script, feature_tags=("kern", "dist"), lang="dflt"):
        """Evaluate the 2-glyph run [g1, g2].  Returns dict(xadv, xpla, yadv, ypla of the FIRST
        glyph summed over lookups, second-glyph values, contributions [(lookup, xadv, xpla)],
        contextual: bool)."""
        res = {"xadv": 0, "xpla": 0, "yadv": 0, "ypla": 0, "x2adv": 0, "x2pla": 0,
               "contrib": [], "contextual": False, "matched": []}
        for li in self.lookup_indices(script, feature_tags, lang):
            lk = self.lookups[li]
            if lk["type"] in (7, 8):
                res["contextual"] = True
                continue
            if lk["type"] == 1:
                for g, pre in ((g1, ""), (g2, "2")):
                    if self.ignored(lk, g):
                        continue
                    v = self._single(lk, g)
                    if v is not None:
                        res["x" + pre + "adv"] += v[0]
                        res["x" + pre + "pla"] += v[1]
                        if pre == "":
                            res["contrib"].append((li, v[0], v[1]))
                continue
            if lk["type"] != 2:
                continue
            if self.ignored(lk, g1) or self.ignored(lk, g2):
                continue
            v = self._pairpos(lk, g1, g2)
            if v is None:
                continue
            v1, v2 = v
            res["matched"].append(li)
            res["xadv"] += v1[0]
            res["xpla"] += v1[1]
            res["yadv"] += v1[2]
            res["ypla"] += v1[3]
            res["x2adv"] += v2[0]
            res["x2pla"] += v2[1]
            if any(v1) or any(v2):
                res["contrib"].append((li, v1[0], v1[1]))
        return res

    @staticmethod
    def _vr(v):
        if v is None:
            return (0, 0, 0, 0)
        return (getattr(v, "XAdvance", 0) or 0, getattr(v, "XPlacement", 0) or 0,
                getattr(v, "YAdvance", 0) or 0, getattr(v, "YPlacement", 0) or 0)

    def _single(self, lk, g):
        for st in lk["subtables"]:
            cov = st.Coverage.glyphs
            if g not in cov:
                continue
            if st.Format == 1:
                return self._vr(st.Value)
            return self._vr(st.Value[cov.index(g)])
        return None

    def _pairpos(self, lk, g1, g2):
        for st in lk["subtables"]:
            cov = st.Coverage.glyphs
            if g1 not in cov:
                continue
            if st.Format == 1:
                ps = st.PairSet[cov.index(g1)]
                for r in ps.PairValueRecord:
                    if r.SecondGlyph == g2:
                        return self._vr(r.Value1), self._vr(getattr(r, "Value2", None))
                continue            # no record for g2: the shaper tries the next subtable
            c1 = st.ClassDef1.classDefs.get(g1, 0)
            c2 = st.ClassDef2.classDefs.get(g2, 0)
            if c1 >= st.Class1Count or c2 >= st.Class2Count:
                return None
            rec = st.Class1Record[c1].Class2Record[c2]
            return self._vr(rec.Value1), self._vr(getattr(rec, "Value2", None))
        return None

    # ---------------------------------------------------------------- mark attachment
    def attach(self, base, mark, script, feature_tags=("mark", "mkmk", "abvm", "blwm"),
               lang="dflt", component=None):
        """Final attachment of `mark` to `base` in the run [base, mark] (for a ligature base the
        component index must be given).  Later lookups override earlier ones, as in shapers.
        Returns dict(offset (dx, dy) | None, lookup, kind, hidden: lookups that would have matched
        but skip one of the glyphs)."""
        out = {"offset": None, "lookup": None, "kind": None, "hidden": [], "all": []}
        bcls = self.classes.get(base, 0)
        for li in self.lookup_indices(script, feature_tags, lang):
            lk = self.lookups[li]
            if lk["type"] not in (4, 5, 6):
                continue
            r = self._attach_lookup(lk, base, mark, component, bcls)
            if r is None:
                continue
            if self.ignored(lk, mark) or self.ignored(lk, base):
                out["hidden"].append(li)
                continue
            out["offset"], out["lookup"], out["kind"] = r, li, lk["type"]
            out["all"].append((li, r))
        return out

    @staticmethod
    def _anc(a):
        if a is None:
            return None
        return (a.XCoordinate, a.YCoordinate)

    def _attach_lookup(self, lk, base, mark, component, bcls):
        t = lk["type"]
        for st in lk["subtables"]:
            if t == 4:
                mcov, bcov = st.MarkCoverage.glyphs, st.BaseCoverage.glyphs
                if mark not in mcov or base not in bcov:
                    continue
                # a shaper attaches to the preceding BASE glyph: anything but a mark
                if bcls == 3:
                    continue
                mrec = st.MarkArray.MarkRecord[mcov.index(mark)]
                banc = st.BaseArray.BaseRecord[bcov.index(base)].BaseAnchor[mrec.Class]
            elif t == 5:
                mcov, lcov = st.MarkCoverage.glyphs, st.LigatureCoverage.glyphs
                if mark not in mcov or base not in lcov:
                    continue
                if bcls == 3:
                    continue
                mrec = st.MarkArray.MarkRecord[mcov.index(mark)]
                comps = st.LigatureArray.LigatureAttach[lcov.index(base)].ComponentRecord
                k = len(comps) - 1 if component is None else component
                if k >= len(comps) or k < 0:
                    continue
                banc = comps[k].LigatureAnchor[mrec.Class]
            else:
                m1cov, m2cov = st.Mark1Coverage.glyphs, st.Mark2Coverage.glyphs
                if mark not in m1cov or base not in m2cov:
                    continue
                if bcls != 3 and self.classes:
                    # mark-to-mark needs the previous glyph to be a mark
                    continue
                mrec = st.Mark1Array.MarkRecord[m1cov.index(mark)]
                banc = st.Mark2Array.Mark2Record[m2cov.index(base)].Mark2Anchor[mrec.Class]
            a, b = self._anc(banc), self._anc(mrec.MarkAnchor)
            if a is None or b is None:
                continue
            return (a[0] - b[0], a[1] - b[1])
        return None

    def ligature_components(self, lig):
        """Number of components recorded for a ligature glyph in any MarkLigPos lookup."""
        n = 0
        for lk in self.lookups:
            if lk["type"] != 5:
                continue
            for st in lk["subtables"]:
                lcov = st.LigatureCoverage.glyphs
                if lig in lcov:
                    n = max(n, len(st.LigatureArray.LigatureAttach[lcov.index(lig)].ComponentRecord))
        return n
