def define(M):
    M("C11", "unique_name_counter_bug", "Lib/ufo2ft/postProcessor.py",
      "            while (name + \".%d\" % n) in seen:\n                n += 1",
      "            while False:\n                n += 1")
    M("C11", "rename_before_reload", "Lib/ufo2ft/postProcessor.py",
      "                self.otf = _reloadFont(self.otf)\n                self._rename_glyphs_from_ufo()",
      "                self._rename_glyphs_from_ufo()\n                self.otf = _reloadFont(self.otf)")
    M("C11", "supplementary_uses_uni", "Lib/ufo2ft/postProcessor.py",
      "                \"u\" if unicode_val > 0xFFFF else \"uni\", unicode_val",
      "                \"uni\", unicode_val")
    M("C11", "invalid_chars_not_stripped_for_lib_names", "Lib/ufo2ft/postProcessor.py",
      "            if name != prod_name:\n                valid_name = self.GLYPH_NAME_INVALID_CHARS.sub(\"\", prod_name)",
      "            if name != prod_name:\n                valid_name = prod_name")
    M("C11", "suffix_dropped", "Lib/ufo2ft/postProcessor.py",
      "            return \"{}.{}\".format(\n                self._build_production_name(self.glyphSet[parts[0]]),\n                parts[1],\n            )",
      "            return self._build_production_name(self.glyphSet[parts[0]])")
    M("C11", "cmap_rebuilt_from_new_names", "Lib/ufo2ft/postProcessor.py",
      "        newGlyphOrder = [rename_map.get(n, n) for n in otf.getGlyphOrder()]\n        otf.setGlyphOrder(newGlyphOrder)",
      "        newGlyphOrder = sorted(rename_map.get(n, n) for n in otf.getGlyphOrder())\n        newGlyphOrder.remove('.notdef'); newGlyphOrder.insert(0, '.notdef')\n        otf.setGlyphOrder(newGlyphOrder)")
    # the repaired defect (ae757d5) put back: '.notdef' renamed like any other glyph
    M("C11", "notdef_renamed_by_lib_names", "Lib/ufo2ft/postProcessor.py",
      '            if name == ".notdef":', '            if name == ".notdef-never":')
