def define(M):
    # ---------------- C15 ----------------
    FL = "Lib/ufo2ft/filters/flattenComponents.py"
    TF = "Lib/ufo2ft/filters/transformations.py"
    PA = "Lib/ufo2ft/filters/propagateAnchors.py"
    DT = "Lib/ufo2ft/filters/decomposeTransformedComponents.py"
    UT = "Lib/ufo2ft/util.py"
    # nested component matrices multiplied in the wrong order (invisible with pure translations)
    M("C15", "flatten_translate_transform_swapped", FL,
      "            flat_tr = flat_tr.translate(tr.dx, tr.dy)\n"
      "            flat_tr = flat_tr.transform((tr.xx, tr.xy, tr.yx, tr.yy, 0, 0))\n",
      "            flat_tr = flat_tr.transform((tr.xx, tr.xy, tr.yx, tr.yy, 0, 0))\n"
      "            flat_tr = flat_tr.translate(tr.dx, tr.dy)\n")
    # flattening looks through mixed glyphs too (their own contours are lost from the composite)
    M("C15", "flatten_through_mixed", FL,
      "def _isSimpleOrMixed(glyph):\n    return not glyph.components or len(glyph) > 0",
      "def _isSimpleOrMixed(glyph):\n    return not glyph.components")
    # composite of an already transformed base is transformed a second time
    M("C15", "tf_no_inverse_compensation", TF,
      "            transformation = Transform(*transformation).transform(self._inverted)\n",
      "            transformation = Transform(*transformation)\n")
    M("C15", "tf_compensation_wrong_side", TF,
      "            transformation = Transform(*transformation).transform(self._inverted)\n",
      "            transformation = self._inverted.transform(transformation)\n")
    # origin shift applied with the wrong sign
    M("C15", "tf_origin_wrong_sign", TF,
      "                m = m.translate(0, origin_height)\n",
      "                m = m.translate(0, -origin_height)\n")
    M("C15", "tf_anchors_lose_offset", TF,
      "            a.x, a.y = matrix.transformPoint((a.x, a.y))",
      "            a.x, a.y = matrix.transformVector((a.x, a.y))")
    M("C15", "tf_bases_not_recursed", TF,
      "            if self.include(base_glyph) and self.filter(base_glyph):",
      "            if False and self.include(base_glyph) and self.filter(base_glyph):")
    M("C15", "tf_scale_percent_as_factor_y", TF,
      "                m = m.scale(sx / 100, sy / 100)", "                m = m.scale(sx / 100, sx / 100)")
    # anchors copied from the base without the component's transform
    M("C15", "propagate_untransformed", PA,
      "        anchor_data[anchor.name] = t.transformPoint((anchor.x, anchor.y))\n\n\ndef _adjust_anchors",
      "        anchor_data[anchor.name] = (anchor.x, anchor.y)\n\n\ndef _adjust_anchors")
    M("C15", "propagate_ligature_first_component_transform", PA,
      "        for i, (anchor, component) in enumerate(anchors):\n"
      "            t = Transform(*component.transformation)\n",
      "        for i, (anchor, component) in enumerate(anchors):\n"
      "            t = Transform(*anchors[0][1].transformation)\n")
    M("C15", "propagate_overrides_existing", PA,
      "        if not any(a.name.startswith(anchor_name) for a in composite.anchors):",
      "        if not any(a.name == anchor_name + \"_1\" for a in composite.anchors):")
    M("C15", "propagate_mark_adjust_offset_only", PA,
      "            anchor_data[anchor.name] = t.transformPoint((anchor.x, anchor.y))\n\n\ndef _component_closest",
      "            anchor_data[anchor.name] = (anchor.x + t.dx, anchor.y + t.dy)\n\n\ndef _component_closest")
    # mirrored components no longer reversed
    M("C15", "no_reverse_flipped", UT,
      "        reverseFlipped=reverseFlipped,", "        reverseFlipped=False,")
    M("C15", "decompose_not_nested", UT,
      "        include=include,\n        decomposeNested=decomposeNested,\n",
      "        include={c.baseGlyph for c in glyph.components},\n        decomposeNested=False,\n")
    # only scale, not shear / rotation, counts as 'transformed'
    M("C15", "dtc_diagonal_only", DT,
      "    return component.transformation[:4] != IDENTITY_2x2",
      "    return (component.transformation[0], component.transformation[3]) != (1, 1)")
    # the repaired defect (12c3925) put back: empty included glyphs keep their advance
    M("C15", "tf_empty_glyph_early_return", "Lib/ufo2ft/filters/transformations.py",
      "            size = matrix.transformVector((glyph.width, glyph.height))\n            if size == (glyph.width, glyph.height):\n                return False\n            glyph.width, glyph.height = size\n            return True",
      "            return False")
    # the repaired defect (ba9d2cb) put back: outline-less component in a mark ligature
    M("C15", "pa_bounds_none_subscripted", "Lib/ufo2ft/filters/propagateAnchors.py",
      "    if bounds is None:", "    if bounds is False:")
