"""Self-test mutants: realistic breaking edits applied to a scratch copy of /repo (never to
/repo itself).  `python selftest/mutants.py [PROP|all] [name]` copies the repository to a temp
dir, applies one edit, runs the property's quick check against the copy (VERIF_REPO) with evidence
and replay output redirected to the temp dir, and reports whether a VIOLATION was raised.
Results are appended to selftest/RESULTS.md (informational)."""
import os
import shutil
import subprocess
import sys
import tempfile
import time

HERE = os.path.dirname(os.path.abspath(__file__))
VERIF = os.path.dirname(HERE)

# (property, name, file relative to repo, old, new, [cases])
MUTANTS = []


def M(prop, name, file, old, new, cases=None):
    MUTANTS.append((prop, name, file, old, new, cases))


sys.path.insert(0, HERE)
import glob  # noqa: E402
import importlib  # noqa: E402

for _f in sorted(glob.glob(os.path.join(HERE, "mutant_defs_*.py"))):
    importlib.import_module(os.path.basename(_f)[:-3]).define(M)


def run_one(prop, name, file, old, new, cases, run_suite=False):
    tmp = tempfile.mkdtemp(prefix="vfmut_")
    try:
        repo = os.path.join(tmp, "repo")
        shutil.copytree("/repo", repo, ignore=shutil.ignore_patterns(".git", "__pycache__"))
        path = os.path.join(repo, file)
        src = open(path).read()
        if src.count(old) < 1:
            return "PATCH-FAILED", 0, ""
        open(path, "w").write(src.replace(old, new, 1))
        env = dict(os.environ, VERIF_REPO=repo, VERIF_EVIDENCE_DIR=os.path.join(tmp, "ev"),
                   VERIF_REPLAY_DIR=os.path.join(tmp, "rp"))
        cmd = [os.path.join(VERIF, "check"), prop]
        if cases:
            cmd += ["--cases", str(cases)]
        t0 = time.time()
        p = subprocess.run(cmd, env=env, capture_output=True, text=True, timeout=1800)
        dt = time.time() - t0
        lines = [l for l in p.stdout.splitlines() if l.startswith("VIOLATION")]
        verdict = {0: "MISSED", 1: "CAUGHT", 2: "INCONCLUSIVE"}.get(p.returncode, "rc%d" % p.returncode)
        return verdict, dt, "; ".join(l.split("mechanism=")[-1] for l in lines[:4])
    finally:
        shutil.rmtree(tmp, ignore_errors=True)


def main():
    want_prop = sys.argv[1] if len(sys.argv) > 1 else "all"
    want_name = sys.argv[2] if len(sys.argv) > 2 else None
    rows = []
    for prop, name, file, old, new, cases in MUTANTS:
        if want_prop != "all" and prop != want_prop:
            continue
        if want_name and name != want_name:
            continue
        verdict, dt, mech = run_one(prop, name, file, old, new, cases)
        print(f"{prop} {name}: {verdict} ({dt:.0f}s) {mech}", flush=True)
        rows.append((prop, name, verdict, mech))
        record(prop, name, file, verdict, mech)
    return 0


def record(prop, name, file, verdict, mech):
    """selftest/results.json holds the latest verdict per mutant; RESULTS.md is its rendering."""
    import json
    rp = os.path.join(HERE, "results.json")
    res = json.load(open(rp)) if os.path.exists(rp) else {}
    res["%s/%s" % (prop, name)] = {"file": file, "verdict": verdict, "mechanisms": mech}
    json.dump(res, open(rp, "w"), indent=1, sort_keys=True)
    with open(os.path.join(HERE, "RESULTS.md"), "w") as f:
        f.write("# Self-test mutants: latest verdict of the quick tier per mutant\n\n"
                "Produced by `python selftest/mutants.py [PROP|all] [name]` (scratch copy of /repo, "
                "one edit, quick check through VERIF_REPO).  Edits are in mutant_defs_cNN.py.\n\n"
                "| property | mutant | file | verdict | mechanisms reported |\n|---|---|---|---|---|\n")
        for k in sorted(res):
            r = res[k]
            pr, nm = k.split("/", 1)
            f.write("| %s | %s | %s | %s | %s |\n" % (pr, nm, r["file"].replace("Lib/ufo2ft/", ""),
                                                     r["verdict"], r["mechanisms"][:160]))


if __name__ == "__main__":
    sys.exit(main())
