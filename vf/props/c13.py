"""C13 - Non-exported glyphs vanish without altering the remaining glyphs.

Relation between executions: each case is compiled with and without the skip list (fresh font
objects).  Skipped names must be absent everywhere; every remaining glyph must render the same set
of contours and keep its advance; relative order, cmap, generated kerning and mark positioning of
the remaining glyphs (evaluated by the R-gpos interpreter) must be unchanged.
"""
import copy
import math
import io
import traceback

import vf  # noqa: F401
from vf.build import build_ufo, build_designspace
from vf.props.c01 import bounded_font
from vf.ref import otl
from vf.ref import render as R
from vf.ref.gpos import Gpos

ID = "C13"
RULE = ("case = component-DAG UFO (3-14 glyphs, nested / mirrored / sheared references, shared "
        "bases) with kerning groups, mark anchors and categories x a random skip subset (glyphs used "
        "as components at any depth, skipped-in-skipped chains, kerning-group members and keys, "
        "anchored glyphs) given by argument, by the UFO lib, by both (argument wins) or by the "
        "designspace lib (2-master interpolatable / variable stratum) x OTF / TTF, plus 12 % sparse-master "
        "designspaces (leaf <- middle <- top chains, non-linear sparse layer masters of skipped inner "
        "glyphs; variable fonts read back at 9 axis positions); compiled with and "
        "without the skip list; distinct = sha1 of the case; non-trivial = both compiles succeeded "
        "and >= 1 remaining glyph references a skipped glyph (directly or through another glyph)")
ASSUMPTIONS = [
    "fontTools' readers are trusted; GPOS evaluated by R-gpos",
    "OTF: contour multisets compared exactly (normal form of DESIGN 4.1; order may change "
    "legitimately when a reference to a skipped glyph becomes the glyph's own contours)",
    "TTF cases use line / quadratic sources; a composite kept in either compile is resolved from "
    "the stored records (rounded offsets, F2Dot14 matrices, rounded base points); the comparison "
    "allows the accumulated bound of those losses (1/2 per rounded offset and per rounded point, "
    "scaled by the enclosing matrices, + F2Dot14 quantisation) + 0.75 per coordinate and ignores "
    "contour direction for mirrored components (TrueType composites are not reversed)",
    "feature files contain no GSUB rules here (skipping a glyph named in the user's feature text is "
    "the user's responsibility: the text is left untouched by design)",
]
NONVACUITY = ["pairs_compiled", "remaining_glyphs_compared", "glyphs_referencing_skipped",
              "nested_skip_chains", "mirrored_refs_to_skipped", "kerning_pairs_compared",
              "mark_pairs_compared", "skipped_group_members", "arg_overrides_lib", "ttf_cases",
              "otf_cases", "skipped_absent_checked", "varsparse_cases",
              "var_location_renderings_compared", "var_refs_to_sparse_skipped",
              "var_nested_refs_to_sparse_skipped"]


def n_cases(tier):
    return 500 if tier == "quick" else 8000


def budget_s(tier):
    return 150 if tier == "quick" else 1500


# ---------------------------------------------------------------- sparse-master designspaces

def _poly(rng, n, curve):
    """A closed n-gon around a random centre as point specs; optionally one cubic segment."""
    import math
    cx, cy, r = rng.randint(100, 400), rng.randint(100, 500), rng.randint(60, 200)
    pts = []
    for i in range(n):
        a = 2 * math.pi * i / n
        pts.append([int(cx + r * math.cos(a)) + rng.randint(-15, 15),
                    int(cy + r * math.sin(a)) + rng.randint(-15, 15), "line"])
    if curve == "curve":
        # replace the segment that ends at point 1 by a cubic
        (x0, y0), (x1, y1) = pts[0][:2], pts[1][:2]
        pts[1][2] = "curve"
        pts[1:1] = [[x0 + (x1 - x0) // 3 + 9, y0 + (y1 - y0) // 3 + 7, None],
                    [x0 + 2 * (x1 - x0) // 3 + 9, y0 + 2 * (y1 - y0) // 3 + 7, None]]
    elif curve == "qcurve":
        (x0, y0), (x1, y1) = pts[0][:2], pts[1][:2]
        pts[1][2] = "qcurve"
        pts[1:1] = [[(x0 + x1) // 2 + 11, (y0 + y1) // 2 + 13, None]]
    return pts


def _shift(contours, rng, lo, hi):
    out = copy.deepcopy(contours)
    for c in out:
        for p in c:
            p[0] += rng.randint(lo, hi)
            p[1] += rng.randint(lo, hi)
    return out


def gen_varsparse(rng, fmt, lib):
    """2 full masters (wght 100, 900) + sparse layer masters at 300/500/700 holding non-linear
    drawings of some leaf glyphs (and non-linear component offsets of some middle glyphs); glyph
    graph leaf <- middle (<- middle2) <- top with constant 2x2 parts; the skip list is drawn from
    leaves and middles, favouring whole chains."""
    curve = "curve" if fmt == "otf" else "qcurve"
    g0, g1, layers = [], [], {300: [], 500: [], 700: []}

    def add(name, contours0, contours1, comps0, comps1, width, unicodes=()):
        g0.append({"name": name, "width": width, "unicodes": list(unicodes),
                   "contours": contours0, "components": comps0, "anchors": []})
        g1.append({"name": name, "width": width + rng.choice([0, 40]), "unicodes": list(unicodes),
                   "contours": contours1, "components": comps1, "anchors": []})

    leaves, middles = [], []
    for i in range(rng.randint(1, 3)):
        name = "_leaf%d" % i
        c0 = [_poly(rng, rng.randint(3, 6), rng.choice([None, None, curve]))]
        c1 = _shift(c0, rng, -40, 60)
        add(name, c0, c1, [], [], 500)
        leaves.append(name)
        if rng.random() < 0.75:
            loc = rng.choice([300, 500, 700])
            t = (loc - 100) / 800.0
            mid = copy.deepcopy(c0)
            for c, cc1 in zip(mid, c1):
                for p, q in zip(c, cc1):
                    bump_ = rng.choice([-1, 1]) * rng.randint(30, 90)
                    p[0] = int(round(p[0] + t * (q[0] - p[0]))) + bump_
                    p[1] = int(round(p[1] + t * (q[1] - p[1]))) + rng.randint(-40, 40)
            layers[loc].append({"name": name, "width": 500 + rng.choice([0, 30]), "unicodes": [],
                                "contours": mid, "components": [], "anchors": []})

    def comp(base, scales=(1, 1, 1, 0.5)):
        sc = rng.choice(scales)
        t0 = [sc, 0, 0, sc, rng.randint(-100, 300), rng.randint(-100, 200)]
        t1 = [sc, 0, 0, sc, t0[4] + rng.randint(-60, 60), t0[5] + rng.randint(-60, 60)]
        return {"base": base, "t": t0}, {"base": base, "t": t1}

    for i in range(rng.randint(1, 3)):
        name = "_mid%d" % i
        pool = leaves + (middles if rng.random() < 0.5 else [])
        cs = [comp(rng.choice(pool)) for _ in range(rng.randint(1, 2))]
        add(name, [], [], [a for a, _ in cs], [b for _, b in cs], 500)
        middles.append(name)
        if rng.random() < 0.25:
            loc = rng.choice([300, 500, 700])
            cm = []
            for a, b in cs:
                t = (loc - 100) / 800.0
                cm.append({"base": a["base"], "t": a["t"][:4] + [
                    int(round(a["t"][4] + t * (b["t"][4] - a["t"][4]))) + rng.choice([-70, 55]),
                    int(round(a["t"][5] + t * (b["t"][5] - a["t"][5])))]})
            layers[loc].append({"name": name, "width": 500, "unicodes": [], "contours": [],
                                "components": cm, "anchors": []})
    tops = []
    for i, (name, cp) in enumerate([("A", 0x41), ("B", 0x42), ("C", 0x43)][:rng.randint(2, 3)]):
        pool = middles * 2 + leaves
        # (only the outermost reference may enlarge: a product of 2x2 parts beyond +-2 cannot be
        # stored in a TrueType composite - that situation is the dedicated stratum below)
        cs = [comp(rng.choice(pool), (1, 1, 0.5, 2)) for _ in range(rng.randint(1, 2))]
        own0 = [_poly(rng, 4, None)] if rng.random() < 0.3 else []
        own1 = _shift(own0, rng, -20, 20)
        add(name, own0, own1, [a for a, _ in cs], [b for _, b in cs], 600, [cp])
        tops.append(name)
    c0 = [_poly(rng, 5, curve)]
    add("plain", c0, _shift(c0, rng, -30, 30), [], [], 450, [0x44])
    if rng.random() < 0.5:
        g0.insert(0, {"name": ".notdef", "width": 500, "unicodes": [], "contours": [],
                      "components": [], "anchors": []})
        g1.insert(0, copy.deepcopy(g0[0]))
    # skip list: whole chains preferred
    by = {g["name"]: g for g in g0}
    skip = set()
    start = rng.choice(middles)
    skip.add(start)
    if rng.random() < 0.8:
        skip |= closure_refs(by, start)
    for n in leaves + middles:
        if rng.random() < 0.25:
            skip.add(n)
    stratum2 = None
    if fmt == "ttf" and rng.random() < 0.06:
        # dedicated stratum of a listed finding: top -(x2)-> skipped middle -(x2)-> exported leaf
        # with a sparse master: once the middle glyph is inlined the composed 2x2 is 4
        sparse_leaves = [g["name"] for gl in layers.values() for g in gl if g["name"] in leaves]
        if sparse_leaves:
            leaf = sparse_leaves[0]
            for gl in (g0, g1):
                gg = {g["name"]: g for g in gl}
                gg[middles[0]]["components"] = [{"base": leaf, "t": [2, 0, 0, 2, -90, 3]}]
                gg[tops[0]]["components"] = [{"base": middles[0], "t": [2, 0, 0, 2, 60, -40]}]
            for gl in layers.values():
                gl[:] = [g for g in gl if g["name"] != middles[0]]
            skip = {middles[0]}
            stratum2 = "inlined_transform_overflow"
    info = {"unitsPerEm": 1000, "familyName": "T", "styleName": "L", "ascender": 800,
            "descender": -200}
    u0 = {"glyphs": g0, "kerning": [], "groups": {}, "lib": {}, "info": info,
          "features": "languagesystem DFLT dflt;\n",
          "layers": {"L%d" % loc: gl for loc, gl in layers.items() if gl}}
    u1 = {"glyphs": g1, "kerning": [], "groups": {}, "lib": {},
          "info": dict(info, styleName="B"), "features": "languagesystem DFLT dflt;\n"}
    sources = [{"ufo": 0, "location": {"Weight": 100}, "name": "m100"}]
    for loc, gl in sorted(layers.items()):
        if gl:
            sources.append({"ufo": 0, "location": {"Weight": loc}, "name": "s%d" % loc,
                            "layerName": "L%d" % loc})
    sources.append({"ufo": 1, "location": {"Weight": 900}, "name": "m900"})
    ds = {"axes": [{"name": "Weight", "tag": "wght", "min": 100, "default": 100, "max": 900}],
          "ufos": [u0, u1], "sources": sources}
    if stratum2 is None and rng.random() < 0.35:
        # a second axis (default 100, not 0) with a third full master at its other end; the
        # sparse sources spell their location WITHOUT it (a missing axis means its default)
        g2 = copy.deepcopy(g0)
        for g in g2:
            g["width"] += rng.choice([-60, -20])
            g["contours"] = _shift(g["contours"], rng, -35, 10)
            for c_ in g["components"]:
                c_["t"] = c_["t"][:4] + [c_["t"][4] + rng.randint(-30, 30), c_["t"][5]]
        u2 = {"glyphs": g2, "kerning": [], "groups": {}, "lib": {},
              "info": dict(info, styleName="C"), "features": "languagesystem DFLT dflt;\n"}
        ds["axes"].append({"name": "Width", "tag": "wdth", "min": 50, "default": 100, "max": 100})
        ds["ufos"].append(u2)
        for s_ in sources:
            if not s_.get("layerName"):
                s_["location"]["Width"] = 100
        sources.append({"ufo": 2, "location": {"Weight": 100, "Width": 50}, "name": "w50"})
        stratum2 = "second_axis_omitted_by_sparse_sources"
    return {"stratum": "varsparse", "fmt": fmt, "lib": lib, "skip": sorted(skip),
            "delivery": "dslib", "decoy": [], "ds": ds,
            "sparse": {str(loc): [g["name"] for g in gl] for loc, gl in layers.items() if gl},
            "substratum": stratum2, "ufo": u0}


def gen(rng, idx, tier):
    fmt = rng.choice(["otf", "otf", "ttf"])
    if rng.random() < 0.12:
        return gen_varsparse(rng, rng.choice(["otf", "ttf"]), rng.choice(["defcon", "ufoLib2"]))
    kinds = ("line", "curve", "qcurve") if fmt == "otf" else ("line", "qcurve")
    mode = rng.choice(["mixed", "dyadic", "int"])
    glyphs = bounded_font(rng, mode, kinds=kinds, tmode="tt", allow_degenerate=False,
                          with_notdef=rng.random() < 0.5)
    names = [g["name"] for g in glyphs if g["name"] != ".notdef"]
    used_as_base = {c["base"] for g in glyphs for c in g["components"]}
    # skip subset: prefer glyphs that are used as components
    k = rng.randint(1, max(1, min(4, len(names) - 1)))
    cands = [n for n in names if n in used_as_base] * 3 + names
    skip = []
    while len(skip) < k and cands:
        n = rng.choice(cands)
        if n not in skip and len(skip) < len(names) - 1:
            skip.append(n)
        cands = [c for c in cands if c != n]
    # layout data
    kerning, groups = [], {}
    if len(names) >= 3:
        g1 = rng.sample(names, min(len(names), rng.randint(1, 3)))
        g2 = rng.sample(names, min(len(names), rng.randint(1, 3)))
        groups = {"public.kern1.A": g1, "public.kern2.B": g2}
        kerning.append(["public.kern1.A", "public.kern2.B", rng.choice([-40, 25])])
        for _ in range(rng.randint(1, 5)):
            kerning.append([rng.choice(names + ["public.kern1.A"]),
                            rng.choice(names + ["public.kern2.B"]), rng.choice([-30, 12, -7, 50])])
        kerning = [list(v) for v in {(a, b): (a, b, c) for a, b, c in kerning}.values()]
        marks = rng.sample(names, min(2, len(names)))
        for g in glyphs:
            if g["name"] in marks:
                g["anchors"] = [{"name": "_top", "x": rng.randint(0, 200), "y": rng.randint(300, 700)}]
                g["unicodes"] = []
            elif g["name"] != ".notdef" and rng.random() < 0.6:
                g["anchors"] = [{"name": "top", "x": rng.randint(0, 500), "y": rng.randint(300, 800)}]
    lib = {}
    only_skipped_categorised = False
    if len(names) >= 3:
        # explicit categories: otherwise feaLib infers GDEF marks from the generated mark lookups,
        # which themselves appear / disappear with the skipped glyphs
        cats = {}
        for g in glyphs:
            if any(a["name"] == "_top" for a in g["anchors"]):
                cats[g["name"]] = "mark"
            elif g["name"] != ".notdef":
                cats[g["name"]] = "base"
        if rng.random() < 0.12:
            # categories that mention ONLY glyphs which are not exported: still 'categories are
            # defined' (nothing is a base or a mark among the remaining glyphs), with and
            # without the skip list alike
            cats = {n: cats.get(n, "base") for n in skip}
            only_skipped_categorised = True
        lib["public.openTypeCategories"] = cats
    delivery = rng.choice(["arg", "lib", "both"])
    stratum = "static"
    if rng.random() < 0.12:
        stratum = rng.choice(["interpolatable", "variable"])
        delivery = "dslib"
    if fmt == "ttf" and rng.random() < 0.12:
        # a plain list of (in-memory) master UFOs: the list is the union of the masters'
        # lib keys, here split so that some names are listed by the second master only
        stratum = "interpolatable"
        delivery = "ufolibs"
    hand = None
    if fmt == "ttf" and stratum == "static" and rng.random() < 0.12:
        simple_skipped = [g["name"] for g in glyphs if g["name"] in skip and g["contours"]
                          and not g["components"]]
        if simple_skipped:
            glyphs.append({"name": "hd.x", "width": 555, "unicodes": [], "contours": [], "anchors": [],
                           "components": [{"base": simple_skipped[0], "t": [1, 0, 0, 1, 30, 0]}]})
            if "public.openTypeCategories" in lib:
                lib["public.openTypeCategories"]["hd.x"] = "base"
            stratum, delivery = "interpolatable", "dslib"
    if stratum == "interpolatable" and fmt == "ttf":
        by_ = {g["name"]: g for g in glyphs}
        cands_ = [(g["name"], g["components"][0]["base"]) for g in glyphs
                  if not g["contours"] and len(g["components"]) == 1
                  and list(g["components"][0]["t"][:4]) == [1, 0, 0, 1]
                  and g["components"][0]["base"] in skip and g["name"] not in skip
                  and by_[g["components"][0]["base"]]["contours"]
                  and not by_[g["components"][0]["base"]]["components"]]
        if cands_ and rng.random() < 0.6:
            hand = list(rng.choice(cands_))
    return {"stratum": stratum, "fmt": fmt, "lib": rng.choice(["defcon", "ufoLib2"]),
            "hand_drawn_in_second_master": hand,
            "named_layer": stratum == "static" and rng.random() < 0.2,
            "skip": skip, "delivery": delivery, "only_skipped_categorised": only_skipped_categorised,
            "ufo_lib_decoy": ([rng.choice([n for n in names if n not in skip] or names)]
                              if delivery == "dslib" and rng.random() < 0.5 else None),
            "ufolibs_cut": rng.randint(0, max(0, len(skip) - 1)),
            "decoy": rng.sample(names, min(len(names) - 1, 1)) if delivery == "both" else [],
            "ufo": {"glyphs": glyphs, "kerning": kerning, "groups": groups, "lib": lib,
                    "features": "languagesystem DFLT dflt;\nlanguagesystem latn dflt;\n",
                    "info": {"unitsPerEm": 1000, "familyName": "T", "styleName": "R"}}}


def sample_view(case):
    u = case["ufo"]
    return {"fmt": case["fmt"], "stratum": case["stratum"], "skip": case["skip"],
            "delivery": case["delivery"],
            "glyphs": [(g["name"], len(g["contours"]), [(c["base"], c["t"]) for c in g["components"]])
                       for g in u["glyphs"]],
            "kerning": u["kerning"], "groups": u["groups"]}


def second_master(spec):
    s = copy.deepcopy(spec)
    s["info"]["styleName"] = "B"
    for g in s["glyphs"]:
        g["width"] = g["width"] + 20
        for c in g["contours"]:
            for p in c:
                p[0] = p[0] + 10
                p[1] = p[1] * 1.0
        for comp in g["components"]:
            comp["t"] = list(comp["t"][:4]) + [comp["t"][4] + 5, comp["t"][5]]
        for a in g["anchors"]:
            a["x"] = a["x"] + 7
    s["kerning"] = [[l, r, v - 5] for l, r, v in s["kerning"]]
    return s


def compile_pair(case, with_skip):
    """Returns list of reloaded TTFonts (one per produced font)."""
    import ufo2ft
    from fontTools.ttLib import TTFont
    spec = copy.deepcopy(case["ufo"])
    skip = case["skip"]
    kw = {"useProductionNames": False}
    if case["fmt"] == "otf" and case["stratum"] != "variable":
        kw["optimizeCFF"] = 1      # the subroutiniser is not this property's business (see C04/C12)
    if case["stratum"] == "static":
        if with_skip:
            if case["delivery"] in ("lib",):
                spec["lib"]["public.skipExportGlyphs"] = list(skip)
            elif case["delivery"] == "arg":
                kw["skipExportGlyphs"] = list(skip)
            else:
                spec["lib"]["public.skipExportGlyphs"] = list(case["decoy"])
                kw["skipExportGlyphs"] = list(skip)
        if case.get("named_layer"):
            # the same glyphs once more in a named layer, which is the one compiled
            spec["layers"] = {"bold": copy.deepcopy(spec["glyphs"])}
            kw["layerName"] = "bold"
        font = build_ufo(spec, case["lib"])
        tt = ufo2ft.compileOTF(font, **kw) if case["fmt"] == "otf" else ufo2ft.compileTTF(font, **kw)
        fonts = [tt]
    else:
        hd = case.get("hand_drawn_in_second_master")
        if hd:
            kw["convertCubics"] = False
        if case.get("ufo_lib_decoy") and case["delivery"] == "dslib":
            # on the designspace paths only the designspace lib counts: a list in a master's
            # own lib is ignored, with and without a designspace list
            spec["lib"]["public.skipExportGlyphs"] = list(case["ufo_lib_decoy"])
            bump_ = compile_pair.__dict__.setdefault("decoys", [0])
            bump_[0] += 1
        ds = {"axes": [{"name": "Weight", "tag": "wght", "min": 400, "default": 400, "max": 700}],
              "ufos": [spec, second_master(spec)],
              "sources": [{"ufo": 0, "location": {"Weight": 400}, "name": "m0"},
                          {"ufo": 1, "location": {"Weight": 700}, "name": "m1"}],
              "lib": {"public.skipExportGlyphs": list(skip)} if with_skip else {}}
        if hd:
            # glyph X refers to the non-exported glyph S in the first master but is DRAWN (S's
            # outline at the same place) in the second one
            x_, s_ = hd
            m1 = {g["name"]: g for g in ds["ufos"][1]["glyphs"]}
            comp = m1[x_]["components"][0]
            dx, dy = comp["t"][4], comp["t"][5]
            m1[x_]["contours"] = [[[p[0] + dx, p[1] + dy] + list(p[2:]) for p in c]
                                  for c in m1[s_]["contours"]]
            m1[x_]["components"] = []
        if case["delivery"] == "ufolibs":
            ds["lib"] = {}
            if with_skip:
                cut = case.get("ufolibs_cut", 0)
                for u, part in zip(ds["ufos"], (skip[:cut], skip[cut:])):
                    if part:
                        u["lib"]["public.skipExportGlyphs"] = list(part)
        doc, ufos = build_designspace(ds, case["lib"])
        if case["delivery"] == "ufolibs":
            fonts = list(ufo2ft.compileInterpolatableTTFs(ufos, **kw))
        elif case["stratum"] == "interpolatable":
            if case["fmt"] == "otf":
                out = ufo2ft.compileInterpolatableOTFsFromDS(doc, **kw)
            else:
                out = ufo2ft.compileInterpolatableTTFsFromDS(doc, **kw)
            fonts = [s.font for s in out.sources]
        else:
            if case["fmt"] == "otf":
                fonts = [ufo2ft.compileVariableCFF2(doc, **kw)]
            else:
                fonts = [ufo2ft.compileVariableTTF(doc, **kw)]
    res = []
    for tt in fonts:
        buf = io.BytesIO()
        tt.save(buf)
        res.append(TTFont(io.BytesIO(buf.getvalue())))
    return res


# ---------------------------------------------------------------- renderings

def otf_render(tt, name):
    from fontTools.pens.recordingPen import RecordingPen
    rec = RecordingPen()
    tt.getGlyphSet()[name].draw(rec)
    cyc = R.recording_to_cycles(rec.value)
    return sorted(R.canon_drawing(cyc, merge=True), key=lambda c: R._flat(c))


def _rownorm(m):
    return max(abs(m[0]) + abs(m[2]), abs(m[1]) + abs(m[3]))


def tt_render(tt, name, m=(1.0, 0.0, 0.0, 1.0, 0.0, 0.0), depth=0, err=0.0):
    """[(points [(x, y, on)], error bound, mirrored)] resolving composites from the stored
    records.  The error bound accumulates what the stored form has lost relative to the exact
    outline: every component offset is rounded (<= 1/2 per axis, scaled by the outer matrix),
    2x2 entries are F2Dot14 (<= 2^-15 each, times the coordinate magnitude) and the leaf's own
    points are rounded (<= 1/2, scaled by the total matrix)."""
    glyf = tt["glyf"]
    g = glyf[name]
    out = []
    if g.isComposite():
        if depth > 8:
            return out
        for c in g.components:
            t = getattr(c, "transform", ((1, 0), (0, 1)))
            cm = (t[0][0], t[0][1], t[1][0], t[1][1], c.x, c.y)
            xx, xy, yx, yy, dx, dy = cm
            A, B, C, D, E, F = m
            comp = (A * xx + C * xy, B * xx + D * xy, A * yx + C * yy, B * yx + D * yy,
                    A * dx + C * dy + E, B * dx + D * dy + F)
            e = err + 0.5 * _rownorm(m) + 2.0 ** -14 * 4000 * _rownorm(m)
            out.extend(tt_render(tt, c.glyphName, comp, depth + 1, e))
        return out
    if g.numberOfContours <= 0:
        return out
    xx, xy, yx, yy, dx, dy = m
    mirrored = (xx * yy - xy * yx) < 0
    e = err + (0.5 * _rownorm(m) if depth else 0.0)
    start = 0
    for end in g.endPtsOfContours:
        pts = []
        for i in range(start, end + 1):
            x, y = g.coordinates[i]
            pts.append((xx * x + yx * y + dx, xy * x + yy * y + dy, g.flags[i] & 1))
        out.append((pts, e, mirrored))
        start = end + 1
    return out


def tie_pairs(glyphs, name):
    """{(floor, floor + 1)} for every coordinate of the exact outline within 10^-6 of x.5."""
    from fractions import Fraction
    import math
    ties = set()
    for start, segs in R.ref_cycles(R.resolve(glyphs, name), keep_quadratic=True):
        for p in ([start] if start is not None else []) + [q for sg in segs for q in sg[1:]]:
            for v in p[:2]:
                v = Fraction(v)
                if abs((v - math.floor(v)) - Fraction(1, 2)) < Fraction(1, 10 ** 6):
                    ties.add((math.floor(v), math.floor(v) + 1))
    return ties


def _merge_close(pts, tol=1.0):
    """Drop a point that lies within `tol` of its (cyclic) predecessor and has the same kind."""
    out = []
    for q in pts:
        if out and out[-1][2] == q[2] and abs(out[-1][0] - q[0]) <= tol and abs(out[-1][1] - q[1]) <= tol:
            continue
        out.append(q)
    while len(out) > 1 and out[0][2] == out[-1][2] and abs(out[0][0] - out[-1][0]) <= tol \
            and abs(out[0][1] - out[-1][1]) <= tol:
        out.pop()
    return out


def match_tt(a, b, any_direction=False, ties=()):
    """Greedy multiset matching of contours with tolerance; returns None if ok else a reason.
    any_direction: the source glyph has a mirrored component somewhere below it - a TrueType
    composite does not reverse such contours (nor does fontTools when it has to decompose a
    composite whose matrix does not fit F2Dot14) while ufo2ft's decomposition does."""
    if len(a) != len(b):
        return "contour count %d != %d" % (len(a), len(b))
    used = [False] * len(b)
    for pa, ea, ma in a:
        ok = False
        for j, (pb, eb, mb) in enumerate(b):
            if used[j] or len(pa) != len(pb):
                continue
            tol = ea + eb + 0.75
            n = len(pa)
            for seq in ([pb] + ([list(reversed(pb))] if (ma or mb or any_direction) else [])):
                for k in range(n):
                    def close(u, v):
                        # two roundings of one exact value on a rounding boundary may be 1 apart
                        return abs(u - v) <= tol or (
                            abs(u - v) <= tol + 0.25 + 1e-6
                            and (math.floor(min(u, v) + 1e-9), math.floor(min(u, v) + 1e-9) + 1) in ties)
                    if all(pa[i][2] == seq[(i + k) % n][2] and
                           close(pa[i][0], seq[(i + k) % n][0]) and
                           close(pa[i][1], seq[(i + k) % n][1]) for i in range(n)):
                        ok = True
                        break
                if ok:
                    break
            if ok:
                used[j] = True
                break
        if not ok:
            return "no counterpart for a contour of %d points" % len(pa)
    return None


def loc_render(tt, name, loc):
    """Contours [(points [(x, y, kind)], 0.0, False)] of a glyph of a variable font at a user
    location, composites resolved by fontTools' glyph set (trusted reader)."""
    from fontTools.pens.recordingPen import DecomposingRecordingPen
    gs = tt.getGlyphSet(location=loc)
    rec = DecomposingRecordingPen(gs)
    gs[name].draw(rec)
    out, cur = [], None
    for op, args in rec.value:
        if op == "moveTo":
            cur = [(args[0][0], args[0][1], "on")]
        elif op == "lineTo":
            cur.append((args[0][0], args[0][1], "on"))
        elif op == "qCurveTo":
            for p in args[:-1]:
                cur.append((p[0], p[1], "q"))
            if args[-1] is not None:
                cur.append((args[-1][0], args[-1][1], "on"))
        elif op == "curveTo":
            for p in args[:-1]:
                cur.append((p[0], p[1], "c"))
            cur.append((args[-1][0], args[-1][1], "on"))
        elif op in ("closePath", "endPath"):
            if cur:
                if len(cur) > 1 and cur[-1] == cur[0]:
                    cur.pop()
                out.append((cur, 0.0, False))
            cur = None
    return out, gs[name].width


LOCATIONS = [100, 200, 300, 400, 500, 600, 700, 800, 900]


def run_varsparse(case):
    """Variable font compiled with and without the designspace's skip list, both read back at
    nine axis positions (all master and sparse-master positions and the positions between them)."""
    import ufo2ft
    from fontTools.ttLib import TTFont
    counters = {"varsparse_cases": 1}
    if case.get("substratum"):
        counters["varsparse_" + case["substratum"]] = 1

    def bump(k, n=1):
        counters[k] = counters.get(k, 0) + n

    skip = set(case["skip"])
    glyphs = {g["name"]: g for g in case["ds"]["ufos"][0]["glyphs"]}
    refs = {n: closure_refs(glyphs, n) for n in glyphs}
    sparse_names = {n for names in case["sparse"].values() for n in names}
    fonts = []
    for with_skip in (False, True):
        ds = copy.deepcopy(case["ds"])
        ds["lib"] = {"public.skipExportGlyphs": sorted(skip)} if with_skip else {}
        try:
            doc, _ = build_designspace(ds, case["lib"])
            f = ufo2ft.compileVariableCFF2 if case["fmt"] == "otf" else ufo2ft.compileVariableTTF
            tt = f(doc, useProductionNames=False)
            buf = io.BytesIO()
            tt.save(buf)
            fonts.append(TTFont(io.BytesIO(buf.getvalue())))
        except Exception:  # noqa: BLE001
            if not with_skip:
                return {"status": "inconclusive", "counters": {"noskip_compile_failed": 1},
                        "note": traceback.format_exc()[-1500:]}
            return {"status": "violated", "counters": counters, "violations": [
                {"mech": "skip_compile_exception",
                 "detail": {"trace": traceback.format_exc()[-2500:]}}]}
    t0, t1 = fonts
    bump("pairs_compiled")
    bump("ttf_cases" if case["fmt"] == "ttf" else "otf_cases")
    violations = []
    o0, o1 = t0.getGlyphOrder(), t1.getGlyphOrder()
    bump("skipped_absent_checked")
    if [n for n in o1 if n in skip]:
        violations.append({"mech": "skipped_glyph_in_order",
                           "detail": {"glyphs": [n for n in o1 if n in skip]}})
    if o1 != [n for n in o0 if n not in skip]:
        violations.append({"mech": "relative_order_changed", "detail": {"plain": o0, "skip": o1}})
        return {"status": "violated", "violations": violations, "counters": counters}
    c0 = {cp: n for cp, n in t0.getBestCmap().items() if n not in skip}
    if c0 != dict(t1.getBestCmap()):
        violations.append({"mech": "cmap_changed_for_remaining", "detail": {}})
    nontrivial = False
    for n in o1:
        if n not in glyphs:
            continue
        hit = refs[n] & skip
        if hit:
            bump("glyphs_referencing_skipped")
            direct = {c["base"] for c in glyphs[n]["components"]}
            if hit - direct:
                bump("nested_skip_chains")
            if hit & sparse_names:
                bump("var_refs_to_sparse_skipped")
                nontrivial = True
                if (hit & sparse_names) - direct:
                    bump("var_nested_refs_to_sparse_skipped")
        for w in LOCATIONS:
            a, wa = loc_render(t0, n, {"wght": w})
            b, wb = loc_render(t1, n, {"wght": w})
            bump("var_location_renderings_compared")
            bump("remaining_glyphs_compared")
            if abs(wa - wb) > 1.0:
                violations.append({"mech": "var_advance_changed", "detail": {
                    "glyph": n, "wght": w, "plain": wa, "skip": wb}})
            # each compile rounds every master's coordinates once (<= 1/2 each); offsets of
            # nested references are rounded per level in the composite form
            why = match_tt([(p, 1.25, False) for p, _e, _m in a], [(p, 1.25, False) for p, _e, _m in b])
            if why and "no counterpart" in why:
                # a contour whose last point lies within a unit of its first one: once the
                # inlined copy is rounded to integers the two coincide and the closing point is
                # dropped (5 points against 4) - compare with such neighbours merged on both sides
                why2 = match_tt([(_merge_close(p), 1.25, False) for p, _e, _m in a],
                                [(_merge_close(p), 1.25, False) for p, _e, _m in b])
                if why2 is None:
                    bump("var_renderings_equal_after_merging_coinciding_neighbours")
                    why = None
            if why:
                violations.append({"mech": "var_rendering_changed", "detail": {
                    "glyph": n, "wght": w, "why": why, "references_skipped": sorted(hit),
                    "sparse_masters": case["sparse"],
                    "plain": str([[(round(x, 2), round(y, 2)) for x, y, _k in p] for p, _e, _m in a])[:600],
                    "skip": str([[(round(x, 2), round(y, 2)) for x, y, _k in p] for p, _e, _m in b])[:600]}})
                break
    return {"status": "violated" if violations else "held", "violations": violations[:10],
            "counters": counters, "nontrivial": nontrivial}


def tie_equal(glyphs, name, a, b):
    """Two contour multisets that differ only in coordinates whose exact value (exact-rational
    resolution of the source) lies on a rounding boundary: |difference| = 1 and the pair is
    {floor, ceil} of such a value."""
    from fractions import Fraction
    import math
    ties = set()
    # exact outline as the CFF compiler sees it (quadratic runs elevated to cubics: the derived
    # control points can sit on a boundary too)
    for start, segs in R.ref_cycles(R.resolve(glyphs, name)):
        for p in [start] + [q for sg in segs for q in sg[1:]]:
            for v in p[:2]:
                v = Fraction(v)
                if abs((v - math.floor(v)) - Fraction(1, 2)) < Fraction(1, 10 ** 6):
                    ties.add((math.floor(v), math.floor(v) + 1))
    if not ties or len(a) != len(b):
        return False

    def flat(c):
        out = []
        for seg in c:
            for part in seg:
                if isinstance(part, str):
                    out.append(part)
                else:
                    out.extend(part)
        return out
    fa, fb = [flat(c) for c in a], [flat(c) for c in b]
    used = [False] * len(fb)
    for x in fa:
        ok = False
        for j, y in enumerate(fb):
            if used[j] or len(x) != len(y):
                continue
            if all(u == v or (not isinstance(u, str) and not isinstance(v, str)
                              and (min(u, v), max(u, v)) in ties) for u, v in zip(x, y)):
                used[j] = True
                ok = True
                break
        if not ok:
            return False
    return True


def closure_refs(glyphs, name, seen=None):
    seen = seen if seen is not None else set()
    for c in glyphs[name].get("components", []):
        if c["base"] in glyphs and c["base"] not in seen:
            seen.add(c["base"])
            closure_refs(glyphs, c["base"], seen)
    return seen


def run(case):
    counters = {}

    def bump(k, n=1):
        counters[k] = counters.get(k, 0) + n

    if case["stratum"] == "varsparse":
        return run_varsparse(case)
    spec = case["ufo"]
    skip = set(case["skip"])
    glyphs = {g["name"]: g for g in spec["glyphs"]}
    try:
        plain = compile_pair(case, False)
    except Exception:  # noqa: BLE001
        return {"status": "inconclusive", "counters": {"noskip_compile_failed": 1},
                "note": traceback.format_exc()[-1500:]}
    try:
        skipped = compile_pair(case, True)
    except Exception:  # noqa: BLE001
        return {"status": "violated", "counters": counters, "violations": [
            {"mech": "skip_compile_exception", "detail": {"trace": traceback.format_exc()[-2500:]}}]}
    bump("pairs_compiled")
    if case.get("named_layer"):
        bump("static_compiles_of_a_named_layer")
    bump("ttf_cases" if case["fmt"] == "ttf" else "otf_cases")
    if case["delivery"] == "both":
        bump("arg_overrides_lib")
    if case.get("hand_drawn_in_second_master"):
        bump("glyph_composite_in_one_master_drawn_in_the_other")
    if case.get("ufo_lib_decoy") and case["delivery"] == "dslib":
        bump("designspace_paths_with_a_skip_list_in_a_master_lib_only")
    if case.get("only_skipped_categorised"):
        bump("categories_mention_only_skipped_glyphs")
    if case["delivery"] == "ufolibs":
        bump("master_list_lib_union_cases")
        if case.get("ufolibs_cut", 0) < len(case["skip"]):
            bump("master_list_names_listed_by_second_master_only")
    violations = []
    refs = {n: closure_refs(glyphs, n) for n in glyphs}
    nontrivial = False
    for fi, (t0, t1) in enumerate(zip(plain, skipped)):
        o0, o1 = t0.getGlyphOrder(), t1.getGlyphOrder()
        bump("skipped_absent_checked")
        present = [n for n in o1 if n in skip]
        if present:
            violations.append({"mech": "skipped_glyph_in_order", "detail": {"font": fi,
                                                                           "glyphs": present}})
        if "cmap" in t1:
            bad = sorted({n for st in t1["cmap"].tables if hasattr(st, "cmap")
                          for n in st.cmap.values() if n in skip})
            if bad:
                violations.append({"mech": "skipped_glyph_in_cmap", "detail": {"glyphs": bad}})
            c0 = {cp: n for cp, n in t0.getBestCmap().items() if n not in skip}
            c1 = dict(t1.getBestCmap())
            if c0 != c1:
                violations.append({"mech": "cmap_changed_for_remaining", "detail": {
                    "only_plain": sorted(set(c0.items()) - set(c1.items()))[:5],
                    "only_skip": sorted(set(c1.items()) - set(c0.items()))[:5]}})
        if any(n in skip for n in t1["hmtx"].metrics):
            violations.append({"mech": "skipped_glyph_in_hmtx", "detail": {}})
        exp_order = [n for n in o0 if n not in skip]
        if o1 != exp_order:
            violations.append({"mech": "relative_order_changed", "detail": {
                "expected": exp_order, "got": o1}})
            continue
        for n in o1:
            if n not in glyphs:
                continue
            bump("remaining_glyphs_compared")
            if refs[n] & skip:
                bump("glyphs_referencing_skipped")
                nontrivial = True
                direct = {c["base"] for c in glyphs[n]["components"]}
                if (refs[n] & skip) - direct or any(
                        refs[s] & skip for s in direct & skip):
                    bump("nested_skip_chains")
                for c in glyphs[n]["components"]:
                    t = c["t"]
                    if c["base"] in skip and t[0] * t[3] - t[1] * t[2] < 0:
                        bump("mirrored_refs_to_skipped")
            if t0["hmtx"][n][0] != t1["hmtx"][n][0]:
                violations.append({"mech": "advance_changed", "detail": {
                    "glyph": n, "plain": t0["hmtx"][n][0], "skip": t1["hmtx"][n][0]}})
            if "glyf" in t0:
                # any mirroring reference at any depth (two mirrors that cancel for the exact
                # outline do not cancel in TrueType: a reference that is inlined is reversed, one
                # that stays a composite - or is decomposed by the glyf builder - is not)
                mirrored = any(c["t"][0] * c["t"][3] - c["t"][1] * c["t"][2] < 0
                               for m_ in [n] + sorted(refs[n]) if m_ in glyphs
                               for c in glyphs[m_]["components"])
                why = match_tt(tt_render(t0, n), tt_render(t1, n), any_direction=mirrored)
                if why and case["stratum"] in ("static", "interpolatable", "variable"):
                    try:
                        # (the second font of the interpolatable stratum is the second master)
                        gsrc = glyphs
                        if case["stratum"] == "interpolatable" and fi == 1:
                            gsrc = {g["name"]: g for g in second_master(spec)["glyphs"]}
                        tp = tie_pairs(gsrc, n)
                    except Exception:  # noqa: BLE001
                        tp = set()
                    if tp and match_tt(tt_render(t0, n), tt_render(t1, n),
                                       any_direction=mirrored, ties=tp) is None:
                        bump("ttf_equal_up_to_half_ties")
                        why = None
                if why:
                    violations.append({"mech": "ttf_rendering_changed", "detail": {
                        "glyph": n, "font": fi, "why": why}})
            else:
                a, b = otf_render(t0, n), otf_render(t1, n)
                gsrc = glyphs
                if case["stratum"] == "interpolatable" and fi == 1:
                    gsrc = {g["name"]: g for g in second_master(spec)["glyphs"]}
                if a != b and tie_equal(gsrc, n, a, b):
                    # (the two compiles reach the same outline through different float
                    # operations - inlining a reference changes the order of the matrix
                    # products: a coordinate within 10^-6 of x.5 may round either way, DESIGN 4.2)
                    bump("otf_equal_up_to_half_ties")
                elif a != b:
                    violations.append({"mech": "otf_contours_changed", "detail": {
                        "glyph": n, "font": fi, "plain": str(a)[:700], "skip": str(b)[:700]}})
        # ---------------- layout
        g0, g1 = Gpos(t0), Gpos(t1)
        if g1.graph:
            seen = set()
            for lk in g1.lookups:
                for role, gl in otl.gpos_lookup_glyphs(lk).items():
                    seen |= set(gl)
            if seen & skip:
                violations.append({"mech": "skipped_glyph_in_gpos", "detail": {
                    "glyphs": sorted(seen & skip)}})
        cls1 = otl.gdef_classes(t1)
        if set(cls1) & skip:
            violations.append({"mech": "skipped_glyph_in_gdef", "detail": {
                "glyphs": sorted(set(cls1) & skip)}})
        if g0.graph and g1.graph:
            tags = [t for t in g0.script_tags() if t in g1.script_tags()]
            rem = [n for n in o1 if n in glyphs][:16]
            for tag in tags:
                for a in rem:
                    for b in rem:
                        r0, r1 = g0.pair(a, b, tag), g1.pair(a, b, tag)
                        bump("kerning_pairs_compared")
                        if (r0["xadv"], r0["xpla"]) != (r1["xadv"], r1["xpla"]):
                            k0 = bool(g0.lookup_indices(tag, ("kern", "dist")))
                            k1 = bool(g1.lookup_indices(tag, ("kern", "dist")))
                            violations.append({"mech": "kerning_changed", "detail": {
                                "pair": [a, b], "tag": tag, "plain": [r0["xadv"], r0["xpla"]],
                                "skip": [r1["xadv"], r1["xpla"]],
                                "kern_registered": [k0, k1]}})
                        m0, m1 = g0.attach(a, b, tag), g1.attach(a, b, tag)
                        bump("mark_pairs_compared")
                        if m0["offset"] != m1["offset"]:
                            violations.append({"mech": "mark_attachment_changed", "detail": {
                                "base": a, "mark": b, "tag": tag, "plain": m0["offset"],
                                "skip": m1["offset"]}})
                    if len(violations) > 10:
                        break
                if len(violations) > 10:
                    break
        elif g0.graph and not g1.graph:
            # GPOS may legitimately vanish when every kerned / anchored glyph is skipped
            rem = [n for n in o1 if n in glyphs]
            for tag in g0.script_tags():
                for a in rem:
                    for b in rem:
                        r0 = g0.pair(a, b, tag)
                        if r0["xadv"] or g0.attach(a, b, tag)["offset"] is not None:
                            violations.append({"mech": "gpos_lost", "detail": {"pair": [a, b]}})
                            break
                    if violations:
                        break
                if violations:
                    break
    for gname, members in spec["groups"].items():
        if set(members) & skip:
            bump("skipped_group_members")
    return {"status": "violated" if violations else "held", "violations": violations[:10],
            "counters": counters, "nontrivial": nontrivial}


def inlined_scale_overflows(glyphs, name, skip, factor=1.0):
    """After references to skipped glyphs are replaced by their content, does `name` reference a
    kept glyph with a 2x2 part beyond what a TrueType composite can store (|entry| > 2)?"""
    for c in glyphs[name].get("components", []):
        t = c["t"]
        f = factor * max(abs(t[0]), abs(t[1]), abs(t[2]), abs(t[3]))
        if c["base"] in skip and c["base"] in glyphs:
            if inlined_scale_overflows(glyphs, c["base"], skip, f):
                return True
        elif factor != 1.0 and f > 2 + 1e-9:
            return True
    return False


def classify(v, case):
    det = v["detail"]
    if v["mech"] == "var_rendering_changed" and case.get("fmt") == "ttf":
        glyphs = {g["name"]: g for g in case["ds"]["ufos"][0]["glyphs"]}
        if inlined_scale_overflows(glyphs, det["glyph"], set(case["skip"])):
            return "inlined_reference_overflows_f2dot14_decomposed_without_sparse_master"
    if v["mech"] == "kerning_changed" and det.get("kern_registered") == [True, False]:
        # the kern writer registers its lookups under a script tag only when that script has
        # kerning of its own; once the skipped glyphs take the script's last kerned glyph away the
        # tag (still present through the languagesystem-driven mark feature) no longer reaches the
        # shared 'Default' kerning of the remaining script-neutral glyphs
        if det["skip"] == [0, 0]:
            return "default_kerning_unreachable_once_script_has_no_kerning_of_its_own"
    return None
