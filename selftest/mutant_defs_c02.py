def define(M):
    M("C02", "conversion_error_x10", "Lib/ufo2ft/filters/cubicToQuadratic.py",
      "        ctx.absoluteError = relativeError * getAttrWithFallback(font.info, \"unitsPerEm\")",
      "        ctx.absoluteError = 10 * relativeError * getAttrWithFallback(font.info, \"unitsPerEm\")", cases=480)
    M("C02", "plain_reversal_dropped", "Lib/ufo2ft/preProcessor.py",
      "        elif reverseDirection:\n            from ufo2ft.filters.reverseContourDirection import (\n                ReverseContourDirectionFilter,\n            )\n\n            filters.append(ReverseContourDirectionFilter(include=lambda g: len(g)))\n        return filters",
      "        elif reverseDirection:\n            pass\n        return filters", cases=480)
    M("C02", "flatten_order_swapped", "Lib/ufo2ft/filters/flattenComponents.py",
      "            flat_tr = flat_tr.translate(tr.dx, tr.dy)\n            flat_tr = flat_tr.transform((tr.xx, tr.xy, tr.yx, tr.yy, 0, 0))",
      "            flat_tr = flat_tr.transform((tr.xx, tr.xy, tr.yx, tr.yy, 0, 0))\n            flat_tr = flat_tr.translate(tr.dx, tr.dy)", cases=480)
    M("C02", "mixed_include_inverted", "Lib/ufo2ft/preProcessor.py",
      "        filters.append(DecomposeComponentsFilter(include=lambda g: len(g)))\n\n        if flattenComponents:",
      "        filters.append(DecomposeComponentsFilter(include=lambda g: not len(g)))\n\n        if flattenComponents:", cases=480)
    M("C02", "reverse_ignored_in_cu2qu", "Lib/ufo2ft/filters/cubicToQuadratic.py",
      "            reverse_direction=self.options.reverseDirection,",
      "            reverse_direction=True,", cases=480)
    M("C02", "flatten_skips_deep", "Lib/ufo2ft/filters/flattenComponents.py",
      "    for nested in glyph.components:\n        flattened_components = _flattenComponent(glyphSet, nested, found_in=glyph)",
      "    for nested in glyph.components:\n        flattened_components = [(nested.baseGlyph, Transform(*nested.transformation))]", cases=480)
