"""R-info: where every UFO3 font-info attribute ends up in an OpenType font, and what fills the
field when the attribute is absent.

Written from the UFO3 fontinfo.plist specification, the OpenType specification and the
*docstrings* of ufo2ft.fontInfoData (the "documented fallbacks"); it imports nothing from ufo2ft.

All arithmetic is exact (fractions.Fraction; JSON floats are taken as the exact binary rational
they are).  Every expectation is a SET of admissible values:

* explicit value -> exactly otround(v) = floor(v + 1/2) for integral fields (strict, also at x.5);
* documented fallback -> the documented formula; where the formula multiplies by a decimal
  constant (0.8, 0.05 ...) and the exact result is a rounding tie, both neighbours are admissible
  (binary floating point may land on either side); where the documentation leaves a choice open
  (e.g. "UPM * 1.2 - ascender + descender" with or without truncating UPM*1.2 first, stripped or
  unstripped concatenations) every reading is admissible.
"""
import calendar
import math
import unicodedata
from fractions import Fraction as Fr

# ------------------------------------------------------------------ PostScript name alphabet
PS_SPECIALS = set("[](){}<>/%")


def ps_char_ok(c):
    """printable ASCII 33..126 minus the PostScript delimiters"""
    return 33 <= ord(c) <= 126 and c not in PS_SPECIALS


def ps_offending(s):
    """characters of s that may not occur in a PostScript font name (in order, with repeats)"""
    return [c for c in s if not ps_char_ok(c)]


def is_ps_hazard_char(c):
    """Input characters for which the design-round probe found the generated PostScript name to
    keep a forbidden character: the character is not itself in 33..126, it is not one of the
    characters removed up front (space, delimiters) and its compatibility decomposition contains
    an ASCII character that is not allowed in a PostScript name.  (Stated with unicodedata only -
    used by the generator to keep the default stratum clean and by classify().)"""
    if 33 <= ord(c) <= 126 or c == " ":
        return False
    return any(ord(d) < 128 and not ps_char_ok(d) for d in unicodedata.normalize("NFKD", c))


def offending_from_nfkd(source, offending):
    """True iff every offending output character occurs in the NFKD decomposition of a source
    character that had to be reduced (lies outside printable ASCII 33..126 and is not the plain
    blank, which is removed up front) and whose decomposition contains a forbidden character."""
    pool = set()
    for c in source:
        if is_ps_hazard_char(c):
            pool.update(unicodedata.normalize("NFKD", c))
    return bool(offending) and all(o in pool for o in offending)


def is_subsequence(needle, hay):
    it = iter(hay)
    return all(ch in it for ch in needle)


def xml_char_ok(c):
    """characters an XML 1.0 property list (fontinfo.plist) can hold"""
    o = ord(c)
    return o in (9, 10, 13) or 0x20 <= o <= 0xD7FF or 0xE000 <= o <= 0xFFFD or o >= 0x10000


# ------------------------------------------------------------------ numbers
def fr(v):
    if isinstance(v, bool):
        return Fr(int(v))
    return Fr(v)


def otround(x):
    return math.floor(Fr(x) + Fr(1, 2))


class Num:
    """candidate effective value: exact rational + whether a decimal-constant product went in"""
    __slots__ = ("v", "inexact")

    def __init__(self, v, inexact=False):
        self.v = Fr(v)
        self.inexact = inexact

    def __repr__(self):
        return "Num(%s%s)" % (float(self.v), "~" if self.inexact else "")


def _long(v):
    """a binary fraction too long for sums and differences of it to stay exact in double
    precision with certainty (x.5, x.25 ... x.001953125 are short)"""
    return v.denominator > 1024


def rounds(cands):
    """admissible stored integers for a list of Num candidates"""
    out = set()
    for c in cands:
        r = otround(c.v)
        out.add(r)
        if c.inexact:
            lo = math.floor(c.v)
            if abs(c.v - (lo + Fr(1, 2))) < Fr(1, 10 ** 6):
                out.update((lo, lo + 1))
    return out


def mask(bits):
    m = 0
    for b in set(bits):
        m |= 1 << int(b)
    return m


STYLE_TITLES = {"regular": "Regular", "bold": "Bold", "italic": "Italic",
                "bold italic": "Bold Italic"}
MAC_EPOCH_DIFF = calendar.timegm((1904, 1, 1, 0, 0, 0, 0, 0, 0))   # negative


class Exp:
    """one expectation: table.field must be in `ok` (set) / within tol of a float / a string set"""

    def __init__(self, table, field, attr, how, ok=None, approx=None, tol=0.0, note=None):
        self.table, self.field, self.attr, self.how = table, field, attr, how
        self.ok, self.approx, self.tol, self.note = ok, approx, tol, note

    def accepts(self, got):
        if self.approx is not None:
            try:
                return any(abs(float(got) - a) <= self.tol + 1e-6 * abs(a) for a in self.approx)
            except (TypeError, ValueError):
                return False
        return got in self.ok

    def show(self):
        if self.approx is not None:
            return {"approx": self.approx, "tol": self.tol}
        return sorted(self.ok, key=repr)[:8]


class Ref:
    def __init__(self, info, epoch=None):
        self.i = {k: v for k, v in info.items() if v is not None}
        self.epoch = epoch
        self._memo = {}

    # ---------------------------------------------------------- effective numeric values
    def has(self, a):
        return a in self.i

    def how(self, a):
        return "explicit" if a in self.i else "fallback"

    def n(self, a):
        """list of Num candidates for the effective (unrounded) value of numeric attribute a"""
        if a in self._memo:
            return self._memo[a]
        if a in self.i:
            r = [Num(fr(self.i[a]))]
        else:
            r = getattr(self, "_fb_" + a)()
        self._memo[a] = r
        return r

    def _const(self, a, value):
        return [Num(value)]

    def _fb_unitsPerEm(self):
        return [Num(1000)]

    def _upm_times(self, frac, sign=1):
        # fallback = round(constant * upm); the fallback itself is an integer
        out = set()
        for u in self.n("unitsPerEm"):
            for r in rounds([Num(u.v * frac, True)]):
                out.add(sign * r)
        return [Num(v) for v in sorted(out)]

    def _fb_ascender(self):
        return self._upm_times(Fr(4, 5))

    def _fb_descender(self):
        return self._upm_times(Fr(1, 5), -1)

    def _fb_capHeight(self):
        return self._upm_times(Fr(7, 10))

    def _fb_xHeight(self):
        return self._upm_times(Fr(1, 2))

    def _fb_italicAngle(self):
        return [Num(0)]

    def _fb_openTypeOS2TypoLineGap(self):
        # "UPM * 1.2 - ascender + descender, or zero if that's negative" (UPM*1.2 possibly
        # truncated to an integer first: both readings admissible)
        out = {}
        for u in self.n("unitsPerEm"):
            x = u.v * Fr(6, 5)
            tops = {(x, True), (Fr(math.floor(x)), False)}
            if x.denominator == 1:
                tops.add((x - 1, False))
            for top, inexact in tops:
                for a in self.n("ascender"):
                    for d in self.n("descender"):
                        v = max(top - a.v + d.v, Fr(0))
                        ix = inexact or a.inexact or d.inexact or _long(a.v) or _long(d.v)
                        out[(v, ix)] = Num(v, ix)
        return list(out.values())

    def _sum(self, a, b):
        out = {}
        for x in self.n(a):
            for y in self.n(b):
                ix = x.inexact or y.inexact or _long(x.v) or _long(y.v)
                out[(x.v + y.v, ix)] = Num(x.v + y.v, ix)
        return list(out.values())

    def _fb_openTypeHheaAscender(self):
        return self._sum("ascender", "openTypeOS2TypoLineGap")

    def _fb_openTypeOS2WinAscent(self):
        return self._sum("ascender", "openTypeOS2TypoLineGap")

    def _fb_openTypeHheaDescender(self):
        return self.n("descender")

    def _fb_openTypeOS2TypoAscender(self):
        return self.n("ascender")

    def _fb_openTypeOS2TypoDescender(self):
        return self.n("descender")

    def _fb_openTypeOS2WinDescent(self):
        return [Num(abs(d.v), d.inexact) for d in self.n("descender")]

    def _fb_openTypeHheaLineGap(self):
        return [Num(0)]

    def _fb_openTypeHheaCaretOffset(self):
        return [Num(0)]

    def _fb_openTypeVheaCaretSlopeRise(self):
        return [Num(0)]

    def _fb_openTypeVheaCaretSlopeRun(self):
        return [Num(1)]

    def _fb_openTypeVheaCaretOffset(self):
        return [Num(0)]

    def _fb_openTypeHeadLowestRecPPEM(self):
        return [Num(6)]

    def _fb_openTypeOS2WeightClass(self):
        return [Num(400)]

    def _fb_openTypeOS2WidthClass(self):
        return [Num(5)]

    def _fb_postscriptUnderlineThickness(self):
        return [Num(u.v * Fr(1, 20), True) for u in self.n("unitsPerEm")]

    def _fb_postscriptUnderlinePosition(self):
        return [Num(u.v * Fr(-3, 40), True) for u in self.n("unitsPerEm")]

    def _fb_postscriptBlueFuzz(self):
        return [Num(0)]

    def _fb_postscriptBlueShift(self):
        return [Num(7)]

    def _tan(self):
        """tan(-italicAngle) as float, or None when the angle is 0"""
        ang = self.n("italicAngle")[0].v
        if ang == 0:
            return None
        return math.tan(math.radians(-float(ang)))

    def _fb_openTypeHheaCaretSlopeRise(self):
        # angle 0 -> UPM; else from an explicit run: run / tan(-angle); else UPM
        t = self._tan()
        if t is not None and self.has("openTypeHheaCaretSlopeRun"):
            v = float(fr(self.i["openTypeHheaCaretSlopeRun"])) / t
            return [Num(r) for r in sorted(rounds([Num(Fr(v), True)]))]
        return self.n("unitsPerEm")

    def _fb_openTypeHheaCaretSlopeRun(self):
        t = self._tan()
        if t is None:
            return [Num(0)]
        out = set()
        for rise in self.n("openTypeHheaCaretSlopeRise"):
            out.update(rounds([Num(Fr(t * float(rise.v)), True)]))
        return [Num(r) for r in sorted(out)]

    # OS/2 sub/superscript + strikeout (AFDKO makeotf rules, scaled by UPM)
    def _fb_openTypeOS2SubscriptXSize(self):
        return [Num(u.v * Fr(13, 20), True) for u in self.n("unitsPerEm")]

    def _fb_openTypeOS2SubscriptYSize(self):
        return [Num(u.v * Fr(3, 5), True) for u in self.n("unitsPerEm")]

    def _fb_openTypeOS2SubscriptYOffset(self):
        return [Num(u.v * Fr(3, 40), True) for u in self.n("unitsPerEm")]

    def _fb_openTypeOS2SuperscriptYOffset(self):
        return [Num(u.v * Fr(7, 20), True) for u in self.n("unitsPerEm")]

    def _slanted(self, attr, sign):
        t = self._tan()
        if t is None:
            return [Num(0)]
        out = []
        for stored in sorted(rounds(self.n(attr))):
            out.append(Num(Fr(sign * stored * t), True))
        return out

    def _fb_openTypeOS2SubscriptXOffset(self):
        return self._slanted("openTypeOS2SubscriptYOffset", -1)

    def _fb_openTypeOS2SuperscriptXOffset(self):
        return self._slanted("openTypeOS2SuperscriptYOffset", 1)

    def _fb_openTypeOS2SuperscriptXSize(self):
        # same as the subscript size (makeotf uses the same constant for both; ufo2ft copies the
        # stored subscript value): both admissible
        return ([Num(r) for r in sorted(rounds(self.n("openTypeOS2SubscriptXSize")))]
                + self._fb_openTypeOS2SubscriptXSize())

    def _fb_openTypeOS2SuperscriptYSize(self):
        return ([Num(r) for r in sorted(rounds(self.n("openTypeOS2SubscriptYSize")))]
                + self._fb_openTypeOS2SubscriptYSize())

    def _fb_openTypeOS2StrikeoutSize(self):
        return self.n("postscriptUnderlineThickness")

    def _fb_openTypeOS2StrikeoutPosition(self):
        out = []
        for x in self.n("xHeight"):
            if x.v != 0:
                out.append(Num(x.v * Fr(3, 5), True))
            else:
                out.extend(Num(u.v * Fr(11, 50), True) for u in self.n("unitsPerEm"))
        return out

    # ---------------------------------------------------------- strings
    def s(self, a, default=None):
        v = self.i.get(a)
        return v if v is not None else default

    def family(self):
        return self.s("familyName", "New Font")

    def style(self):
        return self.s("styleName", "Regular")

    def pref_family(self):
        return self.s("openTypeNamePreferredFamilyName", self.family())

    def pref_sub(self):
        return self.s("openTypeNamePreferredSubfamilyName", self.style())

    def style_map_style(self):
        """set of admissible effective styleMapStyleName values"""
        v = self.s("styleMapStyleName")
        if v:
            return {v}
        ps = self.pref_sub()
        if ps.lower() in STYLE_TITLES:
            return {ps.lower()}
        if ps.strip().lower() in STYLE_TITLES:
            return {ps.strip().lower(), "regular"}
        return {"regular"}

    def style_map_family(self):
        v = self.s("styleMapFamilyName")
        if v is not None:
            return {v}
        fam = self.pref_family()
        out = set()
        sms = self.s("styleMapStyleName")
        ps = sms if sms else self.pref_sub()
        if ps.lower() in STYLE_TITLES:
            cands = [fam]
        elif ps.strip().lower() in STYLE_TITLES:
            cands = [fam, fam + " " + ps]
        else:
            cands = [fam + " " + ps]
        for c in cands:
            out.update((c, c.strip()))
        return out

    def version_string(self):
        v = self.s("openTypeNameVersion")
        if v is not None:
            return v
        major = int(self.i.get("versionMajor", 0))
        minor = int(self.i.get("versionMinor", 0))
        return "Version %d.%s" % (major, str(minor).rjust(3, "0"))

    def vendor(self):
        return self.s("openTypeOS2VendorID", "NONE")

    def psname_source(self):
        return self.pref_family() + "-" + self.pref_sub()

    def psname_exact(self):
        """exact expected PostScript name where the documentation pins it: explicit value, or a
        pure printable-ASCII source with spaces and delimiters removed; else None"""
        v = self.s("postscriptFontName")
        if v is not None:
            return v
        src = self.psname_source()
        if all(32 <= ord(c) <= 126 for c in src):
            return "".join(c for c in src if ps_char_ok(c))
        return None

    def full_name(self):
        return self.pref_family() + " " + self.pref_sub()

    def ps_full_name(self):
        return self.s("postscriptFullName", self.full_name())

    def unique_id_prefixes(self):
        """admissible 'version;vendor;' prefixes of the unique-ID fallback"""
        ver = self.version_string()
        return {"%s;%s;" % (ver.replace("Version ", ""), self.vendor()),
                "%s;%s;" % (ver, self.vendor())}

    # name IDs whose value is one attribute, absent when the attribute is absent
    PLAIN_NAME_IDS = {
        0: "copyright", 7: "trademark", 8: "openTypeNameManufacturer",
        9: "openTypeNameDesigner", 10: "openTypeNameDescription",
        11: "openTypeNameManufacturerURL", 12: "openTypeNameDesignerURL",
        13: "openTypeNameLicense", 14: "openTypeNameLicenseURL",
        18: "openTypeNameCompatibleFullName", 19: "openTypeNameSampleText",
        21: "openTypeNameWWSFamilyName", 22: "openTypeNameWWSSubfamilyName",
    }

    def names(self):
        """{nameID: (set of admissible strings, absent_ok, attr, how)} for the Windows/English
        records; the PostScript name (6) and unique ID (3) are relations handled by the caller
        when they are generated rather than given."""
        out = {}
        for nid, attr in self.PLAIN_NAME_IDS.items():
            v = self.s(attr)
            if v is None:
                out[nid] = (set(), True, attr, "fallback")
            else:
                out[nid] = ({v}, v == "", attr, "explicit")
        id1 = self.style_map_family()
        id2 = {STYLE_TITLES.get(x, x.title()) for x in self.style_map_style()}
        out[1] = (id1, False, "styleMapFamilyName", self.how("styleMapFamilyName"))
        out[2] = (id2, False, "styleMapStyleName", self.how("styleMapStyleName"))
        out[4] = ({self.full_name(), self.ps_full_name()}, False, "(full name)", "fallback")
        out[5] = ({self.version_string()}, False, "openTypeNameVersion",
                  self.how("openTypeNameVersion"))
        pf, ps = self.pref_family(), self.pref_sub()
        # typographic names may be left out where they repeat the legacy names
        out[16] = ({pf}, pf in id1, "openTypeNamePreferredFamilyName",
                   self.how("openTypeNamePreferredFamilyName"))
        out[17] = ({ps}, ps in id2, "openTypeNamePreferredSubfamilyName",
                   self.how("openTypeNamePreferredSubfamilyName"))
        return out

    # ---------------------------------------------------------- table expectations
    def table_fields(self, vertical_ok=True):
        E = []

        def rnd(table, field, attr):
            E.append(Exp(table, field, attr, self.how(attr), ok=rounds(self.n(attr))))

        def asis(table, field, attr):
            E.append(Exp(table, field, attr, self.how(attr), ok={int(c.v) for c in self.n(attr)
                                                                 if c.v.denominator == 1}))

        # head
        rnd("head", "unitsPerEm", "unitsPerEm")
        rnd("head", "lowestRecPPEM", "openTypeHeadLowestRecPPEM")
        E.append(Exp("head", "flags", "openTypeHeadFlags", self.how("openTypeHeadFlags"),
                     ok={mask(self.i.get("openTypeHeadFlags", [0, 1]))}))
        major = int(self.i.get("versionMajor", 0))
        minor = int(self.i.get("versionMinor", 0))
        if 0 <= minor <= 999:
            E.append(Exp("head", "fontRevision", "versionMajor/versionMinor",
                         "explicit" if ("versionMajor" in self.i or "versionMinor" in self.i)
                         else "fallback", approx=[major + minor / 1000.0], tol=2.0 ** -16))
        created = self.s("openTypeHeadCreated")
        if created is not None:
            y, mo, rest = created.split("/")
            d, hms = rest.split(" ")
            h, mi, se = hms.split(":")
            secs = calendar.timegm((int(y), int(mo), int(d), int(h), int(mi), int(se), 0, 0, 0))
            E.append(Exp("head", "created", "openTypeHeadCreated", "explicit",
                         ok={secs - MAC_EPOCH_DIFF}))
        elif self.epoch is not None:
            E.append(Exp("head", "created", "openTypeHeadCreated", "fallback",
                         ok={int(self.epoch) - MAC_EPOCH_DIFF}, note="SOURCE_DATE_EPOCH"))
        mac = {"regular": 0, "bold": 1, "italic": 2, "bold italic": 3}
        E.append(Exp("head", "macStyle", "styleMapStyleName", self.how("styleMapStyleName"),
                     ok={mac[x] for x in self.style_map_style() if x in mac}))
        # hhea
        rnd("hhea", "ascent", "openTypeHheaAscender")
        rnd("hhea", "descent", "openTypeHheaDescender")
        rnd("hhea", "lineGap", "openTypeHheaLineGap")
        rnd("hhea", "caretSlopeRise", "openTypeHheaCaretSlopeRise")
        rnd("hhea", "caretSlopeRun", "openTypeHheaCaretSlopeRun")
        rnd("hhea", "caretOffset", "openTypeHheaCaretOffset")
        # vhea (only built when all three vertical metrics are given)
        if vertical_ok and all(self.has("openTypeVheaVertTypo" + x)
                               for x in ("Ascender", "Descender", "LineGap")):
            rnd("vhea", "ascent", "openTypeVheaVertTypoAscender")
            rnd("vhea", "descent", "openTypeVheaVertTypoDescender")
            rnd("vhea", "lineGap", "openTypeVheaVertTypoLineGap")
            rnd("vhea", "caretSlopeRise", "openTypeVheaCaretSlopeRise")
            rnd("vhea", "caretSlopeRun", "openTypeVheaCaretSlopeRun")
            rnd("vhea", "caretOffset", "openTypeVheaCaretOffset")
        # OS/2
        asis("OS/2", "usWeightClass", "openTypeOS2WeightClass")
        asis("OS/2", "usWidthClass", "openTypeOS2WidthClass")
        E.append(Exp("OS/2", "fsType", "openTypeOS2Type", self.how("openTypeOS2Type"),
                     ok={mask(self.i.get("openTypeOS2Type", [2]))}))
        for f, a in (("ySubscriptXSize", "SubscriptXSize"), ("ySubscriptYSize", "SubscriptYSize"),
                     ("ySubscriptXOffset", "SubscriptXOffset"),
                     ("ySubscriptYOffset", "SubscriptYOffset"),
                     ("ySuperscriptXSize", "SuperscriptXSize"),
                     ("ySuperscriptYSize", "SuperscriptYSize"),
                     ("ySuperscriptXOffset", "SuperscriptXOffset"),
                     ("ySuperscriptYOffset", "SuperscriptYOffset"),
                     ("yStrikeoutSize", "StrikeoutSize"),
                     ("yStrikeoutPosition", "StrikeoutPosition"),
                     ("sTypoAscender", "TypoAscender"), ("sTypoDescender", "TypoDescender"),
                     ("sTypoLineGap", "TypoLineGap"), ("usWinAscent", "WinAscent"),
                     ("usWinDescent", "WinDescent")):
            rnd("OS/2", f, "openTypeOS2" + a)
        rnd("OS/2", "sxHeight", "xHeight")
        rnd("OS/2", "sCapHeight", "capHeight")
        fc = self.i.get("openTypeOS2FamilyClass", [0, 0])
        E.append(Exp("OS/2", "sFamilyClass", "openTypeOS2FamilyClass",
                     self.how("openTypeOS2FamilyClass"), ok={fc[0] * 256 + fc[1]}))
        E.append(Exp("OS/2", "panose", "openTypeOS2Panose", self.how("openTypeOS2Panose"),
                     ok={tuple(self.i.get("openTypeOS2Panose", [0] * 10))}))
        if self.has("openTypeOS2UnicodeRanges"):
            m = mask(self.i["openTypeOS2UnicodeRanges"])
            for k in range(4):
                E.append(Exp("OS/2", "ulUnicodeRange%d" % (k + 1), "openTypeOS2UnicodeRanges",
                             "explicit", ok={(m >> (32 * k)) & 0xFFFFFFFF}))
        if self.has("openTypeOS2CodePageRanges"):
            m = mask(self.i["openTypeOS2CodePageRanges"])
            for k in range(2):
                E.append(Exp("OS/2", "ulCodePageRange%d" % (k + 1), "openTypeOS2CodePageRanges",
                             "explicit", ok={(m >> (32 * k)) & 0xFFFFFFFF}))
        E.append(Exp("OS/2", "achVendID", "openTypeOS2VendorID", self.how("openTypeOS2VendorID"),
                     ok={self.vendor() + " " * (4 - len(self.vendor()))}))
        stylebits = {"regular": 1 << 6, "bold": 1 << 5, "italic": 1, "bold italic": 1 | (1 << 5)}
        sel = mask(self.i.get("openTypeOS2Selection", []))
        E.append(Exp("OS/2", "fsSelection", "openTypeOS2Selection+styleMapStyleName",
                     "explicit" if (self.has("openTypeOS2Selection")
                                    or self.has("styleMapStyleName")) else "fallback",
                     ok={sel | stylebits[x] for x in self.style_map_style() if x in stylebits}))
        # post
        E.append(Exp("post", "italicAngle", "italicAngle", self.how("italicAngle"),
                     approx=[float(self.n("italicAngle")[0].v)], tol=2.0 ** -16))
        rnd("post", "underlinePosition", "postscriptUnderlinePosition")
        rnd("post", "underlineThickness", "postscriptUnderlineThickness")
        E.append(Exp("post", "isFixedPitch", "postscriptIsFixedPitch",
                     self.how("postscriptIsFixedPitch"),
                     ok={int(bool(self.i.get("postscriptIsFixedPitch", False)))}))
        return E

    def gasp(self):
        recs = self.i.get("openTypeGaspRangeRecords")
        if not recs:
            return None
        return {int(r["rangeMaxPPEM"]): mask(r["rangeGaspBehavior"]) for r in recs}

    def cff_top_fields(self):
        E = []
        E.append(Exp("CFF", "isFixedPitch", "postscriptIsFixedPitch",
                     self.how("postscriptIsFixedPitch"),
                     ok={int(bool(self.i.get("postscriptIsFixedPitch", False)))}))
        ang = float(self.n("italicAngle")[0].v)
        E.append(Exp("CFF", "ItalicAngle", "italicAngle", self.how("italicAngle"),
                     approx=[ang], tol=1e-4))
        E.append(Exp("CFF", "UnderlinePosition", "postscriptUnderlinePosition",
                     self.how("postscriptUnderlinePosition"),
                     ok=rounds(self.n("postscriptUnderlinePosition"))))
        E.append(Exp("CFF", "UnderlineThickness", "postscriptUnderlineThickness",
                     self.how("postscriptUnderlineThickness"),
                     ok=rounds(self.n("postscriptUnderlineThickness"))))
        return E

    def font_matrix_scale(self):
        return [1.0 / r for r in rounds(self.n("unitsPerEm")) if r]

    def cff_private(self):
        """expectations for the Private dict hint data, or {} when nothing has to be there"""
        out = {}
        lists = {}
        for attr, key in (("postscriptBlueValues", "BlueValues"),
                          ("postscriptOtherBlues", "OtherBlues"),
                          ("postscriptFamilyBlues", "FamilyBlues"),
                          ("postscriptFamilyOtherBlues", "FamilyOtherBlues"),
                          ("postscriptStemSnapH", "StemSnapH"),
                          ("postscriptStemSnapV", "StemSnapV")):
            v = self.i.get(attr) or []
            lists[key] = [otround(fr(x)) for x in v]
        if any(lists[k] for k in ("BlueValues", "OtherBlues", "FamilyBlues", "FamilyOtherBlues")):
            for k in ("BlueValues", "OtherBlues", "FamilyBlues", "FamilyOtherBlues"):
                if lists[k]:
                    out[k] = lists[k]
            out["BlueFuzz"] = rounds(self.n("postscriptBlueFuzz"))
            out["BlueShift"] = rounds(self.n("postscriptBlueShift"))
            if self.has("postscriptBlueScale"):
                out["BlueScale"] = float(self.i["postscriptBlueScale"])
            if self.has("postscriptForceBold"):
                out["ForceBold"] = int(bool(self.i["postscriptForceBold"]))
        if lists["StemSnapH"] and lists["StemSnapV"]:
            out["StemSnapH"] = lists["StemSnapH"]
            out["StemSnapV"] = lists["StemSnapV"]
        return out
