def define(M):
    # ---------------- C16 ----------------
    FID = "Lib/ufo2ft/fontInfoData.py"
    OC = "Lib/ufo2ft/outlineCompiler.py"
    IC = "Lib/ufo2ft/infoCompiler.py"
    # a fallback factor changed
    M("C16", "ascender_factor_075", FID,
      "    return otRound(upm * 0.8)", "    return otRound(upm * 0.75)")
    # explicit openTypeOS2TypoLineGap ignored (copy/paste of the wrong attribute name)
    M("C16", "typolinegap_wrong_attr", OC,
      '            getAttrWithFallback(font.info, "openTypeOS2TypoLineGap")\n        )\n'
      "        os2.usWinAscent",
      '            getAttrWithFallback(font.info, "openTypeHheaLineGap")\n        )\n'
      "        os2.usWinAscent")
    # typographic names dropped when only ONE of them repeats the legacy name
    M("C16", "name_16_17_elision_or", OC,
      "        if nameVals[1] == nameVals[16] and nameVals[2] == nameVals[17]:",
      "        if nameVals[1] == nameVals[16] or nameVals[2] == nameVals[17]:")
    # usWinDescent keeps the sign of the descender
    M("C16", "windescent_sign", FID,
      '    return abs(getAttrWithFallback(info, "descender"))',
      '    return getAttrWithFallback(info, "descender")')
    # an integral field truncated instead of rounded
    M("C16", "xheight_truncated", OC,
      '        os2.sxHeight = otRound(getAttrWithFallback(font.info, "xHeight"))',
      '        os2.sxHeight = int(getAttrWithFallback(font.info, "xHeight"))')
    # banker's rounding instead of otRound (differs only at x.5)
    M("C16", "underline_round_builtin", OC,
      "        post.underlinePosition = otRound(underlinePosition)",
      "        post.underlinePosition = round(underlinePosition)")
    # fsType: bits 8 and 9 lost
    M("C16", "fstype_low_byte_only", OC,
      '            getAttrWithFallback(font.info, "openTypeOS2Type"), 0, 16\n',
      '            getAttrWithFallback(font.info, "openTypeOS2Type"), 0, 8\n')
    # style-map style derived case-sensitively ("Bold" -> regular)
    M("C16", "stylemap_case_sensitive", FID,
      "    elif styleName.strip().lower() not in _styleMapStyleNames:",
      "    elif styleName.strip() not in _styleMapStyleNames:")
    # variable-font override of sTypoLineGap not copied to the final font
    M("C16", "vf_override_typolinegap_dropped", IC,
      '                "sTypoLineGap",\n', "")
    # CFF FullName takes the family name only
    M("C16", "cff_fullname_family_only", OC,
      '        topDict.FullName = getAttrWithFallback(info, "postscriptFullName")',
      '        topDict.FullName = getAttrWithFallback(info, "openTypeNamePreferredFamilyName")')
    # macStyle italic bit wrong
    M("C16", "macstyle_italic_bit", OC,
      '        elif styleMapStyleName == "italic":\n            macStyle = [1]',
      '        elif styleMapStyleName == "italic":\n            macStyle = [2]')
    # '%' no longer removed from PostScript names
    M("C16", "psname_percent_allowed", FID,
      '_postscriptFontNameExceptions = set("[](){}<>/%")',
      '_postscriptFontNameExceptions = set("[](){}<>/")')
    # caret slope run derived with the wrong sign of the angle
    M("C16", "caret_run_sign", FID,
      "        return otRound(math.tan(math.radians(-italicAngle)) * slopeRise)",
      "        return otRound(math.tan(math.radians(italicAngle)) * slopeRise)")
    # unique-ID fallback built from the family name instead of the PostScript name
    M("C16", "uniqueid_uses_family", FID,
      '    fontName = getAttrWithFallback(info, "postscriptFontName")\n    return f"{version};',
      '    fontName = getAttrWithFallback(info, "familyName")\n    return f"{version};')
    # underline thickness fallback 0.05 -> 0.04
    M("C16", "underline_thickness_factor", FID,
      '    return getAttrWithFallback(info, "unitsPerEm") * 0.05',
      '    return getAttrWithFallback(info, "unitsPerEm") * 0.04')
    # explicit head.created ignored in favour of "now"/SOURCE_DATE_EPOCH
    M("C16", "head_created_ignored", OC,
      '            dateStringToTimeValue(getAttrWithFallback(font.info, "openTypeHeadCreated"))',
      "            dateStringToTimeValue(__import__('ufo2ft.fontInfoData').fontInfoData."
      "openTypeHeadCreatedFallback(font.info))")
