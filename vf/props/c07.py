"""C07 - Compiling never modifies the caller's sources unless inplace is requested.

Monitors: M-snap (deep before/after snapshot of every source font, all layers, and of the
designspace document - after return AND after raise), M-alias (no object of a working glyph set is
an object of a source layer, observed at pre-processor construction), M-trip (recording dicts in
place of ufoLib2 lib dicts, write events keyed by call site), M-fail (source-free failpoints at
sampled function entries).  inplace=True runs are the positive control.
"""
import io
import os
import shutil
import tempfile
import traceback

import vf  # noqa: F401
from vf import REPO
from vf.build import build_ufo, build_designspace
from vf.gen import masters
from vf.mon import snap as M
from vf.props.c01 import bounded_font

ID = "C07"
LEVEL = "fault_enumeration"
RULE = ("case kinds: (static) generated UFO x compileTTF/compileOTF x options (removeOverlaps both "
        "back ends, flattenComponents, skipExportGlyphs, custom + lib filters: propagateAnchors, "
        "transformations, decomposeTransformedComponents, sortContours, reverseContourDirection, "
        "useProductionNames, CFF2, debugFeatureFile, layerName of an empty / all-non-exported / sparse layer, DottedCircle with and without a U+25CC glyph in the source) x history (once / twice / TTF then OTF); "
        "(family) generated 2-4 master designspace x the 7 designspace / list compile functions x "
        "options (incl. sparse masters whose working glyph set is empty + per-master filters); (fixture) every UFO / designspace under tests/data opened with both libraries; "
        "(raise) inputs that fail late; (failpoint) InjectedFault raised at a sampled function "
        "entry inside ufo2ft; (control) inplace=True must be SEEN to mutate.  distinct = sha1 of the "
        "case; non-trivial = the compile ran (returned or raised inside ufo2ft) and every source "
        "object was snapshotted before and after")
ASSUMPTIONS = [
    "the snapshot covers layers, glyph outlines/components/anchors/metrics/unicodes/libs, layer "
    "libs, font lib, info, kerning, groups, features text, data/images listing, glyphOrder, and the "
    "designspace's axes/sources(incl. font identity)/rules/lib/instances",
    "failpoints are sampled (not all function entries); a fault raised inside a C extension "
    "cannot be injected",
]
NONVACUITY = ["compiles_returned", "compiles_raised", "snapshots_compared", "alias_checks",
              "tripwire_fonts", "failpoints_injected", "control_mutation_seen", "fixtures_run",
              "family_runs", "static_runs", "history_second_calls",
              "layer_compile_empty", "layer_compile_support", "layer_compile_sparse"]

STATIC_FUNCS = ["compileTTF", "compileOTF"]
FAMILY_FUNCS = ["compileInterpolatableTTFs", "compileInterpolatableTTFsFromDS",
                "compileInterpolatableOTFsFromDS", "compileVariableTTF", "compileVariableTTFs",
                "compileVariableCFF2", "compileVariableCFF2s"]

FIXTURE_UFOS = None


def fixtures():
    global FIXTURE_UFOS
    if FIXTURE_UFOS is None:
        base = os.path.join(REPO, "tests", "data")
        ufos, dss = [], []
        for root, dirs, files in os.walk(base):
            for d in list(dirs):
                if d.endswith(".ufo"):
                    ufos.append(os.path.relpath(os.path.join(root, d), base))
                    dirs.remove(d)
            for f in files:
                if f.endswith(".designspace"):
                    dss.append(os.path.relpath(os.path.join(root, f), base))
        FIXTURE_UFOS = (sorted(ufos), sorted(dss))
    return FIXTURE_UFOS


def n_cases(tier):
    return len(fixture_plan()) + (480 if tier == "quick" else 6000)


def budget_s(tier):
    return 170 if tier == "quick" else 1700


def gen_static_spec(rng):
    glyphs = bounded_font(rng, rng.choice(["mixed", "int", "dyadic"]), tmode="tt",
                          allow_degenerate=False)
    names = [g["name"] for g in glyphs if g["name"] != ".notdef"]
    for g in glyphs:
        if g["name"] != ".notdef" and rng.random() < 0.5:
            g["anchors"].append({"name": rng.choice(["top", "bottom", "_top"]),
                                 "x": rng.randint(0, 500), "y": rng.randint(0, 700)})
        if rng.random() < 0.3:
            g["lib"] = {"com.example.note": {"k": [1, 2, {"deep": True}]}}
    kerning, groups = [], {}
    if len(names) >= 3:
        groups = {"public.kern1.A": rng.sample(names, 2), "public.kern2.B": rng.sample(names, 2)}
        kerning = [["public.kern1.A", "public.kern2.B", -30], [names[0], names[1], 12.5]]
    lib = {"com.example.private": {"list": [3, 2, 1], "nested": {"x": 1}}}
    if rng.random() < 0.3:
        lib["public.openTypeCategories"] = {n: "base" for n in names[:3]}
    if rng.random() < 0.3:
        lib["public.postscriptNames"] = {n: "prod." + n.replace("_", "") for n in names[:2]}
    features = "languagesystem DFLT dflt;\n"
    if len(names) >= 2:
        features += "feature liga { sub %s by %s; } liga;\n" % (names[0], names[1])
    info = {"unitsPerEm": 1000, "familyName": "T", "styleName": "R", "ascender": 800,
            "descender": -200, "xHeight": 500, "capHeight": 700}
    if rng.random() < 0.4:
        # list-valued info attributes with fractional items (any derived value has to be computed
        # on a copy, the caller's lists stay as they are)
        info.update({"postscriptBlueValues": [-12.6, 0, 486.5, 498.25, 712.4, 724.5],
                     "postscriptOtherBlues": [-250.5, -238.25],
                     "postscriptFamilyBlues": [-12.6, 0, 486.5, 498.25],
                     "postscriptFamilyOtherBlues": [-250.5, -238.25],
                     "postscriptStemSnapH": [80.5, 90.25], "postscriptStemSnapV": [88.5, 96.75],
                     "openTypeOS2Panose": [2, 11, 5, 2, 4, 5, 4, 2, 2, 4],
                     "openTypeOS2Selection": [7], "openTypeOS2UnicodeRanges": [0, 1, 2],
                     "openTypeOS2CodePageRanges": [0, 1],
                     "openTypeNameRecords": [{"nameID": 5, "platformID": 3, "encodingID": 1,
                                              "languageID": 0x409, "string": "Version 1"}],
                     "openTypeGaspRangeRecords": [{"rangeMaxPPEM": 65535,
                                                   "rangeGaspBehavior": [0, 1]}],
                     "styleMapStyleName": rng.choice(["regular", "bold italic", "italic"])})
    if rng.random() < 0.3:
        # UFO 3 identifiers on components (what the per-component TrueType flags are keyed by);
        # the glyph's public.objectLibs entry exists for some of them only
        for g in glyphs:
            for k, c in enumerate(g["components"]):
                c["id"] = "%s.c%d" % (g["name"], k)
            if g["components"] and rng.random() < 0.4:
                g.setdefault("lib", {})["public.objectLibs"] = {
                    g["components"][0]["id"]: {"public.truetype.roundOffsetToGrid": True}}
    return {"glyphs": glyphs, "kerning": kerning, "groups": groups, "lib": lib,
            "features": features, "info": info}


LIB_FILTERS = [
    {"name": "propagateAnchors", "pre": True},
    {"name": "transformations", "kwargs": {"OffsetX": 10, "ScaleY": 90}},
    {"name": "decomposeTransformedComponents", "pre": True},
    {"name": "sortContours"},
    {"name": "reverseContourDirection", "include": None},
    {"name": "flattenComponents", "pre": True},
]


def fixture_plan():
    ufos, dss = fixtures()
    plan = []
    for u in ufos:
        for lib in ("defcon", "ufoLib2"):
            plan.append((u, lib))
    for d in dss:
        for lib in ("defcon", "ufoLib2"):
            plan.append((d, lib))
    return plan


def gen(rng, idx, tier):
    ufos, dss = fixtures()
    plan = fixture_plan()
    r = rng.random()
    case = {"lib": rng.choice(["defcon", "ufoLib2"]), "inplace": False}
    if idx < len(plan):
        # every fixture under tests/data, with both UFO libraries, in every run
        path, lib = plan[idx]
        case.update({"kind": "fixture", "fixture": path, "lib": lib, "opts": {},
                     "history": rng.choice(["once", "twice"]),
                     "func": rng.choice(STATIC_FUNCS) if path.endswith(".ufo")
                     else rng.choice(FAMILY_FUNCS[1:])})
        return case
    if r < 0.34:
        case["kind"] = "static"
        case["ufo"] = gen_static_spec(rng)
        case["func"] = rng.choice(STATIC_FUNCS)
        case["history"] = rng.choice(["once", "once", "twice", "ttf_then_otf"])
        opts = {}
        if rng.random() < 0.25:
            opts["removeOverlaps"] = True
            if rng.random() < 0.5:
                opts["overlapsBackend"] = "pathops"
        if rng.random() < 0.3 and case["func"] == "compileTTF":
            opts["flattenComponents"] = True
        if rng.random() < 0.3:
            names = [g["name"] for g in case["ufo"]["glyphs"] if g["name"] != ".notdef"]
            skip = rng.sample(names, 1)
            nested = [(g["name"], c["base"]) for g in case["ufo"]["glyphs"]
                      for c in g["components"] if g["name"] != ".notdef" and c["base"] != ".notdef"]
            if nested and rng.random() < 0.6:
                # a non-exported composite AND its (also non-exported) base
                skip = list(rng.choice(nested))
                case["nested_skip"] = True
            if rng.random() < 0.5:
                opts["skipExportGlyphs"] = skip
            else:
                case["ufo"]["lib"]["public.skipExportGlyphs"] = skip
            case["ufo"]["features"] = "languagesystem DFLT dflt;\n"
        if rng.random() < 0.3:
            opts["useProductionNames"] = rng.random() < 0.5
        if rng.random() < 0.2 and case["func"] == "compileOTF":
            opts["cffVersion"] = 2
        if rng.random() < 0.4:
            case["lib_filters"] = rng.sample(LIB_FILTERS, rng.randint(1, 3))
        if rng.random() < 0.12:
            # dedicated stratum of the listed DottedCircle finding: marks present + the lib filter
            gl = case["ufo"]["glyphs"]
            gl[-1]["anchors"] = [{"name": "_top", "x": 10, "y": 20}]
            gl[-1]["unicodes"] = [0x301]
            gl[0]["anchors"] = [{"name": "top", "x": 100, "y": 500}]
            case["ufo"]["lib"]["public.openTypeCategories"] = {gl[-1]["name"]: "mark",
                                                              gl[0]["name"]: "base"}
            case["lib_filters"] = [{"name": "DottedCircle", "pre": True}]
            if len(gl) > 3 and rng.random() < 0.5:
                # the font already has a dotted circle glyph that lacks the marks' anchors
                gl[1]["unicodes"] = [0x25CC]
                gl[1]["anchors"] = []
                case["own_dotted_circle"] = True
        if rng.random() < 0.25:
            case["arg_filters"] = rng.sample(["PropagateAnchorsFilter", "SortContoursFilter",
                                              "DecomposeTransformedComponentsFilter"], 1)
        case["debug_fea"] = rng.random() < 0.2
        if rng.random() < 0.16:
            # compile a non-default layer: empty, holding only non-exported glyphs (so that the
            # working glyph set becomes empty), or partly non-exported
            import copy as _copy
            gl = [g for g in case["ufo"]["glyphs"] if g["name"] != ".notdef"]
            which = rng.choice(["empty", "support", "support", "sparse"])
            picked = rng.sample(gl, min(len(gl), rng.randint(1, 2))) if which != "empty" else []
            layer = _copy.deepcopy(picked)
            for g in layer:
                g["width"] += 20
                g["components"] = []        # bases need not exist in a sparse layer
                if not g["contours"]:
                    g["contours"] = [[[0, 0, "line"], [100, 0, "line"], [100, 100, "line"]]]
            case["ufo"]["layers"] = {"empty": [], "layer1": layer} if which != "empty" \
                else {"empty": []}
            opts["layerName"] = "empty" if which == "empty" else "layer1"
            skipped = [g["name"] for g in (picked if which == "support" else picked[:1])]
            if which != "empty":
                if rng.random() < 0.5:
                    opts["skipExportGlyphs"] = skipped
                else:
                    opts.pop("skipExportGlyphs", None)
                    case["ufo"]["lib"]["public.skipExportGlyphs"] = skipped
            case["layer_stratum"] = which
            # something in the DEFAULT layer that every pipeline changes when run in place
            if not any(g["components"] for g in gl) and len(gl) >= 2:
                gl[-1]["components"].append({"base": gl[0]["name"], "t": [1, 0, 0, 1, 5, 5]})
        case["opts"] = opts
    elif r < 0.60:
        case["kind"] = "family"
        case["ds"] = masters.family(rng, n_glyphs=rng.choice([4, 5, 6]),
                                    kinds=rng.choice([("line", "curve"), ("line", "qcurve"),
                                                      ("line", "curve", "qcurve")]),
                                    comp_2x2=rng.random() < 0.3, rules=rng.choice([0, 0, 1]),
                                    missing_glyph=False, extra_glyph=False)
        case["func"] = rng.choice(FAMILY_FUNCS)
        opts = {}
        if rng.random() < 0.3 and "TTF" in case["func"]:
            opts["flattenComponents"] = True
        if "Variable" in case["func"] and rng.random() < 0.5:
            opts["variableFeatures"] = rng.random() < 0.5
        if rng.random() < 0.3:
            case["arg_filters"] = ["PropagateAnchorsFilter"]
        sp = (case["ds"].get("meta") or {}).get("sparse")
        if sp and rng.random() < 0.5:
            # a sparse master whose working glyph set is EMPTY (empty layer, or every glyph of
            # the layer non-exported) together with filters that have no interpolatable variant
            # and are therefore run master by master
            host = case["ds"]["ufos"][sp["host"]]
            if rng.random() < 0.5:
                host["layers"][sp["layer"]] = []
                case["sparse_stratum"] = "empty_layer"
            else:
                case["ds"].setdefault("lib", {})["public.skipExportGlyphs"] = list(sp["glyphs"])
                case["sparse_stratum"] = "all_skipped_layer"
            case["arg_filters"] = rng.sample(["SortContoursFilter", "ReverseContourDirectionFilter",
                                              "TransformationsFilter"], rng.randint(1, 2))
            if "TTF" in case["func"] and rng.random() < 0.5:
                opts["convertCubics"] = False
        if rng.random() < 0.3:
            # the masters' own libs list non-exported glyphs, not all the same names (the
            # master-list entry point takes the union; the designspace ones ignore them)
            names_ = [g["name"] for g in case["ds"]["ufos"][0]["glyphs"] if g["name"] != ".notdef"]
            full = [u for u in case["ds"]["ufos"] if u.get("glyphs")]
            if len(names_) >= 3 and len(full) >= 2:
                pick = rng.sample(names_, 2)
                full[0].setdefault("lib", {})["public.skipExportGlyphs"] = [pick[0]]
                full[-1].setdefault("lib", {})["public.skipExportGlyphs"] = [pick[0], pick[1]]
                case["master_lib_skip_lists"] = True
        if not case.get("sparse_stratum") and rng.random() < 0.25:
            # anchor propagation asked for as a PRE filter (masters' libs or filters=) in a family
            # with a composite of a composite whose inner composite has no anchors of its own: the
            # filter walks the nested bases through the instantiator's interpolated layers
            for u in case["ds"]["ufos"]:
                gl = u.get("glyphs") or []
                simple = [g for g in gl if g["contours"] and g["name"] != ".notdef"]
                if not simple:
                    continue
                base = simple[0]
                if not any(not a["name"].startswith("_") for a in base["anchors"]):
                    base["anchors"].append({"name": "top", "x": 120, "y": 600 + len(base["name"])})
                gl.append({"name": "nz.inner", "width": base["width"], "unicodes": [], "contours": [],
                           "anchors": [], "components": [{"base": base["name"], "t": [1, 0, 0, 1, 10, 0]}]})
                gl.append({"name": "nz.outer", "width": base["width"], "unicodes": [], "contours": [],
                           "anchors": [], "components": [{"base": "nz.inner", "t": [1, 0, 0, 1, 0, 90]}]})
            via = rng.choice(["lib", "lib", "arg"])
            if via == "lib":
                for u in case["ds"]["ufos"]:
                    u.setdefault("lib", {})["com.github.googlei18n.ufo2ft.filters"] = [
                        {"name": "propagateAnchors", "pre": True}]
                case.pop("arg_filters", None)
            else:
                case["arg_filters"] = ["PropagateAnchorsFilter:pre"]
            case["ds"].get("lib", {}).pop("public.skipExportGlyphs", None)
            case["propagate_pre"] = via
            if rng.random() < 0.7:
                case["func"] = rng.choice(["compileInterpolatableTTFsFromDS", "compileVariableTTF",
                                           "compileVariableTTFs", "compileInterpolatableTTFs"])
            # (variable feature writers read anchors from the raw sources: a propagated anchor
            # makes them fail - the sources must be intact after that raise as well)
            opts.pop("flattenComponents", None)
        case["history"] = rng.choice(["once", "once", "twice"])
        case["opts"] = opts
        # <source> elements built in memory need not have (unique) names
        case["source_names"] = rng.choice(["given", "given", "none", "duplicate", "some_none"])
    elif r < 0.78:
        case["kind"] = "fixture"
        if rng.random() < 0.75 or not dss:
            case["fixture"] = rng.choice(ufos)
            case["func"] = rng.choice(STATIC_FUNCS)
        else:
            case["fixture"] = rng.choice(dss)
            case["func"] = rng.choice(FAMILY_FUNCS[1:])
        case["history"] = rng.choice(["once", "twice"])
        case["opts"] = {}
    elif r < 0.86:
        case["kind"] = "raise"
        case["ufo"] = gen_static_spec(rng)
        case["func"] = rng.choice(STATIC_FUNCS)
        case["defect"] = rng.choice(["negative_width", "duplicate_cp", "bad_fea", "missing_base"])
        g = case["ufo"]["glyphs"]
        if case["defect"] == "negative_width":
            g[-1]["width"] = -50
        elif case["defect"] == "duplicate_cp":
            g[0]["unicodes"] = [0x41]
            g[-1]["unicodes"] = [0x41]
        elif case["defect"] == "bad_fea":
            case["ufo"]["features"] += "feature kern { pos nonexistent.glyph A -10; } kern;\n"
        else:
            g[-1]["components"].append({"base": "no.such.glyph", "t": [1, 0, 0, 1, 0, 0]})
        case["history"] = "once"
        case["opts"] = {}
    elif r < 0.95:
        case["kind"] = "failpoint"
        if rng.random() < 0.6:
            case["ufo"] = gen_static_spec(rng)
            case["func"] = rng.choice(STATIC_FUNCS)
        else:
            case["ds"] = masters.family(rng, n_glyphs=4, rules=0, missing_glyph=False,
                                        extra_glyph=False)
            case["func"] = rng.choice(FAMILY_FUNCS)
        case["fractions"] = sorted(rng.random() for _ in range(4 if tier == "quick" else 8))
        case["history"] = "once"
        case["opts"] = {}
    else:
        case["kind"] = "control"
        case["ufo"] = gen_static_spec(rng)
        # make sure the compile has something to change in place
        if not any(g["components"] for g in case["ufo"]["glyphs"]):
            gl = case["ufo"]["glyphs"]
            gl[-1]["components"].append({"base": gl[0]["name"], "t": [1, 0, 0, 1, 5, 5]})
        case["func"] = "compileOTF"
        case["inplace"] = True
        case["history"] = "once"
        case["opts"] = {}
    return case


def sample_view(case):
    v = {k: case.get(k) for k in ("kind", "func", "lib", "history", "opts", "fixture", "defect",
                                  "inplace", "lib_filters", "arg_filters")}
    if "ufo" in case:
        v["glyphs"] = [g["name"] for g in case["ufo"]["glyphs"]]
    if "ds" in case:
        v["ds_meta"] = case["ds"].get("meta")
    return v


# ---------------------------------------------------------------- building the sources

def open_fixture(path, lib, tmp):
    import ufoLib2
    import defcon
    src = os.path.join(REPO, "tests", "data", path)
    if path.endswith(".ufo"):
        dst = os.path.join(tmp, os.path.basename(path))
        shutil.copytree(src, dst)
        return (defcon.Font(dst) if lib == "defcon" else ufoLib2.Font.open(dst)), None
    from fontTools.designspaceLib import DesignSpaceDocument
    d = os.path.join(tmp, "ds")
    shutil.copytree(os.path.dirname(src), d)
    doc = DesignSpaceDocument.fromfile(os.path.join(d, os.path.basename(path)))
    opener = (lambda p: defcon.Font(p)) if lib == "defcon" else (lambda p: ufoLib2.Font.open(p))
    cache = {}
    for s in doc.sources:
        if s.path not in cache:
            cache[s.path] = opener(s.path)
        s.font = cache[s.path]
    return None, doc


def call(func, sources, kw):
    import ufo2ft
    out = getattr(ufo2ft, func)(sources, **kw)
    if func == "compileInterpolatableTTFs":
        out = list(out)
    fonts = []
    if isinstance(out, dict):
        fonts = list(out.values())
    elif isinstance(out, list):
        fonts = out
    elif hasattr(out, "sources"):
        fonts = [s.font for s in out.sources]
    else:
        fonts = [out]
    for f in fonts:
        f.save(io.BytesIO())
    return out


def run(case):
    counters = {}

    def bump(k, n=1):
        counters[k] = counters.get(k, 0) + n

    tmp = tempfile.mkdtemp(prefix="vfc07_")
    try:
        return _run(case, bump, counters, tmp)
    finally:
        shutil.rmtree(tmp, ignore_errors=True)
        M.TripDict.log = []


def _filters_from_names(names):
    import ufo2ft.filters as F
    return [getattr(F, n.partition(":")[0])(**({"pre": True} if n.endswith(":pre") else {}))
            for n in names]


def _run(case, bump, counters, tmp):
    import ufo2ft
    lib = case["lib"]
    func = case["func"]
    doc = None
    fonts = []
    # ---------------- build sources
    if case["kind"] == "fixture":
        try:
            font, doc = open_fixture(case["fixture"], lib, tmp)
        except Exception:  # noqa: BLE001
            return {"status": "inconclusive", "counters": {"fixture_unreadable": 1}}
        if font is not None:
            fonts = [font]
        bump("fixtures_run")
    elif "ds" in case:
        doc, fonts = build_designspace(case["ds"], lib)
        bump("family_runs")
        if case.get("master_lib_skip_lists"):
            bump("family_runs_with_differing_skip_lists_in_master_libs")
        if case.get("propagate_pre"):
            bump("family_runs_with_anchor_propagation_pre_filter_on_nested_composites")
        sn = case.get("source_names", "given")
        if sn != "given":
            for i, sd in enumerate(doc.sources):
                if sn == "none" or (sn == "some_none" and i % 2 == 0):
                    sd.name = None
                elif sn == "duplicate":
                    sd.name = "master"
            bump("unnamed_or_duplicate_source_names")
        if case.get("sparse_stratum"):
            bump("sparse_" + case["sparse_stratum"])
    else:
        spec = case["ufo"]
        if case.get("lib_filters"):
            spec = dict(spec)
            spec["lib"] = dict(spec["lib"])
            spec["lib"]["com.github.googlei18n.ufo2ft.filters"] = [
                {k: v for k, v in f.items() if v is not None} for f in case["lib_filters"]]
        fonts = [build_ufo(spec, lib)]
        bump("static_runs")
        if case.get("layer_stratum"):
            bump("layer_compile_" + case["layer_stratum"])
        if case.get("own_dotted_circle"):
            bump("dotted_circle_glyph_in_source")
        if case.get("nested_skip"):
            bump("skipped_composite_of_skipped_base")
    if doc is not None and not fonts:
        seen = []
        for s in doc.sources:
            if s.font is not None and all(s.font is not f for f in seen):
                seen.append(s.font)
        fonts = seen
    # ---------------- arguments
    kw = dict(case.get("opts") or {})
    if case.get("arg_filters"):
        kw["filters"] = [...] + _filters_from_names(case["arg_filters"])
    if case.get("debug_fea"):
        kw["debugFeatureFile"] = io.StringIO()
    if case["inplace"]:
        kw["inplace"] = True
    if func == "compileInterpolatableTTFs":
        sources = [s.font for s in doc.sources if not s.layerName] if doc is not None else fonts
        if doc is not None and any(s.layerName for s in doc.sources):
            kw["layerNames"] = None
    elif func in STATIC_FUNCS:
        sources = fonts[0]
    else:
        sources = doc
    if sources is None:
        return {"status": "inconclusive", "counters": {"no_sources": 1}}
    # ---------------- monitors on
    armed = 0
    if lib == "ufoLib2" and not case["inplace"]:
        for i, f in enumerate(fonts):
            armed += M.arm_ufolib2(f, "font%d" % i)
        bump("tripwire_fonts", len(fonts))
    M.TripDict.log = []
    before = [M.snapshot(f) for f in fonts]
    ds_before = M.ds_snapshot(doc) if doc is not None else None
    alias_events = []
    # M-alias: observe every working glyph set at the moment it is created.  (The pre-processor
    # constructors themselves must not be wrapped: ufo2ft selects their arguments by inspecting
    # their signatures, a wrapper would silently drop inplace / filters / skipExportGlyphs.)
    from ufo2ft import util as U
    orig_from_layer = U._GlyphSet.from_layer.__func__

    def from_layer(cls, font, layerName=None, copy=False, skipExportGlyphs=None):
        gs = orig_from_layer(cls, font, layerName, copy, skipExportGlyphs)
        if copy:
            counters["alias_checks"] = counters.get("alias_checks", 0) + 1
            sh = M.alias_report(gs, font, layerName)
            if sh:
                alias_events.append(sh)
        return gs

    U._GlyphSet.from_layer = classmethod(from_layer)
    violations = []
    ran = False
    try:
        plan = [func]
        if case["history"] == "twice":
            plan = [func, func]
        elif case["history"] == "ttf_then_otf":
            plan = ["compileTTF", "compileOTF"]
        if case["kind"] == "failpoint":
            # counting pass, then one injected fault per sampled entry
            fp = M.Failpoints(os.path.join(REPO, "Lib"))
            with fp:
                try:
                    call(func, sources, dict(kw))
                except Exception:  # noqa: BLE001
                    pass
                total = fp.n
            for frac in case["fractions"]:
                k = max(1, int(frac * total))
                fp = M.Failpoints(os.path.join(REPO, "Lib"))
                fp.target = k
                outcome = "returned"
                with fp:
                    try:
                        call(func, sources, dict(kw))
                    except M.InjectedFault:
                        outcome = "raised"
                    except Exception:  # noqa: BLE001
                        outcome = "raised_other"
                bump("failpoints_injected")
                bump("failpoint_" + outcome)
                ran = True
                _compare(fonts, before, doc, ds_before, violations, bump,
                         "after InjectedFault at entry %d/%d (%s)" % (k, total, fp.fired_at))
                if violations:
                    break
        else:
            for i, fn in enumerate(plan):
                k2 = dict(kw)
                if fn in STATIC_FUNCS and fn != func:
                    k2 = {a: b for a, b in k2.items() if a not in ("flattenComponents", "cffVersion")}
                try:
                    call(fn, sources, k2)
                    bump("compiles_returned")
                    ran = True
                except M.InjectedFault:
                    raise
                except Exception as e:  # noqa: BLE001
                    tb = traceback.extract_tb(e.__traceback__)
                    inside = any("/ufo2ft/" in fr.filename for fr in tb)
                    bump("compiles_raised")
                    ran = ran or inside
                if i > 0:
                    bump("history_second_calls")
                _compare(fonts, before, doc, ds_before, violations, bump,
                         "after call %d (%s)" % (i + 1, fn), expect_mutation=case["inplace"])
    finally:
        U._GlyphSet.from_layer = classmethod(orig_from_layer)
    if case["inplace"]:
        # positive control: the monitor must SEE the in-place modification
        mutated = any(v["mech"] == "source_modified" for v in violations)
        if mutated:
            bump("control_mutation_seen")
            return {"status": "held", "counters": counters, "nontrivial": True}
        return {"status": "inconclusive", "counters": dict(counters, control_saw_nothing=1)}
    for sh in alias_events[:3]:
        violations.append({"mech": "working_copy_aliases_source", "detail": {"shared": sh}})
    writes = [e for e in M.TripDict.log]
    if writes:
        sites = sorted({e[3] or "?" for e in writes})
        violations.append({"mech": "tripwire_write", "detail": {
            "events": [list(e) for e in writes[:8]], "sites": sites}})
    return {"status": "violated" if violations else "held", "violations": violations[:8],
            "counters": counters, "nontrivial": ran}


def _compare(fonts, before, doc, ds_before, violations, bump, when, expect_mutation=False):
    M.TripDict.armed = False
    try:
        for i, (f, b) in enumerate(zip(fonts, before)):
            bump("snapshots_compared")
            d = M.diff(b, M.snapshot(f))
            if d:
                violations.append({"mech": "source_modified", "detail": {
                    "font": i, "when": when, "diff": [[p, a, c] for p, a, c in d[:8]]}})
        if doc is not None:
            bump("snapshots_compared")
            d = M.diff(ds_before, M.ds_snapshot(doc))
            if d:
                violations.append({"mech": "designspace_modified", "detail": {
                    "when": when, "diff": [[p, a, c] for p, a, c in d[:8]]}})
    finally:
        M.TripDict.armed = True


def classify(v, case):
    det = v["detail"]
    text = str(det)
    if v["mech"] in ("source_modified", "tripwire_write"):
        if "com.nagwa.MATHPlugin.constants" in text and (
                "MinConnectorOverlap" in text or "setupTable_MATH" in text):
            return "math_constants_pop_in_setupTable_MATH"
        if ("com.github.googlei18n.ufo2ft.colorLayers" in text or "explodeColorLayerGlyphs" in text
                or (case.get("fixture", "").startswith("ColorTest"))):
            return "explode_color_layers_filter_writes_source"
        uses_dc = ("DottedCircle" in str(case.get("fixture", "")) or any(
            f.get("name", "").lower().startswith("dottedcircle") for f in case.get("lib_filters") or []))
        if uses_dc:
            # the listed mechanism writes the categories lib entry and the feature text only
            if v["mech"] == "source_modified":
                paths = [d[0] for d in det.get("diff", [])]
                if paths and all(p == "/features" or (p.startswith("/lib/")
                                                      and "public.openTypeCategories" in p)
                                 for p in paths):
                    return "dotted_circle_filter_writes_source"
            elif "public.openTypeCategories" in text and "dottedCircle" in text:
                return "dotted_circle_filter_writes_source"
    return None
