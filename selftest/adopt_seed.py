"""Re-validate a seeded breaking change left by a sub-agent in a scratch worktree and keep it under
/verif/seeded/<name>/:  python selftest/adopt_seed.py /tmp/wt_c02 c02-flatten-transpose C02
Checks (all run against the WORKTREE through PYTHONPATH=<wt>/Lib, never against /repo):
  1. the change is a non-empty diff under Lib/;
  2. demo.py exits 1 with the change and 0 without it;
  3. the repository's own test suite passes with the change."""
import json
import os
import shutil
import subprocess
import sys

VERIF = os.path.dirname(os.path.dirname(os.path.abspath(__file__)))


def sh(cmd, cwd, env=None, timeout=1800):
    return subprocess.run(cmd, cwd=cwd, env=env, shell=True, capture_output=True, text=True,
                          timeout=timeout)


def main():
    wt, name, prop = sys.argv[1:4]
    env = dict(os.environ, PYTHONPATH=os.path.join(wt, "Lib"), PYTHONDONTWRITEBYTECODE="1")
    diff = sh("git diff -- Lib", wt).stdout
    if not diff.strip():
        print("no change in worktree")
        return 1
    ran = {}
    r = sh("/venv/bin/python demo.py", wt, env)
    ran["demo_with_change_rc"] = r.returncode
    ran["demo_with_change_tail"] = (r.stdout + r.stderr)[-600:]
    # (not `git stash`: the stash is shared by all worktrees of one repository)
    keep = os.path.join(wt, ".adopt_change.diff")
    open(keep, "w").write(diff)
    sh("git checkout -- Lib", wt)
    try:
        r0 = sh("/venv/bin/python demo.py", wt, env)
    finally:
        sh("git apply .adopt_change.diff", wt)
        os.unlink(keep)
    assert sh("git diff -- Lib", wt).stdout == diff
    ran["demo_without_change_rc"] = r0.returncode
    r2 = sh("/venv/bin/python -m pytest -q -p no:cacheprovider tests 2>&1 | tail -3", wt, env)
    ran["suite_tail"] = r2.stdout[-300:]
    ok = (ran["demo_with_change_rc"] == 1 and ran["demo_without_change_rc"] == 0
          and " passed" in ran["suite_tail"] and " failed" not in ran["suite_tail"])
    print(json.dumps(ran, indent=1))
    if not ok:
        print("NOT ADOPTED")
        return 1
    dst = os.path.join(VERIF, "seeded", name)
    os.makedirs(dst, exist_ok=True)
    open(os.path.join(dst, "patch.diff"), "w").write(diff)
    shutil.copy(os.path.join(wt, "demo.py"), os.path.join(dst, "demo.py"))
    if os.path.exists(os.path.join(wt, "SEEDED.md")):
        shutil.copy(os.path.join(wt, "SEEDED.md"), os.path.join(dst, "SEEDED.md"))
    needs = ""
    try:
        needs = open(os.path.join(wt, "SEEDED.md")).read()[:1500]
    except OSError:
        pass
    json.dump({"property": prop, "name": name,
               "needs_to_manifest": "see SEEDED.md (written by the sub-agent that produced the change)",
               "validated": {"demo_with_change_rc": ran["demo_with_change_rc"],
                             "demo_without_change_rc": ran["demo_without_change_rc"],
                             "suite": ran["suite_tail"].strip().splitlines()[-1] if ran["suite_tail"].strip() else ""},
               "ran": ["PYTHONPATH=<worktree>/Lib /venv/bin/python demo.py (with and without the change)",
                       "PYTHONPATH=<worktree>/Lib /venv/bin/python -m pytest -q -p no:cacheprovider tests"],
               "checks": {}},
              open(os.path.join(dst, "meta.json"), "w"), indent=1)
    print("ADOPTED", dst)
    return 0


if __name__ == "__main__":
    sys.exit(main())
