def define(M):
    M("C14", "filter_returns_false_after_changing", "Lib/ufo2ft/filters/flattenComponents.py",
      "        if flattened_tuples[0] != (comp.baseGlyph, comp.transformation):\n            flattened = True",
      "        if flattened_tuples[0] != (comp.baseGlyph, comp.transformation):\n            flattened = len(flattened_tuples) > 2")
    M("C14", "context_not_reset_between_calls", "Lib/ufo2ft/filters/base.py",
      "        self.context = SimpleNamespace(font=font, glyphSet=glyphSet)\n        self.context.modified = set()",
      "        prev = getattr(getattr(self, 'context', None), 'modified', None)\n        self.context = SimpleNamespace(font=font, glyphSet=glyphSet)\n        self.context.modified = prev if prev is not None else set()")
    # (TransformationsFilter transforming NON-included bases of an included composite is not a
    #  C14 violation - the statement exempts glyphs referenced by an included glyph; it changes what
    #  the base renders and is a C15 mutant, see mutant_defs_c15_extra.py)
    M("C14", "propagate_reports_only_outermost", "Lib/ufo2ft/filters/propagateAnchors.py",
      "    if to_add:\n        modified.add(composite.name)",
      "    if to_add and not any(composite.name == c.baseGlyph for g in glyphSet.values() for c in g.components):\n        modified.add(composite.name)")
    M("C14", "decompose_include_ignored", "Lib/ufo2ft/filters/base.py",
      "                if include(glyph) and filter_(glyph):\n                    modified.add(glyphName)",
      "                if filter_(glyph):\n                    modified.add(glyphName)")
    M("C14", "skip_filter_forgets_removed", "Lib/ufo2ft/filters/skipExportGlyphs.py",
      "                del glyphSet[glyphName]\n                # technically this glyph was 'removed' rather than 'modified' but\n                # filters only return one set...\n                modified.add(glyphName)",
      "                del glyphSet[glyphName]")
    M("C14", "sort_contours_writes_font_glyph", "Lib/ufo2ft/filters/sortContours.py",
      "    def filter(self, glyph):", "    def filter(self, glyph):\n        self.context.font.lib['sorted'] = self.context.font.lib.get('sorted', 0) + 1")
    M("C14", "ifilter_modified_only_first", "Lib/ufo2ft/filters/base.py",
      "                if any(include(g) for g in glyphs) and filter_(glyphName, glyphs):\n                    modified.add(glyphName)",
      "                if any(include(g) for g in glyphs) and filter_(glyphName, glyphs):\n                    modified.add(glyphName) if not modified else None")
