def define(M):
    # ---------------- C18 ----------------
    G = "Lib/ufo2ft/featureWriters/gdefFeatureWriter.py"
    C = "Lib/ufo2ft/featureWriters/cursFeatureWriter.py"
    # GlyphClassDefStatement(base, mark, ligature, component): mark / ligature arguments swapped
    M("C18", "gdef_mark_ligature_swapped", G,
      "                ast.GlyphClass(self._sortedGlyphClass(categories.mark)),\n"
      "                ast.GlyphClass(self._sortedGlyphClass(categories.ligature)),\n",
      "                ast.GlyphClass(self._sortedGlyphClass(categories.ligature)),\n"
      "                ast.GlyphClass(self._sortedGlyphClass(categories.mark)),\n")
    # a user GlyphClassDef no longer stops the writer from emitting its own (user classes not
    # left alone: feaLib keeps the first assignment or rejects the conflict)
    M("C18", "gdef_user_classes_not_respected", G,
      "                if isinstance(fea, ast.GlyphClassDefStatement):\n"
      "                    ctx.todo.discard(\"GlyphClassDefs\")\n",
      "                if isinstance(fea, ast.GlyphClassDefStatement):\n"
      "                    pass\n")
    # 'component' category folded into 'ligature'
    M("C18", "categories_component_as_ligature", "Lib/ufo2ft/util.py",
      "            elif category == \"component\":\n                components.add(glyphName)",
      "            elif category == \"component\":\n                ligatures.add(glyphName)")
    # vcaret_ anchors contribute x instead of y
    M("C18", "vcaret_uses_x", G,
      "                        self._getAnchor(glyphName, anchor.name, anchor=anchor)[1]",
      "                        self._getAnchor(glyphName, anchor.name, anchor=anchor)[0]")
    # caret coordinates truncated instead of rounded
    M("C18", "caret_int_instead_of_otround", G,
      "                    carets[glyphName] = [otRound(c) for c in sorted(glyphCarets)]",
      "                    carets[glyphName] = [int(c) for c in sorted(glyphCarets)]")
    # carets of non-exported glyphs / only first caret kept
    M("C18", "caret_only_prefix_caret_1", G,
      "                    and anchor.name.startswith(\"caret_\")\n",
      "                    and anchor.name.startswith(\"caret_1\")\n")
    # RightToLeft flag inverted
    M("C18", "curs_rtl_flag_inverted", C,
      "        if direction != \"LTR\":\n",
      "        if direction == \"LTR\":\n")
    # a glyph with only an exit anchor is dropped
    M("C18", "curs_exit_only_dropped", C,
      "            if entryAnchor or exitAnchor:\n",
      "            if entryAnchor:\n")
    # anchor coordinates truncated instead of rounded
    M("C18", "curs_int_instead_of_otround", C,
      "                x=otRoundIgnoringVariable(exitAnchorXY[0]),\n",
      "                x=int(exitAnchorXY[0]),\n")
    # explicit .LTR suffix no longer clears the flag
    M("C18", "curs_ltr_suffix_ignored", C,
      "        elif entryName.endswith(\".LTR\"):\n            direction = \"LTR\"\n",
      "        elif entryName.endswith(\".LTR\"):\n            pass\n")
    # direction split without the GSUB closure: alternates / ligatures of LTR letters go RTL
    M("C18", "curs_no_gsub_closure", C,
      "            dirGlyphs = classifyGlyphs(unicodeScriptDirection, cmap, gsub, extras)\n",
      "            dirGlyphs = classifyGlyphs(unicodeScriptDirection, cmap, None, extras)\n")
    # .RTL suffix treated like .LTR
    M("C18", "curs_rtl_suffix_as_ltr", C,
      "        if entryName.endswith(\".RTL\"):\n            direction = \"RTL\"\n",
      "        if entryName.endswith(\".RTL\"):\n            direction = \"LTR\"\n")
