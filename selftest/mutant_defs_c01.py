def define(M):
    # ---------------- C01 ----------------
    M("C01", "hmtx_round_builtin", "Lib/ufo2ft/outlineCompiler.py",
      "            width = otRound(glyph.width)\n            if width < 0:",
      "            width = round(glyph.width)\n            if width < 0:")
    M("C01", "no_reverse_flipped", "Lib/ufo2ft/util.py",
      "        reverseFlipped=reverseFlipped,", "        reverseFlipped=False,")
    M("C01", "tolerance_ignored", "Lib/ufo2ft/outlineCompiler.py",
      "        pen = T2CharStringPen(width, self.allGlyphs, roundTolerance=self.roundTolerance)",
      "        pen = T2CharStringPen(width, self.allGlyphs, roundTolerance=0.5)")
    M("C01", "components_reversed", "Lib/ufo2ft/util.py",
      "    for component in list(glyph.components):\n        try:",
      "    for component in reversed(list(glyph.components)):\n        try:")
    M("C01", "width_plus_one_default", "Lib/ufo2ft/outlineCompiler.py",
      "            width -= nominalWidth\n", "            width -= nominalWidth - (1 if width == nominalWidth else 0)\n")
