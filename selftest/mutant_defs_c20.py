def define(M):
    # ---------------- C20 ----------------
    # NOTE: the unchanged tree already exits 1 on C20 through the listed mechanism
    # (kern_script_lacks_positioning_undeclared -> known key).  A mutant counts as caught only if
    # a violation with known_key None appears, i.e. mechanism
    # "kern_script_lacks_positioning_declared" (or unexpected_exception) is printed.
    MK = "Lib/ufo2ft/featureWriters/markFeatureWriter.py"
    CU = "Lib/ufo2ft/featureWriters/cursFeatureWriter.py"
    only_dflt = ("        feature.statements.append(ast.ScriptStatement(\"DFLT\"))\n"
                 "        feature.statements.append(ast.LanguageStatement(\"dflt\"))\n")
    # mark feature registered under DFLT only, although languagesystems exist
    M("C20", "mark_only_under_DFLT", MK,
      "        feature = ast.FeatureBlock(\"mark\")\n",
      "        feature = ast.FeatureBlock(\"mark\")\n" + only_dflt)
    # mkmk feature registered under DFLT only
    M("C20", "mkmk_only_under_DFLT", MK,
      "        feature = ast.FeatureBlock(\"mkmk\")\n",
      "        feature = ast.FeatureBlock(\"mkmk\")\n" + only_dflt)
    # curs writer skips the non-default scripts
    M("C20", "curs_only_under_DFLT", CU,
      "            feature = ast.FeatureBlock(\"curs\")\n",
      "            feature = ast.FeatureBlock(\"curs\")\n"
      "            feature.statements.append(ast.ScriptStatement(\"DFLT\"))\n"
      "            feature.statements.append(ast.LanguageStatement(\"dflt\"))\n")
    # abvm / blwm registered for the new Indic tag only (deva loses them)
    M("C20", "abvm_blwm_only_dev2", MK,
      "        feature = ast.FeatureBlock(tag)\n",
      "        feature = ast.FeatureBlock(tag)\n"
      "        feature.statements.append(ast.ScriptStatement(\"dev2\"))\n"
      "        feature.statements.append(ast.LanguageStatement(\"dflt\"))\n")
    # mark feature hard-wired to Latin
    M("C20", "mark_only_under_latn", MK,
      "        feature = ast.FeatureBlock(\"mark\")\n",
      "        feature = ast.FeatureBlock(\"mark\")\n"
      "        feature.statements.append(ast.ScriptStatement(\"latn\"))\n"
      "        feature.statements.append(ast.LanguageStatement(\"dflt\"))\n")
    # curs: every declared non-default language is (wrongly) given `exclude_dflt`, so
    # `latn TRK` / `arab URD` keep kerning but lose the cursive lookups
    M("C20", "curs_non_default_languages_exclude_dflt", CU,
      "            feature.statements.extend(lookups)\n            return feature\n",
      "            feature.statements.extend(lookups)\n"
      "            for _sc, _tl in ast.getScriptLanguageSystems(self.context.feaFile).items():\n"
      "                for _tag, _langs in _tl:\n"
      "                    for _l in _langs:\n"
      "                        if _l != \"dflt\":\n"
      "                            feature.statements.append(ast.ScriptStatement(_tag))\n"
      "                            feature.statements.append(\n"
      "                                ast.LanguageStatement(_l, include_default=False))\n"
      "            return feature\n")
