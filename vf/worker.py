"""Worker: one fresh interpreter per shard.  Generates its cases from (seed, property, idx),
runs the property's workload + oracle on the REAL ufo2ft from the repository's working tree and
appends one JSON line per case to its own event log."""
import faulthandler
import json
import os
import random
import sys
import time
import traceback

import vf  # noqa: F401  (path setup)


def rng_for(seed, prop, idx):
    return random.Random(f"{seed}:{prop}:{idx}")


def run_one(mod, case, idx):
    from vf.runner import case_sig
    t0 = time.time()
    sig = case_sig(case)
    try:
        res = mod.run(case)
    except Exception:  # noqa: BLE001  -- an exception escaping the property module is OUR bug
        res = {"status": "harness_error", "note": traceback.format_exc()}
    res.setdefault("violations", [])
    res.setdefault("counters", {})
    if res["violations"] and res.get("status") not in ("violated",):
        res["status"] = "violated"
    for v in res["violations"]:
        if "known_key" not in v:
            try:
                v["known_key"] = mod.classify(v, case) if hasattr(mod, "classify") else None
            except Exception:  # noqa: BLE001
                v["known_key"] = None
    rec = {"ev": "case", "idx": idx, "sig": sig, "status": res["status"],
           "violations": res["violations"], "counters": res["counters"],
           "nontrivial": bool(res.get("nontrivial")), "secs": round(time.time() - t0, 4)}
    if res.get("note"):
        rec["note"] = res["note"]
    if res["violations"]:
        rec["case"] = case
    view = getattr(mod, "sample_view", None)
    rec["_case"] = case
    return rec


def main():
    prop, tier, seed, shard, jobs, n_cases, budget, out, resume = sys.argv[1:10]
    seed, shard, jobs, n_cases, budget, resume = (int(seed), int(shard), int(jobs), int(n_cases),
                                                  float(budget), int(resume))
    faulthandler.enable()
    from vf.runner import load_prop
    mod = load_prop(prop)
    t0 = time.time()
    n_samples = 0
    with open(out, "a") as fh:
        idxs = [i for i in range(shard, n_cases, jobs) if i >= resume]
        for n, idx in enumerate(idxs):
            if time.time() - t0 > budget:
                fh.write(json.dumps({"ev": "not_run", "n": len(idxs) - n}) + "\n")
                break
            fh.write(json.dumps({"ev": "start", "idx": idx}) + "\n")
            fh.flush()
            try:
                case = mod.gen(rng_for(seed, prop, idx), idx, tier)
            except Exception:  # noqa: BLE001
                fh.write(json.dumps({"ev": "case", "idx": idx, "sig": "gen-error-%d" % idx,
                                     "status": "harness_error", "violations": [], "counters": {},
                                     "nontrivial": False, "secs": 0,
                                     "note": traceback.format_exc()}) + "\n")
                continue
            rec = run_one(mod, case, idx)
            case = rec.pop("_case")
            if rec["nontrivial"] and n_samples < 1 and shard < 3:
                view = getattr(mod, "sample_view", None)
                rec["sample"] = view(case) if view else case
                n_samples += 1
            fh.write(json.dumps(rec, default=str) + "\n")
            fh.flush()


if __name__ == "__main__":
    main()
