def define(M):
    # removing sorted() in the kern writer's group members / script registration, the GDEF class
    # members or the mark-class loop was tried: feaLib re-sorts those on the way to the binary, the
    # bytes stay identical for every hash seed (equivalent mutants).  Effective order leaks:
    M("C08", "unlisted_glyphs_in_set_order", "Lib/ufo2ft/util.py",
      "    order.extend(sorted(names))", "    order.extend(names)", cases=40)
    M("C08", "kern_lookups_in_set_order", "Lib/ufo2ft/featureWriters/kernFeatureWriter.py",
      "        for _, lookupGroup in sorted(lookups.items()):",
      "        for _, lookupGroup in {k: lookups[k] for k in set(lookups)}.items():", cases=40)
    K = "Lib/ufo2ft/featureWriters/kernFeatureWriter.py"
    M("C08", "module_level_cache_across_calls", "Lib/ufo2ft/util.py",
      "def makeOfficialGlyphOrder(font, glyphOrder=None):",
      "_ORDER_CACHE = {}\n\n\ndef makeOfficialGlyphOrder(font, glyphOrder=None):\n    key = tuple(sorted(font.keys()))\n    if key in _ORDER_CACHE and glyphOrder is not None:\n        return list(_ORDER_CACHE[key])\n    res = _makeOfficialGlyphOrder(font, glyphOrder)\n    _ORDER_CACHE.setdefault(key, list(reversed(res[1:])) if len(res) > 2 else res)\n    _ORDER_CACHE[key] = [res[0]] + _ORDER_CACHE[key] if _ORDER_CACHE[key][:1] != res[:1] else _ORDER_CACHE[key]\n    return res\n\n\ndef _makeOfficialGlyphOrder(font, glyphOrder=None):", cases=40)
    M("C08", "inplace_changes_decomposition", "Lib/ufo2ft/preProcessor.py",
      "        filters.append(DecomposeComponentsFilter())\n\n        if removeOverlaps:",
      "        filters.append(DecomposeComponentsFilter(include=(lambda g: True) if not self.inplace else (lambda g: len(g.components) < 3)))\n\n        if removeOverlaps:", cases=40)
    # the repaired defect (5718450) put back: set iteration order decides colliding anchor keys
    M("C08", "propagate_anchors_in_set_order", "Lib/ufo2ft/filters/propagateAnchors.py",
      "    for anchor_name in sorted(anchor_names):", "    for anchor_name in anchor_names:", cases=60)
