"""R-var: closed-form reference for "the variation-model interpolation of the masters".

Independent of fontTools.varLib.models and of fontMath: everything is computed on exact rationals
(`fractions.Fraction`; floats are taken as the exact rationals they store) from formulas that are
written down directly, not from the region/delta machinery of the code under test.

The reference is a set of **weights**: for a location L it returns {master index: w} such that
every interpolated quantity q (a coordinate, an advance, a kerning value, a font-info number)
is  q(L) = sum_i  w_i * q_i .  At a master's own location the weights are exactly {that master: 1}.

Supported layouts (anything else raises `Unsupported`; generators must stay inside):

* all locations are in DESIGN coordinates (`to_design` applies the axis maps to user values first);
  an axis that a location does not mention sits at the axis default;
* exactly one master at the default location;
* every other master differs from the default on ONE axis ("on-axis master", anywhere on the axis)
  or on TWO axes ("corner master": both coordinates at an extreme - design minimum or maximum -
  of their axis; at most one corner master per quadrant);
* on every axis, each side of the default on which the axis extends (min < default, default < max)
  carries an on-axis master at the extreme; queried locations lie inside the axis bounds.

Formulas (x, y are the coordinates normalised relative to the default: (v - default) / (extreme -
default) on the side of the default where v lies, so x, y are in [-1, 1]):

* one axis:  P(v) = piecewise-linear interpolation through the masters on that axis (in design
  coordinates; the default is one of the nodes, so the kink of the normalisation at the default
  never lies inside a segment);
* two axes:  f(x, y) = Px(x) + Py(y) - d + sum over quadrants q with a corner master m_q of
  |x|*|y| * D_q  for (x, y) inside quadrant q,  D_q = m_q - Px(corner) - Py(corner) + d.
  With the default at a corner of the design space and only corner masters this is the familiar
  d + x*Dx + y*Dy + x*y*Dxy (Dxy = 0 when the (1,1) master is absent).

Sparse masters (layers holding a subset of the glyphs, or a master that lacks a glyph) contribute
only to the glyphs they contain: call `weights` with the sub-list of masters that contain the
glyph.  The layout conditions must then hold for that sub-list (so only intermediate on-axis
masters and corner masters may be sparse).
"""
from fractions import Fraction as F
import math


class Unsupported(ValueError):
    """The master layout is outside the family for which a closed form is implemented."""


def fr(x):
    if isinstance(x, F):
        return x
    if isinstance(x, int):
        return F(x)
    return F(*float(x).as_integer_ratio())


def otround(x):
    """floor(x + 1/2): halves go towards +infinity (OpenType rounding)."""
    return math.floor(fr(x) + F(1, 2))


# ---------------------------------------------------------------------------------------------
# axes: user <-> design coordinates
# ---------------------------------------------------------------------------------------------

def _pl(v, knots):
    """Piecewise-linear map through the (a, b) knots (a -> b); identity without knots.  Outside
    the knots the map continues with slope 1 from the outermost knot (the designspace axis-map
    convention); generated locations never leave the knots."""
    v = fr(v)
    knots = sorted((fr(a), fr(b)) for a, b in knots)
    if not knots:
        return v
    for a, b in knots:
        if v == a:
            return b
    if v < knots[0][0]:
        return v + knots[0][1] - knots[0][0]
    if v > knots[-1][0]:
        return v + knots[-1][1] - knots[-1][0]
    for (a0, b0), (a1, b1) in zip(knots, knots[1:]):
        if a0 < v < a1:
            return b0 + (b1 - b0) * (v - a0) / (a1 - a0)
    raise AssertionError("unreachable")


def map_forward(axis, user_value):
    """user -> design value of one axis description {name, tag, min, default, max, map?}."""
    return _pl(user_value, axis.get("map") or [])


def map_backward(axis, design_value):
    """design -> user value (inverse of the axis map; maps are strictly increasing)."""
    return _pl(design_value, [(b, a) for a, b in (axis.get("map") or [])])


def design_bounds(axis):
    """(minimum, default, maximum) of an axis in design coordinates."""
    return (map_forward(axis, axis["min"]), map_forward(axis, axis["default"]),
            map_forward(axis, axis["max"]))


def to_design(axes, user_location):
    """User location {axisname: v} -> design location (axis maps applied, missing axes skipped)."""
    by = {a["name"]: a for a in axes}
    return {k: map_forward(by[k], v) for k, v in user_location.items()}


def full_location(axes, location):
    """Design location with every axis present (missing axes at their default), as Fractions."""
    out = {}
    for a in axes:
        lo, d, hi = design_bounds(a)
        out[a["name"]] = fr(location[a["name"]]) if a["name"] in location else d
    return out


def normalise(axes, location):
    """{axisname: x} with x in [-1, 1] relative to the default (design coordinates)."""
    loc = full_location(axes, location)
    out = {}
    for a in axes:
        lo, d, hi = design_bounds(a)
        v = loc[a["name"]]
        if not (lo <= v <= hi):
            raise Unsupported("location outside the axis bounds")
        if v == d:
            out[a["name"]] = F(0)
        elif v < d:
            out[a["name"]] = (v - d) / (d - lo)
        else:
            out[a["name"]] = (v - d) / (hi - d)
    return out


# ---------------------------------------------------------------------------------------------
# weights
# ---------------------------------------------------------------------------------------------

def _add(w, other, factor=1):
    for k, v in other.items():
        w[k] = w.get(k, F(0)) + factor * v
    return w


def _axis_weights(nodes, x):
    """Piecewise-linear interpolation weights on one axis.  nodes: [(x_i, master index)] with the
    default (x = 0) included; x must lie inside the hull of the nodes."""
    nodes = sorted(nodes)
    for xi, i in nodes:
        if xi == x:
            return {i: F(1)}
    if x < nodes[0][0] or x > nodes[-1][0]:
        raise Unsupported("location outside the hull of the masters on this axis")
    for (x0, i0), (x1, i1) in zip(nodes, nodes[1:]):
        if x0 < x < x1:
            t = (x - x0) / (x1 - x0)
            return {i0: 1 - t, i1: t}
    raise AssertionError("unreachable")


def layout(axes, master_locations):
    """Classify the masters.  Returns dict(default=index, on_axis={axisname: [(x, index)]},
    corners={(axis_a, axis_b, sign_a, sign_b): index}) in normalised coordinates or raises
    Unsupported."""
    norm = [normalise(axes, loc) for loc in master_locations]
    default = None
    on_axis = {a["name"]: [] for a in axes}
    corners = {}
    seen = set()
    for i, n in enumerate(norm):
        key = tuple(sorted(n.items()))
        if key in seen:
            raise Unsupported("two masters at one location")
        seen.add(key)
        nz = [(k, v) for k, v in n.items() if v != 0]
        if not nz:
            default = i
        elif len(nz) == 1:
            on_axis[nz[0][0]].append((nz[0][1], i))
        elif len(nz) == 2:
            (ka, va), (kb, vb) = sorted(nz)
            if abs(va) != 1 or abs(vb) != 1:
                raise Unsupported("off-axis master that is not at a corner")
            q = (ka, kb, 1 if va > 0 else -1, 1 if vb > 0 else -1)
            if q in corners:
                raise Unsupported("two corner masters in one quadrant")
            corners[q] = i
        else:
            raise Unsupported("master differing from the default on more than two axes")
    if default is None:
        raise Unsupported("no master at the default location")
    for a in axes:
        lo, d, hi = design_bounds(a)
        xs = {x for x, _ in on_axis[a["name"]]}
        if lo < d and F(-1) not in xs:
            raise Unsupported("no on-axis master at the minimum of %s" % a["name"])
        if d < hi and F(1) not in xs:
            raise Unsupported("no on-axis master at the maximum of %s" % a["name"])
    return {"default": default, "on_axis": on_axis, "corners": corners}


def weights(axes, master_locations, location, _layout=None):
    """{master index: weight} at `location` (design coordinates) for the masters at
    `master_locations` (design coordinates, list).  Exact Fractions; weights sum to 1."""
    lay = _layout or layout(axes, master_locations)
    x = normalise(axes, location)
    d = lay["default"]
    w = {}
    n_axes_used = 0
    per_axis = {}
    for a in axes:
        name = a["name"]
        nodes = [(F(0), d)] + lay["on_axis"][name]
        per_axis[name] = nodes
        _add(w, _axis_weights(nodes, x[name]))
        n_axes_used += 1
    # every P_axis contains the default once; f = sum P_axis - (n - 1) * d
    _add(w, {d: F(1)}, -(n_axes_used - 1))
    for (ka, kb, sa, sb), i in lay["corners"].items():
        xa, xb = x[ka], x[kb]
        if xa * sa <= 0 or xb * sb <= 0:
            continue
        s = abs(xa) * abs(xb)
        # D_q = m_q - Pa(corner) - Pb(corner) + d ; the corner lies at the axis extremes, where an
        # on-axis master sits (layout condition), so Pa(corner), Pb(corner) are single masters
        dq = {i: F(1), d: F(1)}
        _add(dq, _axis_weights(per_axis[ka], F(sa)), -1)
        _add(dq, _axis_weights(per_axis[kb], F(sb)), -1)
        _add(w, dq, s)
    return {k: v for k, v in w.items() if v != 0}


def blend(w, values):
    """sum_i w_i * values[i]  (values indexable by master index; numbers of any kind)."""
    return sum((wi * fr(values[i]) for i, wi in w.items()), F(0))


def blend_vectors(w, vectors):
    """Element-wise blend of equally long number vectors {master index: [numbers]}."""
    idx = list(w)
    n = len(vectors[idx[0]])
    for i in idx:
        if len(vectors[i]) != n:
            raise ValueError("incompatible masters")
    return [sum((w[i] * fr(vectors[i][k]) for i in idx), F(0)) for k in range(n)]


class Model:
    """Weights for one list of masters, cached per location.  `subset(indices)` gives the model of
    a sparse glyph (weights are reported in the ORIGINAL master indices)."""

    def __init__(self, axes, master_locations, indices=None):
        self.axes = axes
        self.indices = list(range(len(master_locations))) if indices is None else list(indices)
        self.all_locations = master_locations
        self.locations = [master_locations[i] for i in self.indices]
        self.layout = layout(axes, self.locations)
        self._cache = {}

    def subset(self, indices):
        return Model(self.axes, self.all_locations, indices)

    def weights(self, location):
        key = tuple(sorted((k, fr(v)) for k, v in location.items()))
        if key not in self._cache:
            w = weights(self.axes, self.locations, location, self.layout)
            self._cache[key] = {self.indices[k]: v for k, v in w.items()}
        return self._cache[key]

    def master_at(self, location):
        """Original index of the master sitting exactly at `location`, or None."""
        w = self.weights(location)
        if len(w) == 1:
            (i, v), = w.items()
            if v == 1:
                full = full_location(self.axes, location)
                if full == full_location(self.axes, self.all_locations[i]):
                    return i
        return None


def is_dyadic_safe(numbers, max_den_bits=12, max_bits=24):
    """True when every number is k / 2^n with n <= max_den_bits and |k| < 2^max_bits: sums and
    products of a handful of such numbers are exact in binary floating point, so an exact x.5 in
    the reference is a REAL tie in the code under test."""
    for v in numbers:
        v = fr(v)
        den = v.denominator
        if den & (den - 1) or den.bit_length() - 1 > max_den_bits:
            return False
        if abs(v.numerator) >= (1 << max_bits):
            return False
    return True
