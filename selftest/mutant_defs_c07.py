def define(M):
    M("C07", "glyphset_not_copied", "Lib/ufo2ft/preProcessor.py",
      "            ufo, layerName, copy=not inplace, skipExportGlyphs=skipExportGlyphs",
      "            ufo, layerName, copy=False, skipExportGlyphs=skipExportGlyphs")
    M("C07", "layer_lib_not_deepcopied", "Lib/ufo2ft/util.py",
      "            self.lib = deepcopy(layer.lib)", "            self.lib = layer.lib")
    M("C07", "glyph_lib_shallow_copy", "Lib/ufo2ft/util.py",
      "    copy.lib = deepcopy(glyph.lib)", "    copy.lib = glyph.lib")
    M("C07", "designspace_not_copied", "Lib/ufo2ft/_compilers/baseCompiler.py",
      "        if not self.inplace:\n            designSpaceDoc = designSpaceDoc.deepcopyExceptFonts()\n\n        (",
      "        if False:\n            designSpaceDoc = designSpaceDoc.deepcopyExceptFonts()\n\n        (")
    M("C07", "kern_writer_sorts_groups_in_place", "Lib/ufo2ft/featureWriters/kernFeatureWriter.py",
      "            for name, members in font.groups.items():\n                # prune non-existent or skipped glyphs",
      "            for name, members in font.groups.items():\n                font.groups[name] = sorted(members)\n                # prune non-existent or skipped glyphs")
    # (rememberCurveType honoured without inplace was tried: the curve-type key is written into the
    #  working glyph set's COPY of the layer lib, never into the source - equivalent for C07)
    M("C07", "interpolatable_glyphsets_not_copied", "Lib/ufo2ft/preProcessor.py",
      "            _GlyphSet.from_layer(ufo, layerName, copy=not inplace)\n            for ufo, layerName in zip_strict(ufos, layerNames)",
      "            _GlyphSet.from_layer(ufo, layerName, copy=(not inplace and layerName is not None))\n            for ufo, layerName in zip_strict(ufos, layerNames)")
    M("C07", "anchors_shared_with_source", "Lib/ufo2ft/util.py",
      "    copy.anchors = [dict(a) for a in glyph.anchors]", "    copy.anchors = list(glyph.anchors)")
    M("C07", "info_default_written_back_on_error", "Lib/ufo2ft/outlineCompiler.py",
      "            if width < 0:\n                raise ValueError(\"The width should not be negative: '%s'\" % (glyphName))",
      "            if width < 0:\n                self.ufo.info.note = 'negative width in ' + glyphName\n                raise ValueError(\"The width should not be negative: '%s'\" % (glyphName))")
