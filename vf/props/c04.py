"""C04 - Compiled fonts are serialisable and their derived fields are consistent.

Observe: bytes1 = save(font); font2 = reload; bytes2 = save(font2) (lazily AND with every table
decompiled first); tables of font2.
Oracle: bytes equal; every derived field recomputed from the stored glyph data / cmap by the
OpenType formulas (DESIGN 4.6 for CFF extrema).
Enumerated sub-space: all advance sequences of length <= 5 (thorough: 6) over {0, a, b} with
outline/empty patterns at the ends - numberOfHMetrics.
"""
import copy
import io
import itertools
import math
import struct
import traceback

import vf  # noqa: F401
from vf.build import build_ufo
from vf.props.c01 import bounded_font, no_glyph_draws_anything
from vf.props.c02 import judge_maxp
from vf.ref import render as R

ID = "C04"
RULE = ("(a) enumerated: every advance sequence of length 1..5 (thorough 6) over {0,300,700} x "
        "{first,last glyph with/without outline} x {TTF,OTF}; (b) random UFOs (empty glyphs, "
        "component-only glyphs, fractional coordinates and advances, vertical metrics on/off with "
        "verticalOrigin, post format 2/3) x TTF/OTF/CFF2 x both UFO libraries; distinct = sha1 of "
        "the case; non-trivial = compiled, saved, reloaded, re-saved and >= 2 glyphs with outlines "
        "had their derived metrics recomputed")
ASSUMPTIONS = [
    "fontTools' table readers are trusted; hmtx/vmtx are additionally decoded from raw bytes",
    "CFF: per-glyph side bearings in hmtx/vmtx are true curve extrema stored to the nearest integer "
    "(|stored - true| <= 1/2, DESIGN 4.6); head / hhea / vhea aggregates and FontBBox are recomputed "
    "by fontTools on save with outward rounding, so any integer within 1 unit of the true extremum "
    "is accepted there; TrueType boxes and aggregates are exact",
    "default rounding only; SOURCE_DATE_EPOCH pinned (head.modified is rewritten on every save)",
]
NONVACUITY = ["pre_fonts_judged", "pre_os2_supplementary", "resave_lazy_equal", "resave_full_equal", "hmtx_raw_decoded", "bearings_checked",
              "vertical_cases", "vorg_checked", "enumerated_sequences", "post3_cases",
              "equal_tail_runs", "empty_glyphs", "composite_glyphs_tt", "os2_char_index_checked"]

ADV = [0, 300, 700]


def enum_cases(maxlen):
    out = []
    for n in range(1, maxlen + 1):
        for seq in itertools.product(ADV, repeat=n):
            out.append(seq)
    return out


def n_enum(tier):
    return len(enum_cases(5 if tier == "quick" else 6)) * 2


def n_cases(tier):
    return n_enum(tier) + (900 if tier == "quick" else 20000)


def budget_s(tier):
    return 150 if tier == "quick" else 1500


BOX = [[[10, 0, "line"], [90, 0, "line"], [90, 100, "line"], [10, 100, "line"]]]
ISO_PREFIX = [".notdef", "space", "exclam", "quotedbl", "numbersign"]


def gen(rng, idx, tier):
    ne = n_enum(tier)
    if idx < ne:
        seqs = enum_cases(5 if tier == "quick" else 6)
        seq = seqs[idx // 2]
        fmt = "ttf" if idx % 2 == 0 else "otf"
        pattern = rng.choice(["all", "first_empty", "last_empty", "ends_empty", "none"])
        glyphs = []
        for i, a in enumerate(seq):
            outline = (pattern == "all" or (pattern == "first_empty" and i > 0) or
                       (pattern == "last_empty" and i < len(seq) - 1) or
                       (pattern == "ends_empty" and 0 < i < len(seq) - 1))
            glyphs.append({"name": ".notdef" if i == 0 else "g%d" % i, "width": a,
                           "unicodes": [0x40 + i] if i else [], "components": [], "anchors": [],
                           "contours": [[[p[0] + 7 * i, p[1], p[2]] for p in BOX[0]]] if outline else []})
        return {"stratum": "enumerated", "seq": list(seq), "fmt": fmt, "lib": "ufoLib2",
                "ufo": {"glyphs": glyphs, "info": {"unitsPerEm": 1000, "familyName": "T",
                                                   "styleName": "R"}, "lib": {}},
                "opts": {"optimizeCFF": 1} if fmt == "otf" else {}, "names_arg": True}
    r = rng.random()
    stratum = "default"
    mode = rng.choice(["mixed", "dyadic", "int", "int"])
    glyphs = bounded_font(rng, mode, tmode="tt")
    if r < 0.04:
        stratum = "iso_adobe_prefix"
        k = rng.randint(1, min(len(ISO_PREFIX), len(glyphs)))
        glyphs = glyphs[:k]
        for g, nm in zip(glyphs, ISO_PREFIX):
            g["name"] = nm
            g["components"] = []
            if nm == ".notdef":
                g["unicodes"] = []
    elif r < 0.06 and any(g["name"] == ".notdef" for g in glyphs):
        stratum = "notdef_codepoint"
        for g in glyphs:
            if g["name"] == ".notdef":
                g["unicodes"] = [rng.choice([0x21, 0x3A])]
    # descending / equal tail advances
    if rng.random() < 0.5:
        w = rng.choice([0, 500, 600.5])
        for g in glyphs[-rng.randint(1, len(glyphs)):]:
            g["width"] = w
    for g in glyphs:
        if g["width"] < 0:
            g["width"] = 0
    if rng.random() < 0.25:
        cands = [g for g in glyphs if g["name"] != ".notdef"]
        if cands:
            rng.choice(cands)["unicodes"].append(rng.choice([0x10000, 0x1F600, 0x10FFFF]))
    if rng.random() < 0.1:
        # U+0000 is a code point like any other (the lowest one): alone or next to others
        cands = [g for g in glyphs if g["name"] != ".notdef"]
        if cands:
            g0 = rng.choice(cands)
            if rng.random() < 0.3:
                for g in glyphs:
                    g["unicodes"] = []
            g0["unicodes"] = [0] + [cp for cp in g0["unicodes"] if cp]
    info = {"unitsPerEm": 1000, "familyName": "T", "styleName": "R"}
    vertical = rng.random() < 0.45
    if vertical:
        info.update({"openTypeVheaVertTypoAscender": 500, "openTypeVheaVertTypoDescender": -500,
                     "openTypeVheaVertTypoLineGap": rng.choice([0, 100])})
        common = rng.choice([880, 900.5])
        for g in glyphs:
            g["height"] = rng.choice([1000, 1000, 0, 850.5, 1200])
            q = rng.random()
            if q < 0.5:
                g["verticalOrigin"] = common
            elif q < 0.8:
                g["verticalOrigin"] = rng.choice([700, 910.5, 0])
    lib = {}
    fmt = rng.choice(["ttf", "otf", "otf", "cff2"])
    if fmt == "ttf" and stratum == "default":
        if rng.random() < 0.08:
            stratum = "tt_empty_component"
        else:
            # keep clear of the listed fontTools finding: no component whose base has no points
            for _ in range(6):
                pairs = empty_base_components(glyphs)
                if not pairs:
                    break
                for g, i in reversed(pairs):
                    del g["components"][i]
    if rng.random() < 0.25 and fmt != "otf":
        lib["com.github.googlei18n.ufo2ft.keepGlyphNames"] = False
    opts = {}
    if fmt != "ttf":
        opts["optimizeCFF"] = 2 if stratum == "iso_adobe_prefix" else rng.choice([0, 1, 2])
        if opts["optimizeCFF"] == 2 and stratum == "default":
            if rng.random() < 0.12:
                stratum = "lone_point_subroutinised"
            else:
                strip_lone_points(glyphs)   # keep clear of the listed cffsubr finding
        if fmt == "cff2":
            opts["cffVersion"] = 2
        if stratum == "default" and rng.random() < 0.15:
            # fractional stored coordinates: the integer boxes must enclose them (only for
            # moderate coordinates: fractional charstring operands are 16.16 numbers)
            from vf.props.c01 import max_abs_coord
            try:
                small = max_abs_coord(glyphs) <= 8000
            except Exception:  # noqa: BLE001
                small = False
            if small:
                opts["roundTolerance"] = rng.choice([0, 0.25])
    else:
        opts["flattenComponents"] = rng.random() < 0.3
    instr = None
    if fmt == "ttf" and stratum == "default" and rng.random() < 0.15:
        # TrueType glyph programs (public.truetype.instructions) on simple AND composite glyphs;
        # each needs the hash of the compiled glyph, which run() takes from a first compile
        names_ = [g["name"] for g in glyphs if g["name"] != ".notdef" and (g["contours"] or g["components"])]
        if names_:
            instr = {n: rng.choice([1, 2, 3, 5, 9, 14]) for n in rng.sample(
                names_, min(len(names_), rng.randint(1, 4)))}
            comps_ = [g["name"] for g in glyphs if g["components"] and not g["contours"]
                      and g["name"] != ".notdef"]
            if comps_ and rng.random() < 0.7:
                instr[rng.choice(comps_)] = max(instr.values()) + rng.choice([1, 4])
            simple_ = [g["name"] for g in glyphs if g["contours"] and not g["components"]
                       and g["name"] != ".notdef"]
            if simple_ and rng.random() < 0.5 and not any(
                    g["name"] in ("Ashared", "fshared", "nshared") for g in glyphs):
                # a programmed composite whose bases SHARE components (A = c + f, f = c + n,
                # n = c, c a composite itself) and which sorts, by name, in front of its own base: the compiled base
                # must be in place when the composite is hashed for its program
                b_ = simple_[0]
                mk_ = lambda n_, cs_: {"name": n_, "width": 600, "unicodes": [], "contours": [],  # noqa: E731
                                       "anchors": [], "components": [
                                           {"base": c_, "t": [1, 0, 0, 1, 10 * k_, 5 * k_]}
                                           for k_, c_ in enumerate(cs_)]}
                glyphs.append(mk_("c1shared", [b_]))
                glyphs.append(mk_("c2shared", ["c1shared"]))
                glyphs.append(mk_("nshared", ["c2shared"]))
                glyphs.append(mk_("fshared", ["c2shared", "nshared"]))
                glyphs.append(mk_("Ashared", ["c2shared", "fshared"]))
                instr["Ashared"] = 7
                opts["flattenComponents"] = False
    return {"stratum": stratum, "fmt": fmt, "lib": rng.choice(["defcon", "ufoLib2"]),
            "instructions": instr,
            "ufo": {"glyphs": glyphs, "info": info, "lib": lib}, "opts": opts,
            # glyph names are dropped (post format 3) only when the lib keys decide, i.e. when the
            # useProductionNames argument is not given
            "names_arg": "com.github.googlei18n.ufo2ft.keepGlyphNames" not in lib}


def sample_view(case):
    g = case["ufo"]["glyphs"]
    return {"stratum": case["stratum"], "fmt": case["fmt"], "opts": case["opts"],
            "seq": case.get("seq"), "widths": [x["width"] for x in g],
            "names": [x["name"] for x in g], "info": case["ufo"]["info"], "lib": case["ufo"]["lib"]}


# ---------------------------------------------------------------- R-bezier: true bounds

def cubic_extrema_1d(a, b, c, d):
    """Parameter values in (0,1) where the derivative of a 1-D cubic Bezier vanishes."""
    # derivative coefficients of B(t): 3[(b-a)(1-t)^2 + 2(c-b)(1-t)t + (d-c)t^2]
    p, q, r = b - a, c - b, d - c
    A = p - 2 * q + r
    B = 2 * (q - p)
    C = p
    ts = []
    scale = max(abs(p), abs(q), abs(r), 1e-30)
    if abs(A) < 1e-12 * scale:
        if abs(B) > 1e-12 * scale:
            ts.append(-C / B)
    else:
        disc = B * B - 4 * A * C
        if disc >= 0:
            # numerically stable form: a degree-elevated quadratic with fractional coordinates
            # has A ~ 1e-10 instead of 0, the textbook formula then cancels catastrophically
            s = math.sqrt(disc)
            qq = -(B + (s if B >= 0 else -s)) / 2
            if qq != 0:
                ts.append(C / qq)
            ts.append(qq / A)
    return [t for t in ts if 0 < t < 1]


def bez(a, b, c, d, t):
    u = 1 - t
    return u * u * u * a + 3 * u * u * t * b + 3 * u * t * t * c + t * t * t * d


def true_bounds(cycles):
    """Exact-ish bounds of closed cycles of ('l'|'c') segments; returns (xmin,ymin,xmax,ymax) and
    flags telling whether each extreme is attained at a segment end point."""
    xs, ys = [], []
    curve_x, curve_y = [], []
    for start, segs in cycles:
        cur = start
        xs.append(cur[0]); ys.append(cur[1])
        for s in segs:
            if s[0] == "l":
                xs.append(s[1][0]); ys.append(s[1][1])
            else:
                p0, p1, p2, p3 = cur, s[1], s[2], s[3]
                xs.append(p3[0]); ys.append(p3[1])
                for t in cubic_extrema_1d(p0[0], p1[0], p2[0], p3[0]):
                    curve_x.append(bez(p0[0], p1[0], p2[0], p3[0], t))
                for t in cubic_extrema_1d(p0[1], p1[1], p2[1], p3[1]):
                    curve_y.append(bez(p0[1], p1[1], p2[1], p3[1], t))
            cur = s[-1]
    if not xs:
        return None
    return (min(xs + curve_x), min(ys + curve_y), max(xs + curve_x), max(ys + curve_y))


def near(stored, true, tol=0.5 + 1e-6):
    return abs(stored - true) <= tol


SLACK = [2e-3]      # read-back precision of fractional coordinates (set per case in run())


def min_edge_ok(stored, true, tolmode):
    """A stored integer for a box MINIMUM (lsb, xMin, yMin): nearest integer normally; with a
    rounding tolerance < 1/2 the outline keeps fractional coordinates and the box is rounded
    OUTWARDS (floor) unless within the tolerance of an integer - never inwards by more than 1/2."""
    if not tolmode:
        return near(stored, true)
    return true - 1 - SLACK[0] <= stored <= true + 0.5 + SLACK[0]


def max_edge_ok(stored, true, tolmode):
    if not tolmode:
        return near(stored, true)
    return true - 0.5 - SLACK[0] <= stored <= true + 1 + SLACK[0]


# ---------------------------------------------------------------- compiled (unsaved) font

def glyph_boxes(tt):
    from fontTools.pens.recordingPen import RecordingPen
    order = tt.getGlyphOrder()
    boxes = {}
    if "glyf" in tt:
        glyf = tt["glyf"]
        for n in order:
            g = glyf[n]
            if g.numberOfContours == 0:
                boxes[n] = None
                continue
            coords, _, _ = g.getCoordinates(glyf)
            if len(coords) == 0:
                boxes[n] = None
                continue
            xs = [c[0] for c in coords]
            ys = [c[1] for c in coords]
            boxes[n] = (min(xs), min(ys), max(xs), max(ys))
    else:
        gs = tt.getGlyphSet()
        for n in order:
            rec = RecordingPen()
            gs[n].draw(rec)
            cyc = R.recording_to_cycles(rec.value)
            boxes[n] = true_bounds(cyc) if cyc else None
    return boxes


def snapshot_pre(tt):
    """Values as ufo2ft computed them, read from the compiled TTFont BEFORE it is saved."""
    order = tt.getGlyphOrder()
    hhea, head = tt["hhea"], tt["head"]
    snap = {
        "is_tt": "glyf" in tt, "order": list(order), "boxes": glyph_boxes(tt),
        "hmtx": {n: tuple(tt["hmtx"][n]) for n in order},
        "hhea": {k: getattr(hhea, k) for k in ("advanceWidthMax", "minLeftSideBearing",
                                               "minRightSideBearing", "xMaxExtent",
                                               "numberOfHMetrics")},
        "head": (head.xMin, head.yMin, head.xMax, head.yMax),
        "os2": (tt["OS/2"].usFirstCharIndex, tt["OS/2"].usLastCharIndex),
    }
    if "vmtx" in tt and "vhea" in tt:
        vhea = tt["vhea"]
        snap["vmtx"] = {n: tuple(tt["vmtx"][n]) for n in order}
        snap["vhea"] = {k: getattr(vhea, k) for k in ("advanceHeightMax", "minTopSideBearing",
                                                      "minBottomSideBearing", "yMaxExtent",
                                                      "numberOfVMetrics")}
    return snap


def judge_pre(snap, bump, tolmode=False):
    """ufo2ft's own derived values against the glyph data of the compiled font: TrueType exact,
    CFF within 1/2 of the true extremum (nearest-integer boxes, DESIGN 4.6)."""
    out = []
    is_tt = snap["is_tt"]
    ok = (lambda s, t: abs(s - t) <= ((1.0 if tolmode else 0.5) + 1e-6))
    # TrueType composites have fractional transformed points, so 1/2 applies there too; simple
    # TrueType glyphs have integer points, for which |s - t| <= 1/2 means equality.
    order, boxes, hm = snap["order"], snap["boxes"], snap["hmtx"]
    advs = [hm[n][0] for n in order]
    lsbs, rsbs, exts = [], [], []
    for n in order:
        b = boxes[n]
        if b is None:
            if hm[n][1] != 0:
                out.append({"mech": "pre_lsb_empty_glyph", "detail": {"glyph": n, "lsb": hm[n][1]}})
            continue
        if not (min_edge_ok(hm[n][1], b[0], tolmode) if not is_tt else ok(hm[n][1], b[0])):
            out.append({"mech": "pre_lsb", "detail": {"glyph": n, "lsb": hm[n][1], "xMin": b[0]}})
        lsbs.append(b[0])
        rsbs.append(hm[n][0] - b[2])
        exts.append(b[2])
    bump("pre_fonts_judged")
    hh = snap["hhea"]
    exp = {"advanceWidthMax": max(advs) if advs else 0,
           "minLeftSideBearing": min(lsbs) if lsbs else 0,
           "minRightSideBearing": min(rsbs) if rsbs else 0,
           "xMaxExtent": max(exts) if exts else 0}
    for k, t in exp.items():
        good = hh[k] == t if k == "advanceWidthMax" else ok(hh[k], t)
        if not good:
            out.append({"mech": "pre_hhea_" + k, "detail": {"stored": hh[k], "recomputed": t}})
    nl = hh["numberOfHMetrics"]
    if not (1 <= nl <= len(order)) or any(a != advs[nl - 1] for a in advs[nl - 1:]):
        out.append({"mech": "pre_numberOfHMetrics", "detail": {"stored": nl, "advances": advs}})
    elif nl > 1 and advs[nl - 2] == advs[nl - 1]:
        # the count the metrics table implies is the smallest one (what a binary stores)
        out.append({"mech": "pre_numberOfHMetrics_not_minimal", "detail": {
            "stored": nl, "advances": advs}})
    nb = [b for b in boxes.values() if b is not None]
    union = ((min(b[0] for b in nb), min(b[1] for b in nb), max(b[2] for b in nb),
              max(b[3] for b in nb)) if nb else (0, 0, 0, 0))
    if not all(ok(s, t) for s, t in zip(snap["head"], union)):
        out.append({"mech": "pre_head_bbox", "detail": {"stored": list(snap["head"]),
                                                        "union": list(union)}})
    if "vmtx" in snap:
        vm, vh = snap["vmtx"], snap["vhea"]
        hs = [vm[n][0] for n in order]
        if vh["advanceHeightMax"] != (max(hs) if hs else 0):
            out.append({"mech": "pre_vhea_advanceHeightMax", "detail": {
                "stored": vh["advanceHeightMax"], "recomputed": max(hs)}})
        nl = vh["numberOfVMetrics"]
        if not (1 <= nl <= len(order)) or any(a != hs[nl - 1] for a in hs[nl - 1:]):
            out.append({"mech": "pre_numberOfVMetrics", "detail": {"stored": nl, "heights": hs}})
        elif nl > 1 and hs[nl - 2] == hs[nl - 1]:
            out.append({"mech": "pre_numberOfVMetrics_not_minimal", "detail": {
                "stored": nl, "heights": hs}})
        # tsb + yMax is the glyph's vertical origin: bottom bearing and extent follow from it
        bsbs, yext, tsbs = [], [], []
        for n in order:
            b = boxes[n]
            if b is None:
                continue
            tsb = vm[n][1]
            tsbs.append(tsb)
            bsbs.append(vm[n][0] - tsb - (b[3] - b[1]))
            yext.append(tsb + (b[3] - b[1]))
        expv = {"minTopSideBearing": min(tsbs) if tsbs else 0,
                "minBottomSideBearing": min(bsbs) if bsbs else 0,
                "yMaxExtent": max(yext) if yext else 0}
        okv = (lambda s, t: abs(s - t) <= 1.0 + 1e-6)    # two rounded box edges are involved
        for k, t in expv.items():
            good = vh[k] == t if k == "minTopSideBearing" else okv(vh[k], t)
            if not good:
                out.append({"mech": "pre_vhea_" + k, "detail": {"stored": vh[k], "recomputed": t}})
    return out


# ---------------------------------------------------------------- main

def run(case):
    import ufo2ft
    from fontTools.pens.recordingPen import RecordingPen
    from fontTools.ttLib import TTFont

    counters = {}

    def bump(k, n=1):
        counters[k] = counters.get(k, 0) + n

    spec = case["ufo"]
    fmt = case["fmt"]
    kw = dict(case["opts"])
    if case.get("names_arg", True):
        kw["useProductionNames"] = False
    if case.get("instructions"):
        # first compile: the glyph hashes the instruction compiler will ask for
        try:
            from functools import partial
            from fontTools.misc.fixedTools import floatToFixedToFloat
            from fontTools.pens.hashPointPen import HashPointPen
            from fontTools.pens.roundingPen import RoundingPointPen
            t0 = ufo2ft.compileTTF(build_ufo(spec, case["lib"]), **kw)
            spec = copy.deepcopy(spec)
            for g in spec["glyphs"]:
                k = case["instructions"].get(g["name"])
                if k and g["name"] in t0["glyf"].keys():
                    hp = HashPointPen(t0["hmtx"][g["name"]][0], t0.getGlyphSet())
                    t0["glyf"][g["name"]].drawPoints(RoundingPointPen(
                        hp, transformRoundFunc=partial(floatToFixedToFloat, precisionBits=14)), t0["glyf"])
                    g.setdefault("lib", {})["public.truetype.instructions"] = {
                        "formatVersion": "1", "id": hp.hash, "assembly": "\n".join(["SVTCA[0]"] * k)}
            bump("fonts_with_glyph_programs")
        except Exception:  # noqa: BLE001
            return {"status": "inconclusive", "counters": {"instruction_setup_failed": 1},
                    "note": traceback.format_exc()[-800:]}
    font = build_ufo(spec, case["lib"])
    violations = []
    src_names = [g["name"] for g in spec["glyphs"]]
    from vf.props.c03 import ref_order
    src_order = ref_order(src_names, list(font.glyphOrder))
    try:
        if fmt == "ttf":
            tt = ufo2ft.compileTTF(font, **kw)
        else:
            tt = ufo2ft.compileOTF(font, **kw)
    except Exception:  # noqa: BLE001
        return {"status": "violated", "counters": counters, "violations": [
            {"mech": "compile_exception", "detail": {"trace": traceback.format_exc()[-2500:]}}]}
    tolmode = case["opts"].get("roundTolerance") is not None and case["opts"]["roundTolerance"] < 0.5
    # 16.16 deltas; the default subroutiniser re-encodes reals with 2 decimals (accumulating)
    SLACK[0] = 0.25 if case["opts"].get("optimizeCFF", 2) >= 2 else 2e-3
    if tolmode:
        bump("round_tolerance_cases")
    try:
        pre = snapshot_pre(tt)      # ufo2ft's own values: fontTools recomputes several on save
    except Exception:  # noqa: BLE001
        return {"status": "violated", "counters": counters, "violations": [
            {"mech": "compiled_font_unreadable", "detail": {
                "trace": traceback.format_exc()[-2500:]}}]}
    keep_names = spec["lib"].get("com.github.googlei18n.ufo2ft.keepGlyphNames", True)
    cps_all = [cp for g in spec["glyphs"] for cp in g.get("unicodes", [])]
    exp_os2 = ((min(min(cps_all), 0xFFFF), min(max(cps_all), 0xFFFF)) if cps_all
               else (0xFFFF, 0xFFFF))
    if keep_names and (fmt == "ttf" or case["opts"].get("optimizeCFF", 2) < 2):
        # (a first index above 0xFFFF cannot be stored; ufo2ft leaves the raw minimum in the
        # unsaved object and fontTools clamps it on save - both are accepted for the object)
        if pre["os2"] != exp_os2 and pre["os2"] != ((min(cps_all) if cps_all else 0xFFFF), exp_os2[1]):
            violations.append({"mech": "pre_os2_char_index", "detail": {
                "stored": list(pre["os2"]), "expected": list(exp_os2)}})
        if cps_all and max(cps_all) > 0xFFFF:
            bump("pre_os2_supplementary")
        if cps_all and min(cps_all) == 0:
            bump("pre_os2_codepoint_zero")
        # otherwise post-processing already saved / reloaded the font (cffsubr, name dropping) and
        # the in-memory values are fontTools' recomputed ones, judged below
        violations.extend(judge_pre(pre, bump, tolmode))
    try:
        b1 = io.BytesIO()
        tt.save(b1)
        b1 = b1.getvalue()
    except Exception:  # noqa: BLE001
        return {"status": "violated", "counters": counters, "violations": [
            {"mech": "save_exception", "detail": {"trace": traceback.format_exc()[-2500:]}}]}
    try:
        f2 = TTFont(io.BytesIO(b1))
        b2 = io.BytesIO()
        f2.save(b2)
        if b2.getvalue() != b1:
            violations.append({"mech": "resave_lazy_differs", "detail": {}})
        else:
            bump("resave_lazy_equal")
        f3 = TTFont(io.BytesIO(b1))
        for tag in f3.keys():
            if tag != "GlyphOrder":
                f3[tag]
        for tag in ("CFF ", "CFF2"):
            if tag in f3:
                cs = f3[tag].cff.topDictIndex[0].CharStrings
                for n in cs.keys():
                    cs[n].decompile()
        b3 = io.BytesIO()
        f3.save(b3)
        if b3.getvalue() != b1:
            r1 = TTFont(io.BytesIO(b1))
            r3 = TTFont(io.BytesIO(b3.getvalue()))
            tables = [t for t in r1.reader.keys()
                      if t not in r3.reader or r1.reader[t] != r3.reader[t]]
            violations.append({"mech": "resave_full_differs", "detail": {"tables": tables}})
        else:
            bump("resave_full_equal")
    except Exception:  # noqa: BLE001
        return {"status": "violated", "counters": counters, "violations": [
            {"mech": "reload_exception", "detail": {"trace": traceback.format_exc()[-2500:]}}]}

    tt = TTFont(io.BytesIO(b1))
    order = tt.getGlyphOrder()
    glyphs = {g["name"]: g for g in spec["glyphs"]}
    keep = spec["lib"].get("com.github.googlei18n.ufo2ft.keepGlyphNames", True)
    if not keep and "CFF " not in tt and len(order) == len(src_order):
        # names were dropped (post 3.0): glyphs are identified by index
        glyphs = {order[i]: glyphs[src_order[i]] for i in range(len(order))
                  if src_order[i] in glyphs}
    is_tt = "glyf" in tt
    # ---------------- per glyph boxes
    boxes = {}       # name -> (xmin, ymin, xmax, ymax) true bounds (TT: exact ints) or None
    if is_tt:
        glyf = tt["glyf"]
        for n in order:
            g = glyf[n]
            if g.numberOfContours == 0:
                boxes[n] = None
                continue
            coords, _, _ = g.getCoordinates(glyf)
            if len(coords) == 0:
                boxes[n] = None
                continue
            xs = [c[0] for c in coords]
            ys = [c[1] for c in coords]
            box = (min(xs), min(ys), max(xs), max(ys))
            hdr = (g.xMin, g.yMin, g.xMax, g.yMax)
            # simple glyphs: integer points, exact; composites: the transformed points are
            # fractional and the header stores their bounds to the nearest integer
            tol = 0.5 + 1e-6 if g.isComposite() else 0
            if any(abs(a - b) > tol for a, b in zip(hdr, box)):
                violations.append({"mech": "glyf_header_box", "detail": {
                    "glyph": n, "stored": list(hdr), "points": list(box)}})
            boxes[n] = hdr
            if g.isComposite():
                bump("composite_glyphs_tt")
    else:
        gs = tt.getGlyphSet()
        for n in order:
            rec = RecordingPen()
            gs[n].draw(rec)
            # every stored point counts, including contours that consist of a single point (the
            # same convention as TrueType header boxes): only 'no points at all' is an empty glyph
            cyc = R.recording_to_cycles(rec.value)
            boxes[n] = true_bounds(cyc) if cyc else None
    for n in order:
        if boxes[n] is None:
            bump("empty_glyphs")
    # ---------------- hmtx raw decode
    hhea = tt["hhea"]
    raw = tt.reader["hmtx"]
    nlong = hhea.numberOfHMetrics
    ng = len(order)
    exp_len = 4 * nlong + 2 * (ng - nlong)
    adv_raw, lsb_raw = [], []
    if not (1 <= nlong <= ng) or len(raw) < exp_len:
        violations.append({"mech": "hmtx_length", "detail": {"numberOfHMetrics": nlong,
                                                             "numGlyphs": ng, "bytes": len(raw)}})
    else:
        for i in range(nlong):
            a, l = struct.unpack(">Hh", raw[4 * i:4 * i + 4])
            adv_raw.append(a)
            lsb_raw.append(l)
        for i in range(ng - nlong):
            (l,) = struct.unpack(">h", raw[4 * nlong + 2 * i:4 * nlong + 2 * i + 2])
            adv_raw.append(adv_raw[-1])
            lsb_raw.append(l)
        bump("hmtx_raw_decoded")
        if nlong < ng:
            bump("equal_tail_runs")
        for i, n in enumerate(order):
            if n in glyphs:
                exp = R.otround(glyphs[n]["width"])
                if adv_raw[i] != exp:
                    violations.append({"mech": "hmtx_advance", "detail": {
                        "glyph": n, "index": i, "expected": exp, "decoded": adv_raw[i],
                        "numberOfHMetrics": nlong, "advances": adv_raw}})
                    break
        if case["stratum"] == "enumerated":
            bump("enumerated_sequences")
        # ---------------- bearings, hhea
        lsbs, rsbs, exts = [], [], []
        for i, n in enumerate(order):
            b = boxes[n]
            if b is None:
                if lsb_raw[i] != 0:
                    violations.append({"mech": "lsb_empty_glyph", "detail": {"glyph": n,
                                                                            "lsb": lsb_raw[i]}})
                continue
            bump("bearings_checked")
            ok = (lsb_raw[i] == b[0]) if is_tt else min_edge_ok(lsb_raw[i], b[0], tolmode)
            if not ok:
                violations.append({"mech": "lsb", "detail": {"glyph": n, "lsb": lsb_raw[i],
                                                             "xMin": b[0]}})
            lsbs.append(b[0])
            rsbs.append(adv_raw[i] - b[2])
            exts.append(b[2])
        # hhea / head of a CFF font are recomputed by fontTools at save time from the true
        # charstring bounds rounded OUTWARDS (floor/ceil), hmtx keeps ufo2ft's nearest-integer
        # bearings: any integer within one unit of the true extremum is a consistent value
        # (rsb and extent combine a nearest-rounded bearing with an outward-rounded width: < 2)
        chk = (lambda s, t: s == t) if is_tt else (lambda s, t: near(s, t, 1.0))
        chk2 = (lambda s, t: s == t) if is_tt else (lambda s, t: near(s, t, 2.0))
        if lsbs:
            for field, stored, true, ck in (
                    ("minLeftSideBearing", hhea.minLeftSideBearing, min(lsbs), chk),
                    ("minRightSideBearing", hhea.minRightSideBearing, min(rsbs), chk2),
                    ("xMaxExtent", hhea.xMaxExtent, max(exts), chk2)):
                if not ck(stored, true):
                    violations.append({"mech": "hhea_" + field, "detail": {"stored": stored,
                                                                           "recomputed": true}})
        else:
            for field in ("minLeftSideBearing", "minRightSideBearing", "xMaxExtent"):
                if getattr(hhea, field) != 0:
                    violations.append({"mech": "hhea_" + field, "detail": {
                        "stored": getattr(hhea, field), "recomputed": 0}})
        if hhea.advanceWidthMax != max(adv_raw):
            violations.append({"mech": "hhea_advanceWidthMax", "detail": {
                "stored": hhea.advanceWidthMax, "recomputed": max(adv_raw)}})
    # ---------------- head box
    nb = [b for b in boxes.values() if b is not None]
    head = tt["head"]
    if nb:
        union = (min(b[0] for b in nb), min(b[1] for b in nb), max(b[2] for b in nb),
                 max(b[3] for b in nb))
    else:
        union = (0, 0, 0, 0)
    stored = (head.xMin, head.yMin, head.xMax, head.yMax)
    chk = (lambda s, t: s == t) if is_tt else (lambda s, t: near(s, t, 1.0))
    if not all(chk(s, t) for s, t in zip(stored, union)):
        violations.append({"mech": "head_bbox", "detail": {"stored": list(stored),
                                                          "union": list(union)}})
    if "CFF " in tt:
        fb = tt["CFF "].cff.topDictIndex[0].FontBBox
        if list(fb) != list(stored):
            violations.append({"mech": "cff_fontbbox", "detail": {"cff": list(fb),
                                                                  "head": list(stored)}})
    # ---------------- vertical
    vertical = "openTypeVheaVertTypoAscender" in spec["info"]
    if vertical:
        bump("vertical_cases")
        for t in ("vhea", "vmtx"):
            if t not in tt:
                violations.append({"mech": "vertical_table_missing", "detail": {"table": t}})
        if "vmtx" in tt and "vhea" in tt:
            vmtx, vhea = tt["vmtx"], tt["vhea"]
            typo_asc = tt["OS/2"].sTypoAscender
            heights, tsbs, bsbs, yext = [], [], [], []
            origins = {}
            for n in order:
                g = glyphs.get(n)
                if g is None:
                    continue
                h, tsb = vmtx[n]
                vo = g.get("verticalOrigin")
                vo = R.otround(vo) if vo is not None else typo_asc
                origins[n] = vo
                if h != R.otround(g.get("height", 0)):
                    violations.append({"mech": "vmtx_height", "detail": {
                        "glyph": n, "stored": h, "expected": R.otround(g.get("height", 0))}})
                heights.append(h)
                b = boxes[n]
                if b is None:
                    if tsb != vo:
                        violations.append({"mech": "tsb_empty_glyph", "detail": {
                            "glyph": n, "tsb": tsb, "origin": vo}})
                    continue
                # tsb = origin - (stored yMax): an outward-rounded yMax makes tsb smaller
                ok = (tsb == vo - b[3]) if is_tt else min_edge_ok(tsb, vo - b[3], tolmode)
                if not ok:
                    violations.append({"mech": "tsb", "detail": {"glyph": n, "tsb": tsb,
                                                                 "origin": vo, "yMax": b[3]}})
                tsbs.append(vo - b[3])
                bsbs.append(h - (vo - b[3]) - (b[3] - b[1]))
                yext.append((vo - b[3]) + (b[3] - b[1]))
            if ".notdef" in glyphs or True:
                hs = [vmtx[n][0] for n in order]
                if vhea.advanceHeightMax != max(hs):
                    violations.append({"mech": "vhea_advanceHeightMax", "detail": {
                        "stored": vhea.advanceHeightMax, "recomputed": max(hs)}})
            if tsbs and all(n in glyphs for n in order):
                chk2 = (lambda s, t: s == t) if is_tt else (lambda s, t: near(s, t, 2.0))
                for field, st, true, ck in (
                        ("minTopSideBearing", vhea.minTopSideBearing, min(tsbs), chk),
                        ("minBottomSideBearing", vhea.minBottomSideBearing, min(bsbs), chk2),
                        ("yMaxExtent", vhea.yMaxExtent, max(yext), chk2)):
                    if not ck(st, true):
                        violations.append({"mech": "vhea_" + field, "detail": {
                            "stored": st, "recomputed": true}})
            # vmtx raw decode
            rawv = tt.reader["vmtx"]
            nl = vhea.numberOfVMetrics
            if not (1 <= nl <= ng) or len(rawv) < 4 * nl + 2 * (ng - nl):
                violations.append({"mech": "vmtx_length", "detail": {"numberOfVMetrics": nl}})
            else:
                dec = [struct.unpack(">H", rawv[4 * i:4 * i + 2])[0] for i in range(nl)]
                dec += [dec[-1]] * (ng - nl)
                if dec != [vmtx[n][0] for n in order]:
                    violations.append({"mech": "vmtx_decode", "detail": {}})
            if not is_tt:
                if "VORG" not in tt:
                    violations.append({"mech": "vorg_missing", "detail": {}})
                elif all(n in glyphs for n in order):
                    vorg = tt["VORG"]
                    bump("vorg_checked")
                    from collections import Counter
                    cnt = Counter(origins[n] for n in order)
                    top = max(cnt.values())
                    modes = {v for v, c in cnt.items() if c == top}
                    if vorg.defaultVertOriginY not in modes:
                        violations.append({"mech": "vorg_default", "detail": {
                            "stored": vorg.defaultVertOriginY, "most_common": sorted(modes)}})
                    exp_rec = {n: origins[n] for n in order
                               if origins[n] != vorg.defaultVertOriginY}
                    got_rec = {n: v for n, v in vorg.VOriginRecords.items()}
                    if exp_rec != got_rec:
                        violations.append({"mech": "vorg_records", "detail": {
                            "expected": exp_rec, "got": got_rec}})
    elif "vhea" in tt or "vmtx" in tt:
        violations.append({"mech": "unexpected_vertical_tables", "detail": {}})
    # ---------------- maxp / post / OS2
    if tt["maxp"].numGlyphs != ng:
        violations.append({"mech": "maxp_numGlyphs", "detail": {"stored": tt["maxp"].numGlyphs}})
    if is_tt:
        violations.extend(judge_maxp(tt, bump))
        sizes = [len(g_.program.getBytecode()) for g_ in (tt["glyf"][n_] for n_ in tt.getGlyphOrder())
                 if hasattr(g_, "program") and len(g_.program.getBytecode())]
        if sizes:
            bump("glyph_programs_in_font", len(sizes))
            if any(tt["glyf"][n_].isComposite() and hasattr(tt["glyf"][n_], "program")
                   and len(tt["glyf"][n_].program.getBytecode()) == max(sizes) for n_ in tt.getGlyphOrder()):
                bump("largest_glyph_program_on_a_composite")
        if case.get("instructions") and tt["maxp"].maxSizeOfInstructions != max(sizes, default=0):
            violations.append({"mech": "maxp_maxSizeOfInstructions", "detail": {
                "stored": tt["maxp"].maxSizeOfInstructions, "recomputed": max(sizes, default=0)}})
    post = tt["post"]
    if "CFF " not in tt:
        if keep and post.formatType != 2.0:
            violations.append({"mech": "post_format", "detail": {"got": post.formatType}})
        if not keep:
            bump("post3_cases")
            if post.formatType != 3.0:
                violations.append({"mech": "post_format", "detail": {"got": post.formatType}})
    if (post.formatType == 2.0 or "CFF " in tt) and keep:
        exp_names = set(glyphs) | {".notdef"}
        if set(order) != exp_names:
            violations.append({"mech": "glyph_names", "detail": {
                "missing": sorted(exp_names - set(order)), "extra": sorted(set(order) - exp_names)}})
    cps = [cp for g in spec["glyphs"] for cp in g.get("unicodes", [])]
    os2 = tt["OS/2"]
    bump("os2_char_index_checked")
    efirst = min(cps) if cps else 0xFFFF
    elast = min(max(cps), 0xFFFF) if cps else 0xFFFF
    if (os2.usFirstCharIndex, os2.usLastCharIndex) != (min(efirst, 0xFFFF), elast):
        violations.append({"mech": "os2_char_index", "detail": {
            "stored": [os2.usFirstCharIndex, os2.usLastCharIndex], "expected": [efirst, elast]}})
    n_out = sum(1 for b in boxes.values() if b is not None)
    if tolmode:
        # roundTolerance is not among the configurations the property is quantified over: with
        # fractional stored coordinates only the per-glyph bearing clause is judged ("the box
        # encloses the outline": directional, see min_edge_ok); aggregates, re-save identity and
        # the 16.16 / 2-decimal number formats are left alone (counted)
        kept = []
        for v in violations:
            big = max((abs(x) for x in (v["detail"].get("xMin"), v["detail"].get("yMax"))
                       if isinstance(x, (int, float))), default=0)
            if big > 8000:
                # fractional operands beyond the precision of the number formats involved
                bump("tolmode_unjudged_large_coordinates")
            elif v["mech"] in ("lsb", "pre_lsb", "tsb", "lsb_empty_glyph", "tsb_empty_glyph",
                               "compile_exception", "hmtx_advance"):
                kept.append(v)
            else:
                bump("tolmode_unjudged_" + v["mech"])
        violations = kept
    return {"status": "violated" if violations else "held", "violations": violations,
            "counters": counters, "nontrivial": n_out >= 2}


LONE_MECHS = {"lsb", "tsb", "lsb_empty_glyph", "tsb_empty_glyph", "hhea_minLeftSideBearing",
              "hhea_minRightSideBearing", "hhea_xMaxExtent", "vhea_minTopSideBearing",
              "vhea_minBottomSideBearing", "vhea_yMaxExtent", "head_bbox", "cff_fontbbox"}


def has_lone_point(case):
    """Some glyph's resolved outline contains a zero-extent contour: a single point, or several
    points that all coincide."""
    glyphs = {g["name"]: g for g in case["ufo"]["glyphs"]}
    for n in glyphs:
        for pts, _ in R.resolve(glyphs, n):
            if len({(p[0], p[1]) for p in pts}) == 1:
                return True
    return False


def empty_base_components(glyphs_list):
    """(glyph, component index) pairs whose base glyph resolves to no points at all."""
    glyphs = {g["name"]: g for g in glyphs_list}
    out = []
    for g in glyphs_list:
        for i, c in enumerate(g["components"]):
            if c["base"] in glyphs and not R.resolve(glyphs, c["base"]):
                out.append((g, i))
    return out


TT_BOX_MECHS = {"glyf_header_box", "lsb", "tsb", "lsb_empty_glyph", "tsb_empty_glyph", "head_bbox",
                "hhea_minLeftSideBearing", "hhea_minRightSideBearing", "hhea_xMaxExtent",
                "vhea_minTopSideBearing", "vhea_minBottomSideBearing", "vhea_yMaxExtent"}


def strip_lone_points(glyphs):
    for g in glyphs:
        g["contours"] = [c for c in g["contours"] if len({(p[0], p[1]) for p in c}) > 1]


def classify(v, case):
    tr = v["detail"].get("trace", "")
    names = [g["name"] for g in case["ufo"]["glyphs"]]
    if ".notdef" not in names:
        names = [".notdef"] + names
    if (v["mech"] in ("save_exception", "compiled_font_unreadable") and "AttributeError" in tr and "charset" in tr
            and case["fmt"] == "otf" and case["opts"].get("optimizeCFF", 2) >= 2):
        # glyph order is a prefix of the predefined ISOAdobe charset
        if sorted(names) == sorted(ISO_PREFIX[:len(names)]):
            return "cffsubr_predefined_charset_unsavable"
    if (v["mech"] in LONE_MECHS and case["fmt"] in ("otf", "cff2")
            and case["opts"].get("optimizeCFF", 2) >= 2 and has_lone_point(case)):
        return "cffsubr_drops_single_point_contours_after_metrics"
    m = v["mech"][4:] if v["mech"].startswith("pre_") else v["mech"]
    if case["fmt"] == "ttf" and m in TT_BOX_MECHS and empty_base_components(case["ufo"]["glyphs"]):
        return "fonttools_composite_box_includes_offset_of_empty_component"
    if (case["stratum"] == "notdef_codepoint"
            and v["mech"] in ("resave_full_differs", "os2_char_index")):
        nd = [g for g in case["ufo"]["glyphs"] if g["name"] == ".notdef"]
        if nd and nd[0]["unicodes"]:
            if v["mech"] == "os2_char_index" or set(v["detail"].get("tables", [])) <= {
                    "head", "OS/2", "cmap"}:
                return "notdef_codepoint_in_cmap"
    if (v["mech"] == "compile_exception" and "tx:" in tr and case["fmt"] == "cff2"
            and case["opts"].get("optimizeCFF", 2) >= 2
            and no_glyph_draws_anything(case["ufo"]["glyphs"], (case.get("opts") or {}).get("roundTolerance", case.get("roundTolerance")))):  # no path: tx discards contours whose points all coincide
        return "cffsubr_cff2_all_glyphs_empty"
    return None
