"""Child interpreter of the C08 check: started with one PYTHONHASHSEED, compiles one case under all
variants (UFO library x in-memory / re-opened from disk x inplace x call histories) and prints the
digests as JSON."""
import copy
import hashlib
import io
import json
import shutil
import sys
import tempfile
import traceback

import vf  # noqa: F401
from vf.build import build_ufo, build_designspace, save_and_reopen


def digest(tt):
    buf = io.BytesIO()
    tt.save(buf)
    data = buf.getvalue()
    from fontTools.ttLib import TTFont
    rd = TTFont(io.BytesIO(data)).reader
    tables = {}
    for tag in rd.keys():
        d = rd[tag]
        if tag == "head":
            d = d[:8] + b"\0\0\0\0" + d[12:]
        tables[tag] = hashlib.sha256(d).hexdigest()[:16]
    return {"all": hashlib.sha256(json.dumps(tables, sort_keys=True).encode()).hexdigest()[:20],
            "tables": tables}


def fonts_of(out):
    if isinstance(out, dict):
        return [out[k] for k in sorted(out)]
    if isinstance(out, list):
        return out
    if hasattr(out, "sources"):
        return [s.font for s in out.sources]
    if hasattr(out, "save"):
        return [out]
    return list(out)


def compile_(func, sources, kw):
    import ufo2ft
    out = getattr(ufo2ft, func)(sources, **kw)
    return [digest(f) for f in fonts_of(out)]


_N = [0]


def open_fixture(case, lib, tmp):
    import os
    import defcon
    import ufoLib2
    from vf import REPO
    _N[0] += 1
    src = os.path.join(REPO, "tests", "data", case["fixture"])
    d = "%s/fx%d" % (tmp, _N[0])
    opener = (lambda p: defcon.Font(p)) if lib == "defcon" else (lambda p: ufoLib2.Font.open(p))
    if src.endswith(".ufo"):
        shutil.copytree(src, d + "/f.ufo")
        return opener(d + "/f.ufo")
    from fontTools.designspaceLib import DesignSpaceDocument
    shutil.copytree(os.path.dirname(src), d)
    doc = DesignSpaceDocument.fromfile(os.path.join(d, os.path.basename(src)))
    cache = {}
    for s in doc.sources:
        if s.path not in cache:
            cache[s.path] = opener(s.path)
        s.font = cache[s.path]
    return doc


def build(case, lib, disk, tmp):
    if "fixture" in case:
        return open_fixture(case, lib, tmp)
    if "ds" in case:
        doc, fonts = build_designspace(case["ds"], lib)
        if disk:
            reopened = {}
            for i, f in enumerate(fonts):
                reopened[id(f)] = save_and_reopen(f, lib, "%s/m%d_%s.ufo" % (tmp, i, lib))
            for s in doc.sources:
                s.font = reopened[id(s.font)]
        return doc
    font = build_ufo(case["ufo"], lib)
    if disk:
        font = save_and_reopen(font, lib, "%s/f_%s.ufo" % (tmp, lib))
    return font


def main():
    case = json.load(open(sys.argv[1]))
    func = case["func"]
    kw = case.get("opts") or {}
    if "ftConfig" in kw:
        # ONE dict object, keyed the way callers key it (fontTools' option objects), shared by
        # every call below (dict(kw) copies the outer mapping only)
        from fontTools.otlLib.optimize.gpos import COMPRESSION_LEVEL
        known = {COMPRESSION_LEVEL.name: COMPRESSION_LEVEL}
        kw["ftConfig"] = {known.get(k, k): v for k, v in kw["ftConfig"].items()}
    objs = case.get("opts_objects") or {}
    if objs:
        # option values that are OBJECTS (writer / filter instances), created once and handed to
        # every call of this interpreter: nothing a call leaves in them may show in the next one
        import ufo2ft.featureWriters as W
        import ufo2ft.filters as F
        if objs.get("featureWriters"):
            kw["featureWriters"] = [getattr(W, d["class"])(**(d.get("options") or {}))
                                    for d in objs["featureWriters"]]
        if objs.get("filters"):
            kw["filters"] = [Ellipsis] + [getattr(F, d["class"])(**(d.get("options") or {}))
                                          for d in objs["filters"]]
    other = case.get("other_func")
    results = {}
    tmp = tempfile.mkdtemp(prefix="vfc08_")
    try:
        for lib in ("defcon", "ufoLib2"):
            for disk in (False, True):
                tag = "%s/%s" % (lib, "disk" if disk else "mem")
                try:
                    src = build(case, lib, disk, tmp)
                    results[tag + "/first"] = compile_(func, src, dict(kw))
                    results[tag + "/second"] = compile_(func, src, dict(kw))
                    if other:
                        src2 = build(case, lib, False, tmp)
                        try:
                            compile_(other, src2 if other_takes(other, src2) else _static_source(src2),
                                     {k: v for k, v in kw.items() if k in ("featureWriters", "filters")})
                        except Exception:  # noqa: BLE001
                            results[tag + "/other_failed"] = traceback.format_exc()[-300:]
                        results[tag + "/after_other"] = compile_(func, src2, dict(kw))
                    if not disk:
                        src3 = build(case, lib, False, tmp)
                        results[tag + "/inplace"] = compile_(func, src3, dict(kw, inplace=True))
                except Exception:  # noqa: BLE001
                    results[tag + "/error"] = traceback.format_exc()[-1500:]
    finally:
        shutil.rmtree(tmp, ignore_errors=True)
    json.dump(results, sys.stdout)


def other_takes(func, src):
    static = func in ("compileTTF", "compileOTF")
    return static == (not hasattr(src, "sources"))


def _static_source(src):
    if hasattr(src, "sources"):
        return src.findDefault().font
    return src


if __name__ == "__main__":
    main()
