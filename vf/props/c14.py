"""C14 - Filters touch only what they are asked to and report what they changed.

M-filter: every shipped filter (and its interpolatable variant) is applied - as the real filter
object - to generated fonts under include / exclude / predicate selections, on the font itself or
on a separate glyph set, and as a REUSED object across fonts; snapshots before/after decide the
four clauses of the statement:
  (1) a glyph neither included nor referenced (transitively) by an included glyph is unchanged;
  (2) changed + added + removed glyphs are all in the returned set (over-reporting is allowed);
  (3) with a separate glyph set the source font is unchanged;
  (4) a reused filter object gives the same glyph set and the same returned set as a fresh one.
"""
import copy
import os
import shutil
import tempfile
import traceback

import vf  # noqa: F401
from vf import REPO
from vf.build import build_ufo
from vf.gen import outlines
from vf.mon import snap as M
from vf.props import c14_pipeline, c15
from vf.props.c01 import prune_size, max_abs_coord

ID = "C14"
RULE = ("case = component-graph font(s) with anchors (3-12 glyphs, depth<=4) x one shipped filter "
        "class (Decompose, DecomposeTransformed, Flatten, PropagateAnchors, Transformations, "
        "ReverseContourDirection, SortContours, RemoveOverlaps boolOps/pathops, CubicToQuadratic, "
        "SkipExportGlyphs, DottedCircle, ExplodeColorLayerGlyphs on the colour fixture; "
        "interpolatable Decompose / DecomposeTransformed / Flatten / PropagateAnchors / "
        "SkipExportGlyphs on 2-3 compatible fonts) x selection (all / include list / exclude list / "
        "predicate) x target (font in place, separate glyph-set copy, foreign dict) x reuse history "
        "(object applied to A, B - a font with other vertical metrics, compared with a fresh object on B - then A' and compared with a fresh object on A''); distinct = sha1 "
        "of the case; non-trivial = the filter ran and reported or changed at least one glyph")
ASSUMPTIONS = [
    "a glyph's state = points (types, smooth), components, anchors, width, height, unicodes, lib",
    "'referenced by an included glyph' is the transitive closure over component references of the "
    "glyph set BEFORE the call",
    "over-reporting (a returned name whose glyph did not change) is allowed by the statement and "
    "only counted",
]
FILTERS = ["DecomposeComponentsFilter", "DecomposeTransformedComponentsFilter",
           "FlattenComponentsFilter", "PropagateAnchorsFilter", "TransformationsFilter",
           "ReverseContourDirectionFilter", "SortContoursFilter", "RemoveOverlapsFilter",
           "CubicToQuadraticFilter", "SkipExportGlyphsFilter", "DottedCircleFilter",
           "ExplodeColorLayerGlyphsFilter"]
IFILTERS = ["DecomposeComponentsIFilter", "DecomposeTransformedComponentsIFilter",
            "FlattenComponentsIFilter", "PropagateAnchorsIFilter", "SkipExportGlyphsIFilter"]
NONVACUITY = ["evaluated_" + f for f in FILTERS + IFILTERS] + [
    "select_include", "select_exclude", "select_predicate", "select_all", "target_inplace",
    "target_copy", "reuse_histories", "untouched_glyphs_checked", "reported_glyphs",
    "changed_glyphs", "pipeline_steps_observed", "pipeline_per_master_steps",
    "pipeline_coherence_instantiations", "pipeline_steps_that_changed_glyphs"]


def n_cases(tier):
    return 1400 if tier == "quick" else 30000


def budget_s(tier):
    return 150 if tier == "quick" else 1500


def gen_font(rng, mode=None, kinds=None):
    mode = mode or rng.choice(["mixed", "int", "dyadic"])
    kinds = kinds or rng.choice([("line", "curve"), ("line", "qcurve"), ("line", "curve", "qcurve")])
    for _ in range(6):
        glyphs = outlines.component_font(rng, n_glyphs=rng.randint(3, 12), mode=mode, kinds=kinds,
                                         max_depth=4, tmode="tt", allow_degenerate=False)
        prune_size(glyphs)
        if max_abs_coord(glyphs) <= 16000:
            break
    c15.add_anchors(rng, glyphs, "int", 0.6)
    for g in glyphs:
        g["height"] = rng.choice([0, 1000])
    return glyphs


def perturbed(rng, glyphs):
    """A compatible second master (numbers only)."""
    out = copy.deepcopy(glyphs)
    for g in out:
        g["width"] = g["width"] + rng.choice([0, 10, 20])
        for c in g["contours"]:
            for p in c:
                p[0] = p[0] + rng.choice([0, 5, 12])
                p[1] = p[1] + rng.choice([0, 3])
        for comp in g["components"]:
            comp["t"] = list(comp["t"][:4]) + [comp["t"][4] + rng.choice([0, 7]), comp["t"][5]]
        for a in g["anchors"]:
            a["x"] = a["x"] + rng.choice([0, 4])
    return out


def gen(rng, idx, tier):
    if idx >= len(FILTERS) + len(IFILTERS) and rng.random() < 0.07:
        return c14_pipeline.gen_pipeline(rng)
    interp = rng.random() < 0.25
    name = rng.choice(IFILTERS if interp else FILTERS)
    if idx < len(FILTERS) + len(IFILTERS):
        name = (FILTERS + IFILTERS)[idx]           # every class at least once per run
        interp = name in IFILTERS
    case = {"filter": name, "interp": interp, "lib": rng.choice(["defcon", "ufoLib2"]),
            "reuse": rng.random() < 0.3, "target": rng.choice(["inplace", "copy", "copy"])}
    if name == "ExplodeColorLayerGlyphsFilter":
        case.update({"fixture": "ColorTest.ufo", "select": {"kind": "all"}, "options": {}})
        return case
    kinds = None
    if name == "RemoveOverlapsFilter":
        kinds = ("line", "curve")
    glyphs = gen_font(rng, kinds=kinds)
    if name == "RemoveOverlapsFilter":
        # overlap removal is only defined for closed contours (booleanOperations rejects open ones)
        for g in glyphs:
            for c in g["contours"]:
                if c and c[0][2] == "move":
                    c[0][2] = "line"
    if name == "DottedCircleFilter":
        # marks + a base so that the filter has something to do
        glyphs[0]["anchors"] = [{"name": "top", "x": 100, "y": 500}]
        glyphs[-1]["anchors"] = [{"name": "_top", "x": 10, "y": 20}]
        glyphs[-1]["unicodes"] = [0x301]
        if len(glyphs) > 3 and rng.random() < 0.5:
            # the font already HAS a dotted circle, without (all) the anchors the marks need
            dc = glyphs[1]
            dc["unicodes"] = [0x25CC]
            dc["anchors"] = [] if rng.random() < 0.7 else [{"name": "bottom", "x": 50, "y": -20}]
            case["own_dotted_circle"] = dc["name"]
    case["fonts"] = [glyphs]
    if interp:
        case["fonts"] += [perturbed(rng, glyphs) for _ in range(rng.choice([1, 2]))]
    if case["reuse"]:
        case["other"] = gen_font(rng, kinds=kinds)
        for g in case["other"]:
            for c in g["contours"]:
                if name == "RemoveOverlapsFilter" and c and c[0][2] == "move":
                    c[0][2] = "line"
    case["select"] = c15.gen_select(rng, glyphs, state_predicates=not interp)
    opts = {}
    if name == "TransformationsFilter":
        opts = {"OffsetX": rng.choice([0, 10, -35]), "OffsetY": rng.choice([0, 20]),
                "ScaleX": rng.choice([100, 50, 200, 120]), "ScaleY": rng.choice([100, 80]),
                "Slant": rng.choice([0, 0, 12]), "Origin": rng.choice([0, 1, 2, 3, 4])}
    elif name == "RemoveOverlapsFilter":
        opts = {"backend": rng.choice(["booleanOperations", "pathops"])}
    elif name == "CubicToQuadraticFilter":
        opts = {"conversionError": rng.choice([None, 0.002]),
                "reverseDirection": rng.random() < 0.7}
        if rng.random() < 0.4:
            opts["rememberCurveType"] = True
    elif name in ("SkipExportGlyphsFilter", "SkipExportGlyphsIFilter"):
        names = [g["name"] for g in glyphs]
        used = [c["base"] for g in glyphs for c in g["components"]]
        pool = (used * 2 + names)
        opts = {"skipExportGlyphs": sorted(set(rng.sample(pool, min(len(pool), rng.randint(1, 3)))))}
        case["select"] = {"kind": "all"}
    elif name == "DottedCircleFilter":
        opts = {}
        case["select"] = {"kind": "all"}
    elif name == "SortContoursFilter":
        pass
    case["options"] = opts
    if (not interp and case["target"] == "copy" and rng.random() < 0.35
            and name not in ("DottedCircleFilter", "ExplodeColorLayerGlyphsFilter")):
        # the separate glyph set is a plain mapping of glyph copies (no lib of its own)
        case["target"] = "copy_dict"
    return case


def sample_view(case):
    if case.get("pipeline"):
        return c14_pipeline.sample_view(case)
    v = {k: case.get(k) for k in ("filter", "interp", "lib", "reuse", "target", "select",
                                  "options", "fixture")}
    if "fonts" in case:
        v["glyphs"] = [(g["name"], len(g["contours"]), [c["base"] for c in g["components"]],
                        [a["name"] for a in g["anchors"]]) for g in case["fonts"][0]]
    return v


# ---------------------------------------------------------------- helpers

def state(mapping):
    return {name: M.glyph_snapshot(g) for name, g in mapping.items()}


def closure(spec_state, start):
    """Names reachable through component references from `start` (before the call)."""
    seen = set()
    todo = list(start)
    while todo:
        n = todo.pop()
        for base, _t, _i in spec_state.get(n, {}).get("components", []):
            if base not in seen:
                seen.add(base)
                todo.append(base)
    return seen


def make_filter(case):
    import ufo2ft.filters as F
    from ufo2ft.filters.dottedCircle import DottedCircleFilter
    from ufo2ft.filters.explodeColorLayerGlyphs import ExplodeColorLayerGlyphsFilter
    name = case["filter"]
    kw = dict(case.get("options") or {})
    kw = {k: v for k, v in kw.items() if v is not None}
    kw.update(c15.filter_kwargs(case["select"]))
    if name == "DottedCircleFilter":
        return DottedCircleFilter(**kw)
    if name == "ExplodeColorLayerGlyphsFilter":
        return ExplodeColorLayerGlyphsFilter(**kw)
    cls = getattr(F, name)
    if name in ("SkipExportGlyphsFilter", "SkipExportGlyphsIFilter"):
        skip = kw.pop("skipExportGlyphs")
        return cls(skip, **kw)
    return cls(**kw)


def build_fonts(case, tmp):
    if case.get("fixture"):
        import defcon
        import ufoLib2
        src = os.path.join(REPO, "tests", "data", case["fixture"])
        dst = tempfile.mkdtemp(dir=tmp) + "/f.ufo"
        shutil.copytree(src, dst)
        return [defcon.Font(dst) if case["lib"] == "defcon" else ufoLib2.Font.open(dst)]
    info = {"unitsPerEm": 1000, "familyName": "T", "styleName": "R", "xHeight": 500,
            "capHeight": 700, "ascender": 800, "descender": -200}
    return [build_ufo({"glyphs": copy.deepcopy(g), "info": info}, case["lib"])
            for g in case["fonts"]]


def apply_once(case, filt, fonts, target, bump):
    """Apply `filt` to `fonts`; returns (before, after, returned, font_diffs)."""
    from ufo2ft.util import _GlyphSet
    if target == "inplace":
        sets = None
        views = [{g.name: g for g in f.layers.defaultLayer} for f in fonts]
    else:
        sets = [_GlyphSet.from_layer(f, copy=True) for f in fonts]
        if target == "copy_dict":
            sets = [dict(gs) for gs in sets]
            bump("separate_glyph_set_is_a_plain_dict")
        views = sets
    font_before = [M.snapshot(f) for f in fonts] if target != "inplace" else None
    before = [state(v) for v in views]
    if case["interp"]:
        returned = filt(fonts, sets)
    else:
        returned = filt(fonts[0], sets[0] if sets else None)
    if target == "inplace":
        views = [{g.name: g for g in f.layers.defaultLayer} for f in fonts]
    after = [state(v) for v in views]
    diffs = []
    if font_before is not None:
        for i, (f, b) in enumerate(zip(fonts, font_before)):
            d = M.diff(b, M.snapshot(f))
            if d:
                diffs.append((i, d[:6]))
    return before, after, set(returned or ()), diffs


def run(case):
    if case.get("pipeline"):
        return c14_pipeline.run_pipeline(case)
    counters = {}

    def bump(k, n=1):
        counters[k] = counters.get(k, 0) + n

    tmp = tempfile.mkdtemp(prefix="vfc14_")
    try:
        return _run(case, bump, counters, tmp)
    finally:
        shutil.rmtree(tmp, ignore_errors=True)


def _run(case, bump, counters, tmp):
    violations = []
    name = case["filter"]
    try:
        filt = make_filter(case)
        fonts = build_fonts(case, tmp)
    except Exception:  # noqa: BLE001
        return {"status": "harness_error", "note": traceback.format_exc()[-1500:]}
    target = case["target"]
    try:
        before, after, returned, fdiffs = apply_once(case, filt, fonts, target, bump)
    except Exception as e:  # noqa: BLE001
        tb = traceback.format_exc()
        if name == "RemoveOverlapsFilter" and type(e).__name__ in (
                "PathOpsError", "BooleanOperationsError", "BooleanGlyphError", "UnsupportedContourError"):
            # the boolean-operations backend (skia-pathops / booleanOperations) gave up on the
            # generated geometry; the property says nothing about that -> not judged
            return {"status": "inconclusive", "counters": {"overlap_backend_rejected": 1},
                    "note": tb[-600:]}
        return {"status": "violated", "counters": counters, "violations": [
            {"mech": "filter_exception", "detail": {"filter": name, "trace": tb[-2500:]}}]}
    bump("evaluated_" + name)
    if case.get("own_dotted_circle"):
        bump("dotted_circle_present_in_source")
    bump("select_" + case["select"]["kind"])
    bump("target_" + ("inplace" if target == "inplace" else "copy"))
    # ---------------- clause 3: source untouched when a separate glyph set is given
    for i, d in fdiffs:
        violations.append({"mech": "source_font_modified", "detail": {
            "filter": name, "font": i, "diff": [[p, a, b] for p, a, b in d]}})
    # ---------------- clauses 1 and 2
    nontrivial = bool(returned)
    for fi, (b, a) in enumerate(zip(before, after)):
        changed = {n for n in b if n in a and a[n] != b[n]}
        added = set(a) - set(b)
        removed = set(b) - set(a)
        touched = changed | added | removed
        if touched:
            nontrivial = True
        bump("changed_glyphs", len(touched))
        bump("reported_glyphs", len(returned))
        unreported = touched - returned
        if unreported:
            violations.append({"mech": "modified_but_not_reported", "detail": {
                "filter": name, "font": fi, "glyphs": sorted(unreported),
                "returned": sorted(returned),
                "example": [[p, x, y] for p, x, y in M.diff(
                    b.get(sorted(unreported)[0]), a.get(sorted(unreported)[0]))[:4]]}})
        bump("over_reported", len(returned - touched))
        # included glyphs by the selection, evaluated on the glyph set before the call
        specs = {g["name"]: g for g in (case["fonts"][fi] if "fonts" in case else [])}
        if specs:
            if case["interp"]:
                inc = {n for n in b if any(
                    c15.selected({g["name"]: g for g in fs}[n], case["select"])
                    for fs in case["fonts"] if n in {g["name"] for g in fs})}
            else:
                inc = {n for n in b if n in specs and c15.selected(specs[n], case["select"])}
            if name in ("SkipExportGlyphsFilter", "SkipExportGlyphsIFilter"):
                # the skip list names the glyphs to remove; every glyph referring to them is asked
                # to be rewritten
                skip = set(case["options"]["skipExportGlyphs"])
                inc = {n for n in b if n in skip or closure(b, [n]) & skip}
            allowed = inc | closure(b, inc)
            if name == "DottedCircleFilter":
                allowed |= {n for n in a if n not in b}      # the dotted circle glyph it adds
            for n in b:
                if n in allowed:
                    continue
                bump("untouched_glyphs_checked")
                if n not in a or a[n] != b[n]:
                    violations.append({"mech": "untouched_glyph_changed", "detail": {
                        "filter": name, "font": fi, "glyph": n, "included": sorted(inc),
                        "diff": [[p, x, y] for p, x, y in M.diff(b[n], a.get(n))[:4]]}})
            extra_added = added - allowed - inc
            if extra_added and name != "DottedCircleFilter":
                violations.append({"mech": "unexpected_glyph_added", "detail": {
                    "filter": name, "glyphs": sorted(extra_added)}})
    # ---------------- clause 4: reuse
    if case["reuse"] and "fonts" in case and not violations:
        try:
            # the second font differs from the first in its vertical metrics too (filters may
            # derive parameters from font info, e.g. the origin of a transformation)
            oinfo = {"unitsPerEm": 1000, "familyName": "T", "styleName": "O", "xHeight": 460,
                     "capHeight": 640, "ascender": 750, "descender": -250}

            def build_other():
                o = [build_ufo({"glyphs": copy.deepcopy(case["other"]), "info": oinfo}, case["lib"])]
                if case["interp"]:
                    o = o + [build_ufo({"glyphs": perturbed_fixed(case["other"]), "info": oinfo},
                                       case["lib"]) for _ in case["fonts"][1:]]
                return o
            try:
                _bB, aB, retB, _ = apply_once(case, filt, build_other(), target, bump)   # A, then B
                _bF, aF, retF, _ = apply_once(case, make_filter(case), build_other(), target, bump)
                bump("reuse_second_font_compared")
                if aB != aF:
                    bad = [n for n in set(aB[0]) | set(aF[0]) if aB[0].get(n) != aF[0].get(n)]
                    violations.append({"mech": "reused_filter_differs_from_fresh", "detail": {
                        "filter": name, "on": "second font of the history", "glyphs": sorted(bad)[:6]}})
                elif retB != retF:
                    violations.append({"mech": "reused_filter_reports_differently", "detail": {
                        "filter": name, "on": "second font of the history",
                        "reused": sorted(retB), "fresh": sorted(retF)}})
            except Exception:  # noqa: BLE001
                bump("reuse_other_font_raised")
            fonts2 = build_fonts(case, tmp)
            b2, a2, ret2, _ = apply_once(case, filt, fonts2, target, bump)      # ... then A'
            fresh = make_filter(case)
            fonts3 = build_fonts(case, tmp)
            b3, a3, ret3, _ = apply_once(case, fresh, fonts3, target, bump)     # fresh on A''
            bump("reuse_histories")
            if a2 != a3:
                bad = [n for n in set(a2[0]) | set(a3[0]) if a2[0].get(n) != a3[0].get(n)]
                violations.append({"mech": "reused_filter_differs_from_fresh", "detail": {
                    "filter": name, "glyphs": sorted(bad)[:6]}})
            elif ret2 != ret3:
                violations.append({"mech": "reused_filter_reports_differently", "detail": {
                    "filter": name, "reused": sorted(ret2), "fresh": sorted(ret3)}})
            if a3 != after and not case["interp"]:
                violations.append({"mech": "fresh_filter_not_deterministic", "detail": {
                    "filter": name}})
        except Exception:  # noqa: BLE001
            violations.append({"mech": "reuse_exception", "detail": {
                "filter": name, "trace": traceback.format_exc()[-2000:]}})
    return {"status": "violated" if violations else "held", "violations": violations[:8],
            "counters": counters, "nontrivial": nontrivial}


def perturbed_fixed(glyphs):
    import random
    return perturbed(random.Random(7), glyphs)


def classify(v, case):
    if case.get("pipeline"):
        return None
    name = case["filter"]
    if name == "ExplodeColorLayerGlyphsFilter" and v["mech"] in (
            "source_font_modified", "untouched_glyph_changed", "reused_filter_differs_from_fresh"):
        return "explode_color_layers_filter_writes_source"
    if name == "ExplodeColorLayerGlyphsFilter" and v["mech"] == "modified_but_not_reported":
        if all("." in g for g in v["detail"].get("glyphs", [])):
            return "explode_color_layers_added_glyphs_not_reported"
    if name == "DottedCircleFilter" and v["mech"] == "source_font_modified":
        # the listed mechanism writes the categories lib entry and the feature text, nothing else
        paths = [d[0] for d in v["detail"].get("diff", [])]
        if paths and all(p == "/features" or p.startswith("/lib/") and "public.openTypeCategories" in p
                         for p in paths):
            return "dotted_circle_filter_writes_source"
        return None
    if (name.startswith("PropagateAnchors") and v["mech"] == "filter_exception"
            and "is the lowest" in v["detail"].get("trace", "")
            and "'NoneType' object is not subscriptable" in v["detail"].get("trace", "")):
        return "propagate_anchors_ligature_mark_empty_component_crash"
    return None
