"""Multi-script glyph repertoires (shared generator).

    glyphs, desc = repertoire(rng, scripts=None, n=12, ...)

`glyphs` is a list of glyph specs in the format documented at the top of vf/build.py (simple
rectangular contours, advance ~500, combining marks advance 0); `desc` maps every glyph name to

    {"name", "unicodes": [int], "script": [Unicode script code per code point],
     "script_ext": sorted union of the code points' script extensions,
     "bidi": [bidi class per code point], "mark": bool (any code point of category M*),
     "kind": "letter" | "digit" | "common" | "mark" | "alternate" | "ligature" | "orphan",
     "sources": [glyph names]}      # unencoded glyphs only: 1 source = alternate, >1 = ligature

Code points are real characters of Latin, Cyrillic, Greek, Arabic, Hebrew, Devanagari,
Hiragana/Katakana, ASCII and Arabic-Indic digits, common punctuation (Zyyy) and combining marks
(Zinh and script-specific).  Unencoded glyphs are alternates ("a.alt", "alef-ar.fina"),
ligatures ("f_i", "lam_alef-ar") - reachable only through GSUB - and orphans (reachable by
nothing).  Everything is derived deterministically from `rng` (a random.Random).

    text, rules = gsub_alternates(rng, desc, languagesystems=None)

builds a small feature file (optional `languagesystem` statements + GSUB single / ligature
substitutions making the unencoded glyphs reachable from encoded ones); `rules` is the same
information as data: [{"type": "single"|"ligature", "feature", "in": [names], "out": name}].

    closure(desc, rules, key)   ->  {glyph: set(labels)}

is an independent provenance closure over those rules (NOT the fontTools subsetter closure used
by ufo2ft): a glyph's labels are key(code point) of its own code points plus the labels of the
inputs of every rule producing it, a ligature being produced only when all its components are
reachable (encoded or produced).

    ot_script_tags(script)  ->  OpenType script tags of a Unicode script code
    script_direction(script) -> "LTR" | "RTL" | None (Zyyy / Zinh)
"""
from fontTools import unicodedata as ftud

# (name, code point) per Unicode script; real characters only
LETTERS = {
    "Latn": [("a", 0x61), ("b", 0x62), ("e", 0x65), ("f", 0x66), ("i", 0x69), ("n", 0x6E),
             ("o", 0x6F), ("v", 0x76), ("A", 0x41), ("T", 0x54), ("V", 0x56), ("W", 0x57)],
    "Cyrl": [("a-cy", 0x430), ("be-cy", 0x431), ("ve-cy", 0x432), ("ge-cy", 0x433),
             ("de-cy", 0x434), ("u-cy", 0x443), ("A-cy", 0x410), ("Ge-cy", 0x413),
             ("U-cy", 0x423)],
    "Grek": [("alpha", 0x3B1), ("beta", 0x3B2), ("gamma", 0x3B3), ("delta", 0x3B4),
             ("omicron", 0x3BF), ("tau", 0x3C4), ("Alpha", 0x391), ("Gamma", 0x393),
             ("Tau", 0x3A4)],
    "Arab": [("alef-ar", 0x627), ("beh-ar", 0x628), ("teh-ar", 0x62A), ("reh-ar", 0x631),
             ("seen-ar", 0x633), ("lam-ar", 0x644), ("meem-ar", 0x645), ("noon-ar", 0x646),
             ("yeh-ar", 0x64A)],
    "Hebr": [("alef-hb", 0x5D0), ("bet-hb", 0x5D1), ("gimel-hb", 0x5D2), ("dalet-hb", 0x5D3),
             ("vav-hb", 0x5D5), ("lamed-hb", 0x5DC), ("shin-hb", 0x5E9)],
    "Deva": [("a-deva", 0x905), ("ka-deva", 0x915), ("kha-deva", 0x916), ("ga-deva", 0x917),
             ("ta-deva", 0x924), ("na-deva", 0x928), ("ra-deva", 0x930)],
    "Hira": [("a-hira", 0x3042), ("ka-hira", 0x304B), ("ki-hira", 0x304D), ("no-hira", 0x306E)],
    "Kana": [("a-kata", 0x30A2), ("ka-kata", 0x30AB), ("ki-kata", 0x30AD), ("no-kata", 0x30CE)],
    # (Khmer and Myanmar have shapers of their own: kerned through 'dist', marks through mark/mkmk)
    "Khmr": [("ka-khmer", 0x1780), ("kha-khmer", 0x1781), ("ko-khmer", 0x1782), ("nyo-khmer", 0x1789)],
    "Mymr": [("ka-myanmar", 0x1000), ("kha-myanmar", 0x1001), ("ga-myanmar", 0x1002)],
}
ALL_SCRIPTS = sorted(LETTERS)
RTL_SCRIPTS = ("Arab", "Hebr")

DIGITS = [("zero", 0x30), ("one", 0x31), ("two", 0x32), ("three", 0x33)]
ARABIC_INDIC_DIGITS = [("zero-ar", 0x660), ("one-ar", 0x661), ("two-ar", 0x662)]
COMMON = [("period", 0x2E), ("comma", 0x2C), ("hyphen", 0x2D), ("exclam", 0x21),
          ("colon", 0x3A), ("parenleft", 0x28), ("quotesingle", 0x27), ("space", 0x20)]
# combining marks: generic (Zinh) ones and script-specific ones
MARKS_GENERIC = [("gravecomb", 0x300), ("acutecomb", 0x301), ("dotbelowcomb", 0x323),
                 ("cedillacomb", 0x327)]
MARKS = {
    "Latn": MARKS_GENERIC,
    "Cyrl": MARKS_GENERIC + [("brevecomb", 0x306)],
    "Grek": MARKS_GENERIC,
    "Arab": [("fatha-ar", 0x64E), ("kasra-ar", 0x650), ("shadda-ar", 0x651)],
    "Hebr": [("hiriq-hb", 0x5B4), ("patah-hb", 0x5B7), ("dagesh-hb", 0x5BC)],
    "Deva": [("candrabindu-deva", 0x901), ("anusvara-deva", 0x902), ("nukta-deva", 0x93C)],
    "Hira": [("voicedcomb-kana", 0x3099)],
    "Kana": [("voicedcomb-kana", 0x3099)],
    "Khmr": [("nikahit-khmer", 0x17C6), ("bantoc-khmer", 0x17CB)],
    "Mymr": [("anusvara-myanmar", 0x1036), ("dotbelow-myanmar", 0x1037)],
}
# alternate suffix -> GSUB feature, per script family
ALT_SUFFIXES = {
    "Arab": [("fina", "fina"), ("init", "init"), ("medi", "medi")],
    "Hebr": [("alt", "salt"), ("fina", "fina")],
    None: [("alt", "salt"), ("sc", "smcp"), ("ss01", "ss01")],
}
# plausible ligatures: (name, components, feature)
LIGATURES = {
    "Latn": [("f_i", ["f", "i"], "liga"), ("f_f", ["f", "f"], "liga"), ("T_o", ["T", "o"], "dlig"),
             ("f_f_i", ["f", "f", "i"], "liga")],
    "Cyrl": [("a_be-cy", ["a-cy", "be-cy"], "liga")],
    "Grek": [("alpha_tau", ["alpha", "tau"], "dlig")],
    "Arab": [("lam_alef-ar", ["lam-ar", "alef-ar"], "rlig"),
             ("lam_meem-ar", ["lam-ar", "meem-ar"], "liga"),
             ("beh_noon-ar", ["beh-ar", "noon-ar"], "dlig")],
    "Hebr": [("alef_lamed-hb", ["alef-hb", "lamed-hb"], "liga")],
    "Deva": [("ka_ta-deva", ["ka-deva", "ta-deva"], "akhn"),
             ("ta_ra-deva", ["ta-deva", "ra-deva"], "rkrf")],
    "Hira": [], "Kana": [], "Khmr": [], "Mymr": [],
}


def ot_script_tags(script):
    """OpenType script tags of a Unicode script code, newest first (e.g. Deva -> dev2, deva)."""
    return list(ftud.ot_tags_from_script(script))


def script_direction(script):
    if script in ("Zyyy", "Zinh", "Zzzz"):
        return None
    return ftud.script_horizontal_direction(script, "LTR")


def describe(name, unicodes, kind, sources=None):
    chars = [chr(u) for u in unicodes]
    ext = set()
    for c in chars:
        ext |= set(ftud.script_extension(c))
    d = {"name": name, "unicodes": list(unicodes),
         "script": [ftud.script(c) for c in chars],
         "script_ext": sorted(ext),
         "bidi": [ftud.bidirectional(c) for c in chars],
         "mark": any(ftud.category(c).startswith("M") for c in chars),
         "kind": kind}
    if sources is not None:
        d["sources"] = list(sources)
    return d


def _rect(rng, mark=False):
    if mark:
        x0, y0 = -rng.randint(120, 200), rng.choice([520, 560, 600, -180])
        return [[[x0, y0, "line"], [x0 + 90, y0, "line"], [x0 + 90, y0 + 70, "line"],
                 [x0, y0 + 70, "line"]]]
    x0, x1 = rng.randint(20, 70), rng.randint(330, 470)
    y1 = rng.choice([480, 500, 700, 720])
    return [[[x0, 0, "line"], [x1, 0, "line"], [x1, y1, "line"], [x0, y1, "line"]]]


def _spec(rng, name, unicodes, mark=False, empty=False, wide=1):
    return {"name": name, "width": 0 if mark else rng.choice([480, 500, 520, 540]) * wide,
            "unicodes": list(unicodes), "contours": [] if empty else _rect(rng, mark),
            "components": [], "anchors": []}


def repertoire(rng, scripts=None, n=12, n_marks=None, n_digits=None, n_common=None,
               n_unencoded=None, notdef=True, double_encoded=0.05, orphans=True):
    """Returns (glyph specs, desc).  `scripts`: list of Unicode script codes out of ALL_SCRIPTS
    (None = 1-3 random ones); `n`: number of encoded letters, spread over the scripts (every
    script gets at least two); the other counts default to small random numbers."""
    if scripts is None:
        scripts = rng.sample(ALL_SCRIPTS, rng.choice([1, 1, 2, 2, 2, 3]))
    scripts = list(scripts)
    glyphs, desc = [], {}

    def add(name, unicodes, kind, mark=False, sources=None, empty=False, wide=1):
        if name in desc:
            return False
        glyphs.append(_spec(rng, name, unicodes, mark=mark, empty=empty, wide=wide))
        desc[name] = describe(name, unicodes, kind, sources)
        return True

    if notdef:
        add(".notdef", [], "common")
    # ---- letters
    per = max(2, n // max(1, len(scripts)))
    for s in scripts:
        pool = list(LETTERS[s])
        rng.shuffle(pool)
        # keep ligature components likely: take the first pool entries of a random ligature
        if LIGATURES.get(s) and rng.random() < 0.7:
            lig = rng.choice(LIGATURES[s])
            want = [p for p in LETTERS[s] if p[0] in lig[1]]
            pool = want + [p for p in pool if p not in want]
        for name, cp in pool[:per]:
            cps = [cp]
            add(name, cps, "letter")
    if rng.random() < double_encoded and "Latn" in scripts and "A" in desc and "Alpha" not in desc:
        # one glyph carrying code points of two scripts (Latin A + Greek Alpha)
        i = [g["name"] for g in glyphs].index("A")
        glyphs[i]["unicodes"] = [0x41, 0x391]
        desc["A"] = describe("A", [0x41, 0x391], "letter")
    # ---- marks
    k = rng.choice([0, 1, 2, 2, 3]) if n_marks is None else n_marks
    pool = []
    for s in scripts:
        for m in MARKS[s]:
            if m not in pool:
                pool.append(m)
    rng.shuffle(pool)
    for name, cp in pool[:k]:
        add(name, [cp], "mark", mark=True)
    # ---- digits
    k = rng.choice([0, 0, 1, 2]) if n_digits is None else n_digits
    pool = list(DIGITS)
    if "Arab" in scripts:
        pool += ARABIC_INDIC_DIGITS
    rng.shuffle(pool)
    for name, cp in pool[:k]:
        add(name, [cp], "digit")
    # ---- common punctuation
    k = rng.choice([0, 1, 2, 3]) if n_common is None else n_common
    pool = list(COMMON)
    rng.shuffle(pool)
    for name, cp in pool[:k]:
        add(name, [cp], "common", empty=(name == "space"))
    # ---- unencoded: alternates, ligatures, orphans
    k = rng.choice([0, 1, 2, 3, 4]) if n_unencoded is None else n_unencoded
    encoded = [g for g in desc if desc[g]["unicodes"]]
    for _ in range(k * 3):
        if k <= 0:
            break
        r = rng.random()
        if r < 0.5:
            src = rng.choice(encoded)
            d = desc[src]
            fam = d["script"][0] if d["script"][0] in ALT_SUFFIXES else None
            suffix, _feat = rng.choice(ALT_SUFFIXES[fam])
            if add(src + "." + suffix, [], "alternate", mark=d["mark"], sources=[src]):
                k -= 1
        elif r < 0.8:
            cands = [l for s in scripts for l in LIGATURES[s]
                     if all(c in desc for c in l[1]) and l[0] not in desc]
            if cands:
                name, comps, _feat = rng.choice(cands)
                add(name, [], "ligature", sources=comps, wide=len(comps))
                k -= 1
        elif r < 0.88:
            # ligature of a letter with a script-neutral glyph (e.g. "a_period")
            neutral = [g for g in encoded if desc[g]["kind"] in ("common", "digit")
                       and g != "space" and set(desc[g]["script"]) <= {"Zyyy"}]
            letters = [g for g in encoded if desc[g]["kind"] == "letter"]
            if neutral and letters:
                a, b = rng.choice(letters), rng.choice(neutral)
                if add(a + "_" + b, [], "ligature", sources=[a, b], wide=2):
                    k -= 1
        elif r < 0.94:
            # alternate of an alternate (two GSUB steps away from the cmap)
            alts = [g for g in desc if desc[g]["kind"] == "alternate"]
            if alts:
                src = rng.choice(alts)
                if add(src + ".v2", [], "alternate", mark=desc[src]["mark"], sources=[src]):
                    k -= 1
        elif orphans:
            if add(rng.choice(["orphan", "a.unreach", "uniE000.x", "alef-ar.orphan"]), [],
                   "orphan"):
                k -= 1
    return glyphs, desc


def feature_for(desc, name):
    d = desc[name]
    src = d.get("sources") or []
    if d["kind"] == "alternate":
        suffix = name.rsplit(".", 1)[-1]
        return {"fina": "fina", "init": "init", "medi": "medi", "alt": "salt", "sc": "smcp",
                "ss01": "ss01", "v2": "ss02"}.get(suffix, "salt")
    for s in LIGATURES:
        for lname, comps, feat in LIGATURES[s]:
            if lname == name and comps == src:
                return feat
    return "liga"


def rules_for(desc):
    """GSUB rules (data) that make every unencoded glyph with `sources` reachable."""
    rules = []
    for name, d in desc.items():
        src = d.get("sources")
        if not src or d["unicodes"]:
            continue
        rules.append({"type": "single" if len(src) == 1 else "ligature",
                      "feature": feature_for(desc, name), "in": list(src), "out": name})
    return rules


def languagesystems_text(languagesystems, given_order=False):
    """[(scriptTag, langTag)] -> statements (DFLT dflt first when present, as feaLib demands,
    and every script's dflt before its other languages - unless `given_order`, which only moves
    the DFLT script's statements to the front, as feaLib demands)."""
    ls = []
    for s, l in languagesystems or []:
        if (s, l) not in ls:
            ls.append((s, l))
    if given_order:
        ls.sort(key=lambda p: (p != ("DFLT", "dflt"), p[0] != "DFLT"))
        return "".join("languagesystem %s %s;\n" % p for p in ls)
    # stable: DFLT dflt, then the other DFLT languages, then everything else in given order
    ls.sort(key=lambda p: (p != ("DFLT", "dflt"), p[0] != "DFLT"))
    out, seen = [], set()
    for s, l in ls:
        if l != "dflt" and (s, "dflt") in ls and (s, "dflt") not in seen:
            out.append((s, "dflt"))
            seen.add((s, "dflt"))
        if (s, l) not in seen:
            out.append((s, l))
            seen.add((s, l))
    return "".join("languagesystem %s %s;\n" % p for p in out)


def rules_text(rules, rng=None):
    by_feature = {}
    for r in rules:
        by_feature.setdefault(r["feature"], []).append(r)
    tags = sorted(by_feature)
    if rng is not None:
        rng.shuffle(tags)
    out = []
    for tag in tags:
        out.append("feature %s {\n" % tag)
        # longest ligatures first so that feaLib's ordering does not matter to anybody
        for r in sorted(by_feature[tag], key=lambda r: -len(r["in"])):
            out.append("    sub %s by %s;\n" % (" ".join(r["in"]), r["out"]))
        out.append("} %s;\n" % tag)
    return "".join(out)


def gsub_alternates(rng, desc, languagesystems=None, rules=None, given_order=False):
    """Feature text (languagesystem statements + GSUB) and the rules as data.
    `languagesystems`: None (no statement at all) or a list of (scriptTag, langTag)."""
    if rules is None:
        rules = rules_for(desc)
    text = languagesystems_text(languagesystems, given_order) + rules_text(rules, rng)
    return text, rules


def closure(desc, rules, key):
    """Provenance closure: {glyph: set(labels)}; key(codepoint) -> iterable of labels (or None).
    Glyphs that are neither encoded nor produced by a rule whose inputs are all reachable keep
    an empty set and are reported by `unreachable()`."""
    labels = {g: set() for g in desc}
    reach = set()
    for g, d in desc.items():
        if d["unicodes"]:
            reach.add(g)
            for u in d["unicodes"]:
                ks = key(u)
                if ks is None:
                    continue
                if isinstance(ks, str):
                    ks = [ks]
                labels[g].update(ks)
    for _ in range(len(desc) + 2):
        changed = False
        for r in rules:
            if r["out"] not in labels:
                continue
            if all(i in reach for i in r["in"]):
                new = set()
                for i in r["in"]:
                    new |= labels[i]
                if r["out"] not in reach or not new <= labels[r["out"]]:
                    reach.add(r["out"])
                    labels[r["out"]] |= new
                    changed = True
        if not changed:
            break
    return labels


def reachable_glyphs(desc, rules):
    reach = {g for g, d in desc.items() if d["unicodes"]}
    for _ in range(len(desc) + 2):
        n = len(reach)
        for r in rules:
            if all(i in reach for i in r["in"]):
                reach.add(r["out"])
        if len(reach) == n:
            break
    return reach


def desc_from_glyphs(glyph_specs, rules=None):
    """Recompute `desc` from glyph specs alone (used by oracles, so that the judged data come
    from the serialised case, not from generator bookkeeping)."""
    produced = {}
    for r in rules or []:
        produced.setdefault(r["out"], r)
    desc = {}
    for g in glyph_specs:
        u = g.get("unicodes") or []
        if u:
            kind = "letter"
        elif g["name"] in produced:
            kind = "alternate" if len(produced[g["name"]]["in"]) == 1 else "ligature"
        else:
            kind = "orphan"
        desc[g["name"]] = describe(g["name"], u, kind,
                                   produced[g["name"]]["in"] if (not u and g["name"] in produced)
                                   else None)
    return desc


def key_direction(u):
    """LTR / RTL by the code point's Unicode script; None for Common / Inherited."""
    return script_direction(ftud.script(chr(u)))


def key_scripts(u):
    """Explicit Unicode scripts of a code point (script extensions minus Zyyy/Zinh)."""
    return [s for s in ftud.script_extension(chr(u)) if s not in ("Zyyy", "Zinh", "Zzzz")]


# --------------------------------------------------------------------------- anchors / kerning

def add_mark_anchors(rng, glyphs, desc, classes=("top", "bottom"), p_base=0.8, mkmk=0.4,
                     coord=None):
    """Attach mark-attachment anchors in place: combining marks get `_cls` (and sometimes `cls`
    for mark-to-mark), letters / alternates get `cls`, ligatures `cls_1..cls_n`.  Returns the
    list of classes that have both a base and a mark anchor."""
    coord = coord or (lambda: rng.randint(-50, 700))
    used_mark, used_base = set(), set()
    for g in glyphs:
        d = desc[g["name"]]
        if g["name"] == ".notdef" or d["kind"] in ("orphan",) or g["name"] == "space":
            continue
        if d["mark"]:
            cls = rng.choice(classes)
            g["anchors"].append({"name": "_" + cls, "x": coord(), "y": coord()})
            used_mark.add(cls)
            if rng.random() < mkmk:
                g["anchors"].append({"name": cls, "x": coord(), "y": coord()})
        elif d["kind"] == "ligature":
            if rng.random() < p_base:
                cls = rng.choice(classes)
                for i in range(len(d.get("sources") or [0, 0])):
                    g["anchors"].append({"name": "%s_%d" % (cls, i + 1), "x": coord(),
                                         "y": coord()})
                used_base.add(cls)
        elif d["kind"] in ("letter", "alternate", "digit") or rng.random() < 0.2:
            if rng.random() < p_base:
                for cls in classes:
                    if rng.random() < 0.7:
                        g["anchors"].append({"name": cls, "x": coord(), "y": coord()})
                        used_base.add(cls)
    return sorted(used_mark & used_base)


def script_kerning(rng, desc, per_script=3, groups=True):
    """Kerning between letters of the same script: returns (kerning [[l, r, v]], groups {}).
    Every script with at least two letters gets >= 1 glyph-glyph pair."""
    by_script = {}
    for g, d in desc.items():
        if d["kind"] == "letter" and len(set(d["script"])) == 1:
            by_script.setdefault(d["script"][0], []).append(g)
    kerning, grp = [], {}
    for s, names in sorted(by_script.items()):
        if len(names) < 2:
            continue
        seen = set()
        for _ in range(per_script):
            l, r = rng.choice(names), rng.choice(names)
            if (l, r) in seen:
                continue
            seen.add((l, r))
            kerning.append([l, r, rng.choice([-80, -50, -25, -10, 15, 30, 60])])
        if groups and len(names) >= 3 and rng.random() < 0.5:
            members = rng.sample(names, 2)
            k1 = "public.kern1.%s" % s
            grp[k1] = members
            other = [n for n in names if n not in members]
            kerning.append([k1, rng.choice(other), rng.choice([-40, -20, 20])])
    return kerning, grp
