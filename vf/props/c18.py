"""C18 - GDEF classes, ligature carets and cursive anchors mirror the UFO data.

Run: generated multi-script UFOs (defcon / ufoLib2) with public.openTypeCategories maps (valid,
invalid, ghost and non-exported glyphs), caret_/vcaret_ anchor sets (unsorted, duplicate,
fractional), entry/exit anchors (two-sided, one-sided, .LTR/.RTL and other suffixes, mixed-direction
repertoires with GSUB-reachable alternates), with/without a user `table GDEF` block
-> ufo2ft.compileTTF (default feature writers: curs, kern, mark, GDEF) -> save -> reload.
Observe: GDEF GlyphClassDef + LigCaretList, GPOS CursivePos EntryExitRecords + LookupFlag bit 0.
Oracle: the UFO data themselves (categories restricted to exported glyphs / user classes, rounded
caret coordinates, rounded entry/exit coordinates, script direction closed over the generated GSUB
rules by an independent provenance closure).
"""
import io
import itertools
import json
import os
import traceback
from fractions import Fraction

import vf  # noqa: F401
from vf.build import build_ufo
from vf.gen import scripts as S
from vf.ref import otl

ID = "C18"
RULE = ("case = seeded multi-script UFO (Latin/Cyrillic/Greek/Arabic/Hebrew/Devanagari/kana letters, "
        "digits, punctuation, combining marks, GSUB-reachable alternates and ligatures, orphans) x "
        "UFO library x openTypeCategories map (valid / invalid / ghost / skipped glyphs / none) x "
        "caret anchors x entry/exit anchors (two-/one-sided, suffixed) x user GDEF block; distinct = "
        "sha1 of the case description; non-trivial = the font compiled and at least one GDEF class, "
        "caret list or cursive record was compared with the UFO data")
ASSUMPTIONS = [
    "fontTools' GDEF/GPOS decompiler is trusted to report what is stored in the saved bytes",
    "<= 40 glyphs, |coordinates| <= 3000, anchor names unique per glyph except in the dedicated "
    "duplicate-name stratum; user GDEF blocks reference exported glyphs only",
    "classes are judged only when the map contains at least one valid value (an all-invalid map "
    "is 'no categories': feaLib's inference from mark lookups is then admissible) or the user's "
    "features define GlyphClassDef (then the user's classes are demanded)",
    "cursive: a suffix group is expected in GPOS only if both entry<S> and exit<S> occur among the "
    "exported glyphs; direction by the script PROPERTY of the code points that reach a glyph "
    "through the generated GSUB rules: only LTR provenance -> flag cleared; only RTL provenance "
    "or none at all (script-neutral) -> flag set ('cleared exactly for left-to-right scripts'); "
    "mixed LTR and RTL provenance may sit in either lookup; every unencoded glyph is produced "
    "by at most one GSUB rule",
    "carets: compiled values must be non-decreasing, equal as a set to the rounded anchor "
    "coordinates, a value repeated at most as often as anchors round to it",
    "user GDEF blocks that define LigatureCaret statements: caret clause not judged (counted)",
    "two dedicated strata (duplicate caret anchor names, 2 %; categories that leave every exported "
    "glyph unassigned + user GDEF block without GlyphClassDef + mark anchors, 1 %) reproduce "
    "mechanisms that disagree with the statement on the unchanged tree (listed in "
    "known_findings.json); the default stratum avoids both",
]
NONVACUITY = ["class_glyphs_judged", "class_fonts_judged", "class_invalid_values", "class_ghost_entries",
              "class_skipped_entries", "user_gdef_class_fonts", "caret_glyphs_judged",
              "caret_unsorted_sources", "caret_fractional", "vcaret_glyphs",
              "curs_records_judged", "curs_ltr_cleared", "curs_rtl_set", "curs_one_sided_records",
              "curs_suffix_overrides_script", "curs_alt_via_gsub_judged", "curs_no_pair_fonts",
              "curs_mixed_direction_fonts", "curs_half_coords"]

# dedicated strata for mechanisms that disagree with the statement on the unchanged tree
DUP_CARET_NAME_STRATUM = 0.02
EMPTY_CATEGORIES_STRATUM = 0.01

KEY_DUP_CARET = "duplicate_caret_anchor_name_first_wins"
KEY_EMPTY_CATS = "empty_categories_with_user_gdef_block_classes_inferred"
_LISTED = None


def _stratum_active(key):
    """The dedicated strata are always generated (DESIGN section 6): a listed finding keeps being
    re-exercised, and a finding that disappears is noticed."""
    return True


VALID = {"unassigned": 0, "base": 1, "ligature": 2, "mark": 3, "component": 4}
INVALID_VALUES = ["Mark", "bases", "", "none", "Ligature", "spacing", "MARK", "0", 3]


def n_cases(tier):
    return 3000 if tier == "quick" else 40000


def budget_s(tier):
    return 120 if tier == "quick" else 900


def otround(v):
    f = Fraction(v)
    return (f + Fraction(1, 2)).__floor__()


# --------------------------------------------------------------------------- generator

def _coord(rng, lo=-200, hi=900):
    r = rng.random()
    base = rng.randint(lo, hi)
    if r < 0.5:
        return base
    if r < 0.75:
        return base + 0.5
    if r < 0.85:
        return rng.choice([-0.5, -1.5, -2.5, 0.5, 1.5, 2.5, -100.5, 249.5])
    if r < 0.93:
        return base + rng.choice([0.25, 0.75, 0.49, 0.51])
    return round(base + rng.random(), 3)


def _pick_scripts(rng):
    r = rng.random()
    if r < 0.40:
        return rng.choice([["Latn", "Arab"], ["Latn", "Hebr"], ["Latn", "Arab", "Hebr"],
                           ["Cyrl", "Arab"], ["Grek", "Hebr"], ["Deva", "Arab"]])
    if r < 0.58:
        return [rng.choice(["Arab", "Hebr"])]
    if r < 0.62:
        return ["Arab", "Hebr"]
    if r < 0.80:
        return [rng.choice(["Latn", "Cyrl", "Grek", "Deva", "Hira"])]
    return None


def gen(rng, idx, tier):
    stratum = "default"
    r0 = rng.random()
    if r0 < DUP_CARET_NAME_STRATUM:
        if _stratum_active(KEY_DUP_CARET):
            stratum = "dup_caret_names"
    elif r0 < DUP_CARET_NAME_STRATUM + EMPTY_CATEGORIES_STRATUM:
        if _stratum_active(KEY_EMPTY_CATS):
            stratum = "empty_categories_user_gdef"
    scripts = _pick_scripts(rng)
    glyphs, desc = S.repertoire(rng, scripts=scripts, n=rng.choice([4, 6, 8, 10]),
                                n_unencoded=rng.choice([1, 2, 3, 4, 5]),
                                n_marks=2 if stratum == "empty_categories_user_gdef" else None)
    if rng.random() < 0.2:
        # letters that also carry a script-neutral code point (Delta = U+0394 and U+2206 INCREMENT,
        # mu = U+03BC and U+00B5): the script code point first or last; still that script's glyph
        extra_cps = [0x2206, 0x00B5, 0x2219, 0x25CA, 0x2215, 0x00B7]
        rng.shuffle(extra_cps)
        for g in glyphs:
            d = desc[g["name"]]
            if d["kind"] == "letter" and len(g["unicodes"]) == 1 and extra_cps and rng.random() < 0.4:
                cp = extra_cps.pop()
                g["unicodes"] = g["unicodes"] + [cp] if rng.random() < 0.7 else [cp] + g["unicodes"]
                desc[g["name"]] = S.describe(g["name"], g["unicodes"], d["kind"], d.get("sources"))
    names = [g["name"] for g in glyphs]
    rules = S.rules_for(desc)
    in_rules = {n for r in rules for n in r["in"] + [r["out"]]}
    # ---- non-exported glyphs (never referenced by the feature text)
    skip = []
    if rng.random() < 0.45:
        cands = [n for n in names if n not in in_rules and n != ".notdef"]
        rng.shuffle(cands)
        skip = cands[:rng.choice([1, 1, 2])]
    exported = [n for n in names if n not in skip]
    # ---- categories
    cats = None
    r = rng.random()
    if r >= 0.12:
        cats = {}
        hostile = r >= 0.40
        for n in names:
            if rng.random() < 0.75:
                d = desc[n]
                natural = "mark" if d["mark"] else ("ligature" if d["kind"] == "ligature" else "base")
                q = rng.random()
                if q < 0.62:
                    cats[n] = natural
                elif q < 0.90 or not hostile:
                    cats[n] = rng.choice(list(VALID))
                else:
                    cats[n] = rng.choice(INVALID_VALUES)
        if hostile:
            for ghost in rng.sample(["ghost", "a.missing", "uni0000", "f_f_l", "zzz-ar"],
                                    rng.choice([0, 1, 2])):
                if ghost not in names:
                    cats[ghost] = rng.choice(list(VALID) + INVALID_VALUES[:2])
        for n in skip:
            if rng.random() < 0.8:
                cats[n] = rng.choice(["base", "mark", "ligature", "component"])
        if rng.random() < 0.03:
            cats = {n: rng.choice(INVALID_VALUES) for n in rng.sample(names, min(3, len(names)))}
        if rng.random() < 0.02:
            cats = {n: "unassigned" for n in rng.sample(names, min(3, len(names)))}
        if rng.random() < 0.07:
            # a map that uses ONE of the four classes only (plus unassigned / invalid / skipped
            # entries): every class alone must be enough for the statement to be written
            one = rng.choice(["component", "component", "base", "ligature", "mark"])
            cats = {n: one for n in rng.sample(exported, min(rng.choice([1, 2, 3]), len(exported)))}
            for n in rng.sample(names, min(2, len(names))):
                cats.setdefault(n, rng.choice(["unassigned", INVALID_VALUES[0]]))
    # ---- caret anchors
    by_name = {g["name"]: g for g in glyphs}
    for g in glyphs:
        d = desc[g["name"]]
        p = 0.85 if d["kind"] == "ligature" else 0.08
        if rng.random() >= p:
            continue
        kind = rng.choice(["caret", "caret", "caret", "vcaret", "both"])
        k = rng.choice([1, 2, 2, 3, 4])
        xs = [_coord(rng, 0, 1500) for _ in range(k)]
        if rng.random() < 0.35 and k >= 2:
            xs[1] = xs[0]                                   # duplicate coordinate
        if rng.random() < 0.25 and k >= 2:
            xs[-1] = int(xs[0]) + rng.choice([0.2, 0.4, -0.3])   # distinct, same rounding
        if rng.random() < 0.2:
            # boundary values: a caret exactly on (or rounding to) the origin, or negative
            xs[rng.randrange(k)] = rng.choice([0, 0, 0.0, 0.4, -0.4, 1, -1, -37])
        if rng.random() < 0.5:
            xs.sort(reverse=rng.random() < 0.5)
        idxs = list(range(1, k + 1))
        if rng.random() < 0.3:
            rng.shuffle(idxs)
        for i, v in zip(idxs, xs):
            pre = "vcaret_" if (kind == "vcaret" or (kind == "both" and i % 2 == 0)) else "caret_"
            other = _coord(rng, -100, 100)
            g["anchors"].append({"name": "%s%d" % (pre, i), "x": other if pre == "vcaret_" else v,
                                 "y": v if pre == "vcaret_" else other})
        if stratum == "dup_caret_names" and d["kind"] == "ligature":
            g["anchors"].append({"name": "caret_1", "x": _coord(rng, 1600, 1900), "y": 0})
    # ---- cursive anchors
    mode = rng.choice(["none", "plain", "plain", "plain", "suffix", "suffix", "mixed", "mixed",
                       "one_sided_font"])
    cands = [n for n in names if n != ".notdef" and desc[n]["kind"] != "common" or rng.random() < 0.15]
    cands = [n for n in cands if n != ".notdef"]

    def put(n, side, suffix):
        nm = side + suffix
        if any(a["name"] == nm for a in by_name[n]["anchors"]):
            return
        x, y = _coord(rng), _coord(rng, -300, 600)
        q = rng.random()
        if q < 0.06:
            x, y = 0, 0                  # exactly at the origin (a valid position)
        elif q < 0.10:
            x, y = rng.choice([(0, y), (x, 0), (0.3, -0.4)])
        by_name[n]["anchors"].append({"name": nm, "x": x, "y": y})

    if mode != "none" and cands:
        if mode == "one_sided_font":
            side = rng.choice(["entry", "exit"])
            sfx = rng.choice(["", "", ".LTR", ".RTL"])
            for n in rng.sample(cands, min(len(cands), rng.randint(1, 4))):
                put(n, side, sfx)
            if rng.random() < 0.5 and sfx:
                # the other side exists, but only with a different suffix => still no pair
                put(rng.choice(cands), "exit" if side == "entry" else "entry",
                    rng.choice([".alt", ""]))
        else:
            suffixes = {"plain": [""], "suffix": rng.choice([[".LTR"], [".RTL"], [".LTR", ".RTL"],
                                                            [".alt"], ["", ".RTL"], ["", ".LTR"],
                                                            [".2.RTL"], [".alt.LTR"], [".2.LTR"],
                                                            [".alt.LTR", ".alt.RTL"]]),
                        "mixed": rng.choice([["", ".LTR", ".RTL"], ["", ".alt"], ["", ".RTL"],
                                             [".LTR", ".alt"], ["", ".1.LTR"]])}[mode]
            for sfx in suffixes:
                chosen = rng.sample(cands, min(len(cands), rng.randint(2, 7)))
                for j, n in enumerate(chosen):
                    q = rng.random()
                    if j == 0:
                        sides = ["entry", "exit"]
                    elif q < 0.55:
                        sides = ["entry", "exit"]
                    elif q < 0.78:
                        sides = ["entry"]
                    else:
                        sides = ["exit"]
                    for s_ in sides:
                        put(n, s_, sfx)
            if rng.random() < 0.15:
                # an unpaired extra group next to paired ones
                put(rng.choice(cands), rng.choice(["entry", "exit"]), ".solo")
    # ---- a script-neutral glyph (by script PROPERTY) whose alternate carries cursive anchors:
    # U+0640 TATWEEL belongs to right-to-left scripts only by its script extensions
    kashida = None
    if mode != "none" and rng.random() < 0.2 and "kashida-ar" not in by_name:
        for n_, u_ in (("kashida-ar", [0x640]), ("kashida-ar.long", [])):
            g_ = S._spec(rng, n_, u_)
            glyphs.append(g_)
            by_name[n_] = g_
            names.append(n_)
            exported.append(n_) if isinstance(exported, list) else exported.add(n_)
            desc[n_] = S.describe(n_, u_, "letter" if u_ else "alternate",
                                  None if u_ else ["kashida-ar"])
            put(n_, "entry", "")
            put(n_, "exit", "")
        rules.append({"type": "single", "feature": "salt", "in": ["kashida-ar"],
                      "out": "kashida-ar.long"})
        kashida = True
    # ---- cursive glyphs encoded beyond the BMP only: Deseret (left-to-right), Adlam
    # (right-to-left) - the direction comes from the code point whatever plane it is in
    if mode != "none" and rng.random() < 0.15:
        for n_, u_ in rng.sample([("dsrtLongI", 0x10400), ("dsrtLongE", 0x10401),
                                  ("adlamAlif", 0x1E900), ("adlamDaali", 0x1E901)], rng.choice([1, 2, 3])):
            if n_ in by_name:
                continue
            g_ = S._spec(rng, n_, [u_])
            glyphs.append(g_)
            by_name[n_] = g_
            names.append(n_)
            exported.append(n_) if isinstance(exported, list) else exported.add(n_)
            desc[n_] = S.describe(n_, [u_], "letter")
            put(n_, "entry", "")
            put(n_, "exit", "")
    # ---- a few mark anchors / kerning for realism (all default writers run)
    if stratum == "empty_categories_user_gdef":
        S.add_mark_anchors(rng, glyphs, desc, classes=("top",), p_base=0.95)
    elif rng.random() < 0.3:
        S.add_mark_anchors(rng, glyphs, desc, classes=("top",), p_base=0.5)
    kerning, groups = ([], {})
    if rng.random() < 0.4:
        kerning, groups = S.script_kerning(rng, {n: desc[n] for n in exported}, per_script=2)
    # ---- features
    lsys = None
    if rng.random() < 0.5:
        lsys = [("DFLT", "dflt")]
        for s in sorted({x for n in exported for x in desc[n]["script"]} - {"Zyyy", "Zinh"}):
            if rng.random() < 0.8:
                lsys += [(t, "dflt") for t in S.ot_script_tags(s)]
    text, rules = S.gsub_alternates(rng, desc, lsys, rules)
    user = None
    r = rng.random()
    if r < 0.30:
        user = {"classes": {}, "carets": None}
        pool = [n for n in exported]
        for n in pool:
            q = rng.random()
            if q < 0.7:
                d = desc[n]
                natural = 3 if d["mark"] else (2 if d["kind"] == "ligature" else 1)
                user["classes"][n] = natural if rng.random() < 0.7 else rng.choice([1, 2, 3, 4])
    elif r < 0.35:
        ligs = [n for n in exported if n != ".notdef"]
        user = {"classes": None, "carets": {rng.choice(ligs): sorted({rng.randint(50, 900)
                                                                    for _ in range(rng.choice([1, 2]))})}}
    if stratum == "empty_categories_user_gdef":
        # every exported glyph unassigned (explicitly, or because only ghosts / non-exported
        # glyphs are categorised) + a user GDEF block that has no GlyphClassDef
        cats = rng.choice([
            {n: "unassigned" for n in rng.sample(exported, min(3, len(exported)))},
            {"ghost": "base", "a.missing": "mark"},
            dict({n: "mark" for n in skip}, ghost="ligature"),
        ])
        ligs = [n for n in exported if n != ".notdef"]
        user = {"classes": None, "carets": {rng.choice(ligs): [rng.randint(50, 900)]}}
    elif (user is not None and user["classes"] is None and cats is not None
          and _effectively_empty(cats, exported)):
        cats[[n for n in exported if n != ".notdef"][0]] = "base"
    if user is not None:
        text += _gdef_block(rng, user)
    lib = {}
    if cats is not None:
        lib["public.openTypeCategories"] = cats
    if skip:
        lib["public.skipExportGlyphs"] = skip
    order = list(names)
    if rng.random() < 0.3:
        rng.shuffle(order)
    return {
        "stratum": stratum,
        "lib": rng.choice(["defcon", "ufoLib2"]),
        "ufo": {"glyphs": glyphs, "info": {"unitsPerEm": 1000, "familyName": "T", "styleName": "R",
                                           "ascender": 800, "descender": -200},
                "lib": lib, "features": text, "kerning": kerning, "groups": groups,
                "glyphOrder": order if rng.random() < 0.7 else None},
        "rules": rules,
        "user_gdef": user,
    }


def _effectively_empty(cats, exported):
    """The map holds valid values, yet no exported glyph gets a class from it."""
    exported = set(exported)
    return (any(isinstance(v, str) and v in VALID for v in cats.values())
            and not any(g in exported and isinstance(v, str) and VALID.get(v, 0) > 0
                        for g, v in cats.items()))


def _gdef_block(rng, user):
    out = []
    body = []
    if user["classes"] is not None:
        per = {1: [], 2: [], 3: [], 4: []}
        for n, c in user["classes"].items():
            per[c].append(n)
        parts = []
        # feature-file order: base, ligature, mark, component
        for c in (1, 2, 3, 4):
            if not per[c]:
                parts.append("")
            elif rng.random() < 0.3:
                cname = "@GDEF_%d" % c
                out.append("%s = [%s];\n" % (cname, " ".join(per[c])))
                parts.append(cname)
            else:
                parts.append("[%s]" % " ".join(per[c]))
        body.append("    GlyphClassDef %s;\n" % ", ".join(parts))
    if user["carets"]:
        for n, vals in user["carets"].items():
            body.append("    LigatureCaretByPos %s %s;\n" % (n, " ".join(str(v) for v in vals)))
    out.append("table GDEF {\n" + "".join(body) + "} GDEF;\n")
    return "".join(out)


def sample_view(case):
    u = case["ufo"]
    return {"lib": case["lib"], "stratum": case["stratum"],
            "glyphs": [{"name": g["name"], "unicodes": g["unicodes"],
                        "anchors": g["anchors"]} for g in u["glyphs"][:40]],
            "lib_keys": u["lib"], "features": u["features"], "user_gdef": case["user_gdef"]}


# --------------------------------------------------------------------------- oracle

def expected_classes(case, exported):
    """-> (mode, {glyph: class}) ; mode 'user' | 'categories' | 'unjudged_*'."""
    user = case.get("user_gdef")
    if user and user.get("classes") is not None:
        return "user", {g: c for g, c in user["classes"].items()}
    cats = case["ufo"]["lib"].get("public.openTypeCategories")
    if cats is None or not cats:
        return "unjudged_no_categories", {}
    if not any(isinstance(v, str) and v in VALID for v in cats.values()):
        return "unjudged_all_invalid", {}
    exp = {}
    for g, v in cats.items():
        if g in exported and isinstance(v, str) and VALID.get(v, 0) > 0:
            exp[g] = VALID[v]
    return "categories", exp


def caret_sources(glyph):
    vals = []
    for a in glyph.get("anchors", []):
        n = a["name"]
        if n.startswith("caret_"):
            vals.append(a["x"])
        elif n.startswith("vcaret_"):
            vals.append(a["y"])
    return vals


def cursive_groups(glyph):
    """{suffix: {"entry": (x, y) | None, "exit": ...}} from the anchors of one glyph spec."""
    groups = {}
    for a in glyph.get("anchors", []):
        n = a["name"]
        for side in ("entry", "exit"):
            if n == side or n.startswith(side + "."):
                sfx = n[len(side):]
                grp = groups.setdefault(sfx, {"entry": None, "exit": None})
                if grp[side] is None:
                    grp[side] = (a["x"], a["y"])
    return groups


def _r(p):
    return None if p is None else (otround(p[0]), otround(p[1]))


def run(case):
    import ufo2ft
    from fontTools.ttLib import TTFont

    spec = case["ufo"]
    counters = {}

    def bump(k, n=1):
        counters[k] = counters.get(k, 0) + n

    skip = set(spec["lib"].get("public.skipExportGlyphs", []))
    gspecs = [g for g in spec["glyphs"] if g["name"] not in skip]
    exported = {g["name"] for g in gspecs}
    font = build_ufo(spec, case["lib"])
    try:
        tt = ufo2ft.compileTTF(font, useProductionNames=False)
        buf = io.BytesIO()
        tt.save(buf)
        buf.seek(0)
        tt = TTFont(buf)
        order = set(tt.getGlyphOrder())
        classes = otl.gdef_classes(tt)
        carets = otl.gdef_lig_carets(tt)
        records = otl.cursive_records(tt)
    except Exception:  # noqa: BLE001
        return {"status": "violated", "counters": counters, "violations": [
            {"mech": "unexpected_exception", "detail": {"trace": traceback.format_exc()[-3000:]}}]}
    violations = []
    nontrivial = False
    if order - {".notdef"} != exported - {".notdef"}:
        violations.append({"mech": "glyph_set", "detail": {
            "missing": sorted(exported - order), "extra": sorted(order - exported)}})

    # ------------------------------------------------------------ GDEF classes
    mode, exp = expected_classes(case, exported)
    cats = spec["lib"].get("public.openTypeCategories") or {}
    bump("class_mode_" + mode)
    if mode in ("user", "categories"):
        bump("class_fonts_judged")
        if mode == "user":
            bump("user_gdef_class_fonts")
            if cats:
                bump("user_gdef_with_categories_fonts")
        else:
            names_all = {g["name"] for g in spec["glyphs"]}
            bump("class_invalid_values", sum(1 for v in cats.values()
                                             if not (isinstance(v, str) and v in VALID)))
            bump("class_ghost_entries", sum(1 for g in cats if g not in names_all))
            bump("class_skipped_entries", sum(1 for g in cats if g in skip))
            bump("class_unassigned_entries", sum(1 for v in cats.values() if v == "unassigned"))
            for c in (1, 2, 3, 4):
                bump("class_%d_expected" % c, sum(1 for v in exp.values() if v == c))
        bump("class_glyphs_judged", len(exported))
        if classes != exp:
            diff = {g: {"expected": exp.get(g, 0), "got": classes.get(g, 0)}
                    for g in sorted(set(exp) | set(classes)) if exp.get(g, 0) != classes.get(g, 0)}
            violations.append({"mech": "gdef_classes_" + mode, "detail": {
                "diff": diff, "categories": cats if mode == "categories" else None,
                "skipExport": sorted(skip)}})
        if exp:
            nontrivial = True
    elif classes:
        bump("class_unjudged_but_present_fonts")

    # ------------------------------------------------------------ ligature carets
    user = case.get("user_gdef") or {}
    if user.get("carets"):
        bump("caret_unjudged_user_defined_fonts")
        if {g: [v for _, v in vals] for g, vals in carets.items()} != \
                {g: sorted(set(v)) for g, v in user["carets"].items()}:
            bump("caret_user_defined_differs")
    else:
        dup_names = case["stratum"] == "dup_caret_names"
        for g in gspecs:
            name = g["name"]
            src = caret_sources(g)
            got = carets.get(name)
            if not src:
                if got is not None:
                    violations.append({"mech": "caret_unexpected", "detail": {"glyph": name,
                                                                              "got": got}})
                continue
            bump("caret_glyphs_judged")
            nontrivial = True
            rounded = [otround(v) for v in src]
            if src != sorted(src):
                bump("caret_unsorted_sources")
            if len(set(src)) < len(src):
                bump("caret_duplicate_sources")
            if len(set(rounded)) < len(set(src)):
                bump("caret_distinct_sources_same_rounding")
            if any(Fraction(v).denominator != 1 for v in src):
                bump("caret_fractional")
            if any(Fraction(v).denominator == 2 for v in src):
                bump("caret_half_ties")
            if any(a["name"].startswith("vcaret_") for a in g["anchors"]):
                bump("vcaret_glyphs")
            if got is None:
                violations.append({"mech": "caret_missing", "detail": {
                    "glyph": name, "anchors": g["anchors"], "expected": sorted(set(rounded))}})
                continue
            if any(k != "coord" for k, _ in got):
                violations.append({"mech": "caret_format", "detail": {"glyph": name, "got": got}})
                continue
            vals = [v for _, v in got]
            ok = (vals == sorted(vals) and set(vals) == set(rounded)
                  and all(vals.count(v) <= rounded.count(v) for v in set(vals)))
            if len(vals) != len(set(vals)):
                bump("caret_repeated_values_stored")
            if not ok:
                mech = "caret_values"
                if dup_names and len({a["name"] for a in g["anchors"]}) < len(g["anchors"]):
                    mech = "caret_values_duplicate_anchor_name"
                violations.append({"mech": mech, "detail": {
                    "glyph": name, "anchors": [a for a in g["anchors"] if "caret_" in a["name"]],
                    "expected_sorted_distinct": sorted(set(rounded)), "got": vals}})
        for name in carets:
            if name not in exported:
                violations.append({"mech": "caret_unexpected", "detail": {"glyph": name}})

    # ------------------------------------------------------------ cursive attachment
    rules = case.get("rules") or []
    rules = [r for r in rules if r["out"] in exported and all(i in exported for i in r["in"])]
    desc = S.desc_from_glyphs(gspecs, rules)
    direction = S.closure(desc, rules, S.key_direction)
    all_dirs = set()
    for g in gspecs:
        if g["unicodes"]:
            all_dirs |= direction[g["name"]]
    groups = {g["name"]: cursive_groups(g) for g in gspecs}
    present = set()
    for name, grp in groups.items():
        for sfx, sides in grp.items():
            for side in ("entry", "exit"):
                if sides[side] is not None:
                    present.add(side + sfx)
    paired = {n[5:] for n in present if n.startswith("entry") and ("exit" + n[5:]) in present}
    any_cursive = bool(present)
    if any_cursive and not paired:
        bump("curs_no_pair_fonts")
    if paired and {"LTR", "RTL"} <= all_dirs:
        bump("curs_mixed_direction_fonts")
    got_by_glyph = {}
    for r in records:
        if not r["format_ok"]:
            violations.append({"mech": "curs_record_format", "detail": {"record": r}})
        got_by_glyph.setdefault(r["glyph"], []).append(r)
    flags_per_lookup = {}
    for r in records:
        flags_per_lookup.setdefault(r["lookup"], set()).add(r["rtl"])
    for name in sorted(exported | set(got_by_glyph)):
        expected = []
        for sfx, sides in sorted(groups.get(name, {}).items()):
            if sfx not in paired:
                bump("curs_unpaired_groups")
                continue
            if sfx.endswith(".LTR"):
                want, why = "LTR", "suffix"
            elif sfx.endswith(".RTL"):
                want, why = "RTL", "suffix"
            else:
                ds = direction.get(name, set())
                if ds == {"LTR"}:
                    want, why = "LTR", "script"
                elif ds == {"RTL"}:
                    want, why = "RTL", "script"
                elif not ds:
                    # "cleared exactly for glyphs of left-to-right scripts": a glyph no
                    # script-specific code point reaches keeps the flag
                    want, why = "RTL", "neutral"
                else:
                    want, why = None, "mixed"
            expected.append({"suffix": sfx, "entry": _r(sides["entry"]), "exit": _r(sides["exit"]),
                             "dir": want, "why": why, "raw": sides})
        got = got_by_glyph.get(name, [])
        if not expected and not got:
            continue
        match = _match(expected, got)
        if match is None:
            coords_e = sorted((str(e["entry"]), str(e["exit"])) for e in expected)
            coords_g = sorted((str(r["entry"]), str(r["exit"])) for r in got)
            if coords_e == coords_g:
                mech = "curs_direction_flag"
            elif len(got) < len(expected):
                mech = "curs_record_missing"
            elif len(got) > len(expected):
                mech = "curs_record_unexpected"
            else:
                mech = "curs_record_coordinates"
            violations.append({"mech": mech, "detail": {
                "glyph": name, "unicodes": desc.get(name, {}).get("unicodes"),
                "provenance_directions": sorted(direction.get(name, [])),
                "expected": [{k: e[k] for k in ("suffix", "entry", "exit", "dir", "why", "raw")}
                             for e in expected],
                "got": [{k: r[k] for k in ("lookup", "rtl", "entry", "exit")} for r in got],
                "paired_suffixes": sorted(paired)}})
            continue
        nontrivial = True
        for e, r in match:
            bump("curs_records_judged")
            if e["entry"] is None or e["exit"] is None:
                bump("curs_one_sided_records")
            if any(p is not None and any(Fraction(v).denominator == 2 for v in p)
                   for p in (e["raw"]["entry"], e["raw"]["exit"])):
                bump("curs_half_coords")
            if any(p is not None and any(Fraction(v) < 0 and Fraction(v).denominator != 1 for v in p)
                   for p in (e["raw"]["entry"], e["raw"]["exit"])):
                bump("curs_negative_fraction_coords")
            if e["dir"] is None:
                bump("curs_dir_%s_got_%s" % (e["why"], "rtl" if r["rtl"] else "ltr"))
                continue
            bump("curs_ltr_cleared" if e["dir"] == "LTR" else "curs_rtl_set")
            if e["why"] == "suffix":
                ds = direction.get(name, set())
                if (e["dir"] == "LTR" and ds == {"RTL"}) or (e["dir"] == "RTL" and ds == {"LTR"}):
                    bump("curs_suffix_overrides_script")
                bump("curs_suffix_judged")
            elif not desc[name]["unicodes"]:
                bump("curs_alt_via_gsub_judged")
    for lk, fl in flags_per_lookup.items():
        if len(fl) > 1:
            violations.append({"mech": "curs_lookup_flag_inconsistent", "detail": {"lookup": lk}})
    if records:
        bump("curs_fonts_with_records")
    return {"status": "violated" if violations else "held", "violations": violations,
            "counters": counters, "nontrivial": nontrivial}


def _match(expected, got):
    """Perfect matching between expected groups and stored records (coordinates equal, direction
    compatible); None when there is none.  Lists are tiny (<= 4)."""
    if len(expected) != len(got):
        return None
    if len(got) > 6:
        return None
    for perm in itertools.permutations(range(len(got))):
        ok = True
        for e, j in zip(expected, perm):
            r = got[j]
            if e["entry"] != r["entry"] or e["exit"] != r["exit"]:
                ok = False
                break
            if e["dir"] is not None and (e["dir"] == "RTL") != r["rtl"]:
                ok = False
                break
        if ok:
            return [(e, got[j]) for e, j in zip(expected, perm)]
    return None


def classify(v, case):
    if v["mech"] == "caret_values_duplicate_anchor_name":
        return KEY_DUP_CARET
    if v["mech"] == "gdef_classes_categories":
        # structural predicate: the categories give no class to any exported glyph (all
        # 'unassigned' / ghost / non-exported) and the user's features contain a GDEF table block
        # without GlyphClassDef
        user = case.get("user_gdef")
        cats = case["ufo"]["lib"].get("public.openTypeCategories") or {}
        skip = set(case["ufo"]["lib"].get("public.skipExportGlyphs", []))
        exported = [g["name"] for g in case["ufo"]["glyphs"] if g["name"] not in skip]
        if user is not None and user.get("classes") is None and _effectively_empty(cats, exported):
            return KEY_EMPTY_CATS
    return None
