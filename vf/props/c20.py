"""C20 - Generated positioning features are reachable from every registered script.

Run: generated single- and multi-script UFOs (defcon / ufoLib2) that have kerning between letters
of each script AND mark-attachment anchors (top/bottom on letters, _top/_bottom on combining
marks of the same scripts) and/or entry/exit anchors, with `languagesystem` statements for: all
scripts / the kerned scripts (default stratum) or none / DFLT only / some scripts / no DFLT
(dedicated stratum for the known mechanism) -> ufo2ft.compileTTF (default writers: curs, kern,
mark, GDEF) -> save -> reload.
Observe: GPOS ScriptList -> DefaultLangSys and LangSysRecords -> FeatureIndex -> feature tags ->
lookups -> coverages (cursive coverage; mark, base, ligature and base-mark coverages).
Oracle: every language system that reaches a generated kern/dist feature must also reach every
lookup of the generated mark / mkmk / curs / abvm / blwm features that covers a glyph of that
script (Unicode script extensions of the glyph's code points, closed over the generated GSUB
rules by an independent provenance closure; DFLT: script-neutral glyphs and glyphs of scripts
that have no tag of their own in the ScriptList).
"""
import io
import re
import traceback

import vf  # noqa: F401
from vf.build import build_ufo
from vf.gen import scripts as S
from vf.ref import otl

ID = "C20"
RULE = ("case = seeded UFO over 1-3 of Latin/Cyrillic/Greek/Arabic/Hebrew/Devanagari/Hiragana/"
        "Katakana with same-script kerning, mark anchors on letters and combining marks, optional "
        "entry/exit anchors, GSUB-reachable alternates/ligatures x UFO library x languagesystem "
        "layout (all scripts, kerned scripts, extra languages | none, DFLT only, some scripts, no "
        "DFLT) x ~14 %: an encoded glyph of a script the font does not export, listed in "
        "public.skipExportGlyphs, next to a kerned exported glyph whose Script_Extensions include "
        "that script (control: the same glyph exported); distinct = sha1 of the case description; non-trivial = the compiled GPOS has a "
        "language system reaching kern/dist for which at least one mark/mkmk/curs/abvm/blwm "
        "lookup acting on that script's glyphs was required")
ASSUMPTIONS = [
    "fontTools' GPOS decompiler is trusted; the user's feature text holds only languagesystem "
    "statements and GSUB features, so every GPOS feature in the font is a generated one",
    "a glyph belongs to script tag t if one of its explicit Unicode scripts (script extensions "
    "minus Zyyy/Zinh, over the code points that reach it through the generated GSUB rules) maps "
    "to t (fontTools.unicodedata.ot_tags_from_script); it belongs to DFLT if it has no explicit "
    "script or one of its scripts has no tag in the compiled ScriptList",
    "a non-default language of a script is always declared together with that script's dflt",
    "<= 45 glyphs, 1-3 scripts",
]
NONVACUITY = ["default_cases", "default_scripts_judged", "default_scripts_kern_and_mark",
              "default_multi_script_cases", "default_curs_required_scripts",
              "default_langsys_records_judged", "default_dist_scripts_judged",
              "known_stratum_cases", "scripts_judged",
              "foreign_skipped_cases", "foreign_exported_control"]

POS_TAGS = ("mark", "mkmk", "curs", "abvm", "blwm")
KERN_TAGS = ("kern", "dist")
KNOWN_KEY = "script_only_registered_by_kern_writer"
EXTRA_LANGS = {"latn": ["TRK", "ROM"], "arab": ["URD"], "cyrl": ["SRB"], "dev2": ["MAR"],
               "grek": ["PGR"], "hebr": ["IWR"], "kana": ["JAN"]}


# glyphs whose code point belongs to several scripts (Script_Extensions), and encoded letters of
# scripts the generated repertoires never export: a source glyph of such a script listed in
# public.skipExportGlyphs is not part of the compiled font
MULTI_SCX = [("comma-ar", 0x60C), ("tatweel-ar", 0x640), ("question-ar", 0x61F),
             ("danda-deva", 0x964), ("hyphenoblique", 0x2E17), ("paragraphsep-geor", 0x10FB),
             ("sidewayscomma", 0x2E43), ("ideographiccomma", 0x3001), ("dieresiscomb", 0x308),
             ("tildecomb", 0x303), ("titlocomb-cy", 0x483), ("fullstop-arm", 0x589)]
FOREIGN = [("alaph-syr", 0x710), ("haa-thaa", 0x780), ("na-nko", 0x7CA), ("ka-beng", 0x995),
           ("ka-gujr", 0xA95), ("one-hani", 0x4E00), ("an-geor", 0x10D0), ("shei-copt", 0x3E2),
           ("ayb-arm", 0x531), ("azu-glag", 0x2C00), ("an-perm", 0x10350), ("ka-thai", 0xE01)]


def n_cases(tier):
    return 2400 if tier == "quick" else 40000


def budget_s(tier):
    return 120 if tier == "quick" else 900


# --------------------------------------------------------------------------- generator

def _tags(scripts):
    out = []
    for s in scripts:
        for t in S.ot_script_tags(s):
            if t not in out:
                out.append(t)
    return out


def gen(rng, idx, tier):
    r = rng.random()
    if r < 0.38:
        scripts = [rng.choice(S.ALL_SCRIPTS)]
    elif r < 0.80:
        scripts = rng.sample(S.ALL_SCRIPTS, 2)
    else:
        scripts = rng.sample(S.ALL_SCRIPTS, 3)
    if rng.random() < 0.25 and "Arab" not in scripts:
        scripts[-1] = "Arab"
    elif len(scripts) >= 2 and not (set(scripts) & set(S.RTL_SCRIPTS)) and rng.random() < 0.3:
        # (keep right-to-left scripts as frequent as they were in a smaller pool of scripts)
        scripts[0] = rng.choice(S.RTL_SCRIPTS)
    chain = rng.random() < 0.06
    if chain:
        # kerning whose script sets overlap only pairwise (cross-script classes), see C05
        scripts = rng.sample(["Latn", "Cyrl", "Grek"], 3) + (["Hira"] if rng.random() < 0.6 else [])
    glyphs, desc = S.repertoire(rng, scripts=scripts, n=12 if chain else rng.choice([4, 6, 8, 9]),
                                n_marks=rng.choice([1, 2, 3]),
                                n_unencoded=rng.choice([0, 1, 2, 3]), double_encoded=0.03)
    by_name = {g["name"]: g for g in glyphs}
    # ---- anchors
    has_marks = rng.random() < 0.85
    if has_marks:
        S.add_mark_anchors(rng, glyphs, desc, classes=rng.choice([("top",), ("top", "bottom")]),
                           p_base=0.85, mkmk=0.5)
    has_curs = (rng.random() < 0.45) or not has_marks
    if has_curs:
        cs = rng.sample(scripts, rng.choice([1, 1, len(scripts)]))
        cands = [n for n, d in desc.items() if d["kind"] in ("letter", "alternate", "ligature")
                 and (set(d["script"]) & set(cs) or (not d["unicodes"] and rng.random() < 0.5))]
        if len(cands) < 2:
            cands = [n for n, d in desc.items() if d["kind"] == "letter"]
        for j, n in enumerate(rng.sample(cands, min(len(cands), rng.randint(2, 6)))):
            sides = ["entry", "exit"] if j == 0 or rng.random() < 0.7 else [rng.choice(["entry", "exit"])]
            for side in sides:
                by_name[n]["anchors"].append({"name": side, "x": rng.randint(-20, 520),
                                              "y": rng.randint(-100, 300)})
    # ---- kerning: all scripts, or a proper subset of them
    kerned = list(scripts)
    if len(scripts) > 1 and rng.random() < 0.3:
        kerned = rng.sample(scripts, rng.randint(1, len(scripts) - 1))
    kdesc = {n: d for n, d in desc.items() if set(d["script"]) & set(kerned)}
    kerning, groups = S.script_kerning(rng, kdesc, per_script=rng.choice([1, 2, 3]))
    if chain:
        from vf.props.c05 import script_chain_kerning
        ck = script_chain_kerning(rng, desc, [])
        if ck:
            kerning, groups = ck
            kerned = list(scripts)
    if rng.random() < 0.3:
        neutral = [n for n, d in desc.items() if d["kind"] in ("common", "digit")
                   and n not in ("space", ".notdef") and set(d["script"]) <= {"Zyyy"}]
        letters = [n for n in kdesc if desc[n]["kind"] == "letter"]
        if neutral and letters:
            kerning.append([rng.choice(letters), rng.choice(neutral), -30])
        if len(neutral) >= 2 and rng.random() < 0.5:
            kerning.append([neutral[0], neutral[1], -15])
    # ---- digits of a script the font has no letters of (Arabic-Indic / Devanagari numerals in
    # a font without Arabic / Devanagari): their Script_Extensions name several scripts, none of
    # them supported - they are common glyphs here, whatever their Script property says
    stray_digits = None
    if not chain and rng.random() < 0.08:
        if not ({"Arab"} & set(scripts)):
            sd_ = [("zero-ar", 0x660), ("one-ar", 0x661)]
        elif not ({"Deva"} & set(scripts)):
            sd_ = [("zero-deva", 0x966), ("one-deva", 0x967)]
        else:
            sd_ = []
        sd_ = [(n_, u_) for n_, u_ in sd_ if n_ not in desc]
        if len(sd_) == 2:
            for n_, u_ in sd_:
                glyphs.append(S._spec(rng, n_, [u_]))
                desc[n_] = S.describe(n_, [u_], "digit")
                by_name[n_] = glyphs[-1]
            kerning.append([sd_[0][0], sd_[1][0], -20])
            mkeys_ = sorted({a["name"][1:] for g in glyphs for a in g["anchors"]
                             if a["name"].startswith("_") and not a["name"][1:].isdigit()})
            if mkeys_:
                # the digits take marks like any base
                for n_, _u in sd_:
                    by_name[n_]["anchors"].append({"name": mkeys_[0], "x": 250, "y": 620})
            letters_ = [n for n in desc if desc[n]["kind"] == "letter"]
            if letters_:
                kerning.append([rng.choice(letters_), sd_[0][0], -15])
            stray_digits = [n_ for n_, _ in sd_]
    # ---- a right-to-left script whose ONLY kerning is against a European digit: such pairs are
    # dropped by the kern writer (ambiguous direction), so the script must end up without any
    # generated kerning - and without a script entry made by the kern writer
    ambiguous_only = None
    rtl_unkerned = [s_ for s_ in scripts if s_ in S.RTL_SCRIPTS and s_ not in kerned]
    if rtl_unkerned and not chain and rng.random() < 0.6:
        s_ = rng.choice(rtl_unkerned)
        letters = [n for n, d in desc.items() if d["kind"] == "letter" and d["script"] == [s_]]
        digits = [n for n, d in desc.items() if d["unicodes"] and all(0x30 <= u <= 0x39 for u in d["unicodes"])]
        if not digits:
            glyphs.append(S._spec(rng, "one", [0x31]))
            desc["one"] = S.describe("one", [0x31], "digit")
            by_name["one"] = glyphs[-1]
            digits = ["one"]
        if letters:
            # (the writer builds its per-script lookups in the order the pairs come: first or last)
            at = 0 if rng.random() < 0.6 else len(kerning)
            kerning.insert(at, [rng.choice(letters), digits[0], -35])
            if rng.random() < 0.5:
                kerning.insert(at, [digits[0], rng.choice(letters), -25])
            ambiguous_only = s_
    # ---- an encoded source glyph of a foreign script that is NOT exported, next to a kerned
    # exported glyph whose script extensions include that foreign script
    skip_export, foreign = [], None
    if rng.random() < 0.14:
        from fontTools import unicodedata as ftud
        cands = []
        for mname, mu in MULTI_SCX:
            scx = set(ftud.script_extension(chr(mu)))
            mine = [s for s in scripts if s in scx]
            # (a glyph that belongs to scripts of both directions makes the kern writer fail;
            # that is C05's listed mechanism, kept out of this check)
            if not mine or mname in by_name or len({S.script_direction(x) for x in mine}) != 1:
                continue
            for fname, fu in FOREIGN:
                fs = set(ftud.script_extension(chr(fu)))
                if (len(fs) == 1 and fs <= scx and not (fs & set(scripts))
                        and S.script_direction(next(iter(fs))) == S.script_direction(mine[0])):
                    cands.append((mname, mu, fname, fu, mine))
        if cands:
            mname, mu, fname, fu, mine = rng.choice(cands)
            is_mark = ftud.category(chr(mu)).startswith("M")
            mg = S._spec(rng, mname, [mu], mark=is_mark)
            fg = S._spec(rng, fname, [fu])
            glyphs.extend([mg, fg])
            by_name[mname], by_name[fname] = mg, fg
            desc[mname] = S.describe(mname, [mu], "common")
            letters = [n for n, d in desc.items() if d["kind"] == "letter"
                       and set(d["script"]) & set(mine) and not d["mark"]]
            if letters:
                pair = [rng.choice(letters), mname]
                if rng.random() < 0.4:
                    pair.reverse()
                kerning.append(pair + [rng.choice([-40, -25, 30])])
            skip_export = [fname]
            foreign = {"multi": mname, "foreign": fname, "exported": rng.random() < 0.15}
            if foreign["exported"]:
                # control: the same glyph exported (and its script then has to be declared)
                skip_export = []
                desc[fname] = S.describe(fname, [fu], "letter")
                scripts = scripts + [ftud.script(chr(fu))]
    # ---- languagesystem layout
    # scripts that really take part in kerning (a double-encoded glyph brings its second script)
    kglyphs = set()
    for l, r_, _v in kerning:
        for side in (l, r_):
            kglyphs.update(groups.get(side, [side]))
    # (digits of a script the font has no letters of do not make that script 'kerned')
    kglyphs -= set(stray_digits or [])
    kscripts = sorted({sc for n in kglyphs for sc in desc[n]["script"]} - {"Zyyy", "Zinh"})
    all_tags = _tags(list(scripts) + kscripts)
    kerned_tags = _tags(kscripts)
    r = rng.random()
    if ambiguous_only and rng.random() < 0.5:
        r = 0.99       # (the script whose kerning is all dropped is most telling when undeclared)
    given_order = False
    if r < 0.70:
        stratum = "default"
        layout = rng.choice(["all", "all", "kerned"])
        tags = all_tags if layout == "all" else kerned_tags
        lsys = [("DFLT", "dflt")] + [(t, "dflt") for t in tags]
        if rng.random() < 0.35:
            for t in rng.sample(tags, rng.choice([1, len(tags)])):
                for l in rng.sample(EXTRA_LANGS.get(t, []), min(1, len(EXTRA_LANGS.get(t, [])))):
                    lsys.append((t, l))
            if rng.random() < 0.2:
                lsys.append(("DFLT", "ZZZ"))
            if rng.random() < 0.4:
                # statement order is the user's: a script's named language may be declared
                # before that script's dflt (only 'DFLT dflt' has to come first)
                rest = lsys[1:]
                rng.shuffle(rest)
                lsys = lsys[:1] + rest
                given_order = True
        if rng.random() < 0.15:
            lsys.append(("thai", "dflt"))          # declared, but nothing in the font
    else:
        stratum = "undeclared_script"
        layout = rng.choice(["none", "none", "DFLT_only", "some", "no_DFLT"])
        if layout == "none":
            lsys = None
        elif layout == "DFLT_only":
            lsys = [("DFLT", "dflt")]
        elif layout == "no_DFLT":
            lsys = [(t, "dflt") for t in all_tags]
        else:
            drop = set(rng.sample(kerned_tags, rng.randint(1, max(1, len(kerned_tags) - 1))))
            lsys = [("DFLT", "dflt")] + [(t, "dflt") for t in all_tags if t not in drop]
    text, rules = S.gsub_alternates(rng, desc, lsys, given_order=given_order)
    placeholders = []
    if lsys and rng.random() < 0.15:
        # comment-only '# Automatic Code' placeholder blocks right below the languagesystem list
        # (where the generated features are to go): they must still see EVERY declared system
        lines = text.split("\n")
        last = max((i for i, l in enumerate(lines) if l.startswith("languagesystem")), default=None)
        if last is not None:
            placeholders = rng.sample(["kern", "mark", "mkmk", "curs"], rng.randint(1, 3))
            rng.shuffle(placeholders)
            blocks = ["feature %s {\n    # Automatic Code\n} %s;" % (t, t) for t in placeholders]
            lines[last + 1:last + 1] = blocks
            text = "\n".join(lines)
    return {
        "placeholders": placeholders,
        "stratum": stratum,
        "layout": layout,
        "lib": rng.choice(["defcon", "ufoLib2"]),
        "scripts": scripts,
        "kerned_scripts": kerned,
        "ambiguous_only": ambiguous_only, "stray_digits": stray_digits,
        "variable": stratum == "default" and not skip_export and rng.random() < 0.1,
        "foreign": foreign,
        "ufo": {"glyphs": glyphs, "info": {"unitsPerEm": 1000, "familyName": "T", "styleName": "R",
                                           "ascender": 800, "descender": -200},
                "lib": ({"public.skipExportGlyphs": skip_export} if skip_export else {}),
                "features": text, "kerning": kerning, "groups": groups,
                "glyphOrder": None},
        "rules": rules,
    }


def sample_view(case):
    u = case["ufo"]
    return {"lib": case["lib"], "stratum": case["stratum"], "layout": case["layout"],
            "scripts": case["scripts"], "kerned_scripts": case["kerned_scripts"],
            "glyphs": [{"name": g["name"], "unicodes": g["unicodes"],
                        "anchors": [a["name"] for a in g["anchors"]]} for g in u["glyphs"]],
            "kerning": u["kerning"], "features": u["features"]}


# --------------------------------------------------------------------------- oracle

LS_RE = re.compile(r"^\s*languagesystem\s+(\S+)\s+(\S+?)\s*;", re.M)


def declared_languagesystems(text):
    """{scriptTag: set(langTags)} read from the user's feature text."""
    out = {}
    for s, l in LS_RE.findall(text or ""):
        out.setdefault(s.ljust(4), set()).add(l.ljust(4))
    return out


def run(case):
    import ufo2ft
    from fontTools.ttLib import TTFont

    spec = case["ufo"]
    stratum = case["stratum"]
    counters = {}

    def bump(k, n=1):
        counters[k] = counters.get(k, 0) + n
        if stratum == "default":
            counters["default_" + k] = counters.get("default_" + k, 0) + n

    if case.get("placeholders"):
        bump("fonts_with_placeholder_blocks_below_the_languagesystems")

    bump("cases")
    if case.get("stray_digits"):
        bump("digits_of_a_script_without_letters_in_the_font")
    if case.get("ambiguous_only"):
        bump("rtl_script_whose_only_kerning_is_dropped_as_ambiguous")
    if case.get("foreign"):
        counters["foreign_exported_control" if case["foreign"]["exported"]
                 else "foreign_skipped_cases"] = 1
    if stratum != "default":
        counters["known_stratum_cases"] = 1
    font = build_ufo(spec, case["lib"])
    try:
        if case.get("variable"):
            # the same font as the DEFAULT master of a two-master designspace in which it is not
            # the first source and the only one with a feature file (features are compatible:
            # layout is built as variable features from the default source's text)
            import copy
            from vf.build import build_designspace
            other = copy.deepcopy(spec)
            other["features"] = ""
            other["info"] = dict(other["info"], styleName="B")
            for g in other["glyphs"]:
                g["width"] = g["width"] + (10 if g["width"] else 0)
                for a in g["anchors"]:
                    a["x"] = a["x"] + 7
            other["kerning"] = [[l_, r_, v_ - 5] for l_, r_, v_ in other["kerning"]]
            ds = {"axes": [{"name": "Weight", "tag": "wght", "min": 400, "default": 400, "max": 700}],
                  "ufos": [spec, other],
                  "sources": [{"ufo": 1, "location": {"Weight": 700}, "name": "bold"},
                              {"ufo": 0, "location": {"Weight": 400}, "name": "regular"}]}
            doc, _ = build_designspace(ds, case["lib"])
            tt = ufo2ft.compileVariableTTF(doc, useProductionNames=False)
            bump("variable_font_default_source_not_first")
        else:
            tt = ufo2ft.compileTTF(font, useProductionNames=False)
        buf = io.BytesIO()
        tt.save(buf)
        buf.seek(0)
        tt = TTFont(buf)
        graph = otl.script_graph(tt, "GPOS")
        lks = {l["index"]: l for l in otl.lookups(tt, "GPOS")}
    except Exception:  # noqa: BLE001
        return {"status": "violated", "counters": counters, "violations": [
            {"mech": "unexpected_exception", "detail": {"trace": traceback.format_exc()[-3000:]}}]}
    if graph is None or not graph["scripts"]:
        bump("no_gpos_scripts")
        return {"status": "held", "counters": counters, "violations": [], "nontrivial": False}

    # ---- independent script membership of every glyph
    desc = S.desc_from_glyphs(spec["glyphs"], case["rules"])
    gscripts = S.closure(desc, case["rules"], S.key_scripts)
    present_tags = set(graph["scripts"])

    def belongs(glyph, tag):
        ss = gscripts.get(glyph, set())
        if tag == "DFLT":
            # script-neutral glyphs, and glyphs NONE of whose scripts has a script record of its
            # own (a glyph shared by several scripts is served by the records of those present)
            return (not ss) or all(not (set(S.ot_script_tags(s)) & present_tags) for s in ss)
        return any(tag in S.ot_script_tags(s) for s in ss)

    # ---- generated positioning lookups and the glyphs they act on
    pos = []          # (featureTag, lookupIndex, glyph set)
    seen = set()
    for ftag, lis in graph["features"]:
        if ftag not in POS_TAGS:
            continue
        for li in lis:
            if (ftag, li) in seen or li not in lks:
                continue
            seen.add((ftag, li))
            roles = otl.gpos_lookup_glyphs(lks[li])
            glyphs = set()
            for role, gs in roles.items():
                if role != "contextual":
                    glyphs |= gs
            pos.append((ftag, li, glyphs - {"*"}))
    feature_tags = {t for t, _ in graph["features"]}
    for t in POS_TAGS + KERN_TAGS:
        if t in feature_tags:
            bump("fonts_with_" + t)
    if len(case["scripts"]) > 1:
        bump("multi_script_cases")

    # generated kerning lookups and the glyphs they act on (the first sentence of the statement
    # is symmetric: a language system that exposes any generated positioning feature must expose
    # the generated kerning that acts on its script's glyphs as well)
    kern = []
    seen_k = set()
    for ftag, lis in graph["features"]:
        if ftag not in KERN_TAGS:
            continue
        for li in lis:
            if li in seen_k or li not in lks:
                continue
            seen_k.add(li)
            glyphs = set()
            for role, gs in otl.gpos_lookup_glyphs(lks[li]).items():
                if role != "contextual":
                    glyphs |= gs
            kern.append((li, glyphs - {"*"}))
    declared = declared_languagesystems(spec.get("features"))
    violations = []
    nontrivial = False
    # generated kerning that NO feature refers to (the feature files hold no GPOS of the user's:
    # every pair-positioning lookup in the font is a generated one and must be reachable)
    referenced = {li for _t, lis in graph["features"] for li in lis}
    for li, lk in sorted(lks.items()):
        if lk["type"] == 2 and li not in referenced:
            gl = set()
            for role, gs in otl.gpos_lookup_glyphs(lk).items():
                gl |= gs
            violations.append({"mech": "generated_kerning_lookup_in_no_feature", "detail": {
                "lookup": li, "glyphs": sorted(gl - {"*"})[:12]}})
        elif lk["type"] == 2:
            bump("kerning_lookups_referenced_by_a_feature")
    for tag, ent in sorted(graph["scripts"].items()):
        systems = []
        if ent["dflt"] is not None:
            systems.append(("dflt", ent["dflt"]))
        else:
            bump("scripts_without_default_langsys")
        systems += sorted(ent["langs"].items())
        for lang, idxs in systems:
            reach = otl.reachable(graph, idxs)
            if any(t in reach for t in POS_TAGS + KERN_TAGS):
                kreach = set()
                for k in KERN_TAGS:
                    kreach |= set(reach.get(k, ()))
                lost = []
                for li, glyphs in kern:
                    members = sorted(g for g in glyphs if belongs(g, tag))
                    if tag == "DFLT" and len(members) != len(glyphs):
                        # a script-neutral glyph kerned against a letter is that script's text
                        continue
                    if members and li not in kreach:
                        lost.append({"lookup": li, "glyphs_of_script": members[:6]})
                if kern:
                    bump("langsys_judged_for_kerning")
                if lost:
                    is_declared = lang.ljust(4) in declared.get(tag.ljust(4), set())
                    violations.append({
                        "mech": "langsys_lacks_generated_kerning",
                        "detail": {"script": tag, "language": lang,
                                   "declared_by_languagesystem": is_declared,
                                   "reachable_features": {k: sorted(v) for k, v in sorted(reach.items())},
                                   "missing": lost}})
            if not any(k in reach for k in KERN_TAGS):
                bump("langsys_without_kerning")
                continue
            if lang == "dflt":
                bump("scripts_judged")
                if "dist" in reach:
                    bump("dist_scripts_judged")
                if tag == "DFLT":
                    bump("DFLT_judged")
            else:
                bump("langsys_records_judged")
            missing, required = {}, {}
            for ftag, li, glyphs in pos:
                members = sorted(g for g in glyphs if belongs(g, tag))
                if not members:
                    continue
                required.setdefault(ftag, []).append(li)
                if li not in reach.get(ftag, ()):
                    missing.setdefault(ftag, []).append({"lookup": li, "glyphs_of_script": members[:6]})
            if lang == "dflt":
                if any(t in required for t in ("mark", "mkmk", "abvm", "blwm")):
                    if not any(t in missing for t in ("mark", "mkmk", "abvm", "blwm")):
                        bump("scripts_kern_and_mark")
                if "curs" in required:
                    bump("curs_required_scripts")
                if any(t in required for t in ("abvm", "blwm")):
                    bump("abvm_blwm_required_scripts")
                if "mkmk" in required:
                    bump("mkmk_required_scripts")
                if not required:
                    bump("scripts_judged_nothing_required")
            if required:
                nontrivial = True
            if missing:
                is_declared = lang.ljust(4) in declared.get(tag.ljust(4), set())
                violations.append({
                    "mech": "kern_script_lacks_positioning_" + ("declared" if is_declared
                                                                else "undeclared"),
                    "detail": {"script": tag, "language": lang, "declared_by_languagesystem": is_declared,
                               "reachable_features": {k: sorted(v) for k, v in sorted(reach.items())},
                               "missing": missing,
                               # glyphs of this script that the kerning reachable here acts on
                               "kerned_glyphs_of_script": sorted({
                                   g for li, glyphs in kern
                                   if any(li in reach.get(k, ()) for k in KERN_TAGS)
                                   for g in glyphs if belongs(g, tag)})[:8],
                               "script_list": {s: sorted(otl.reachable(graph, e["dflt"] or []))
                                               for s, e in sorted(graph["scripts"].items())},
                               "languagesystems": sorted((s, sorted(l)) for s, l in declared.items())}})
    if stratum == "default" and violations:
        bump("violating_cases")
    return {"status": "violated" if violations else "held", "violations": violations,
            "counters": counters, "nontrivial": nontrivial}


def classify(v, case):
    """The known mechanism: the failing script tag (resp. language system) has no `languagesystem`
    statement in the user's feature text, i.e. it exists in the ScriptList only through the
    kern/dist writer's explicit `script`/`language` statements, AND the compiled font really
    supports that script: it is DFLT, or some exported glyph (not in public.skipExportGlyphs) is
    encoded with a code point that belongs to that script alone.  A script tag that nothing in
    the compiled font or the feature text stands for is a different failure -> None."""
    if v.get("mech") == "langsys_lacks_generated_kerning":
        # feaLib quirk reached through the kern writer's 'script X; language dflt;' statements:
        # when the ONLY languagesystem statement of the file is 'X dflt', feaLib treats 'script X;'
        # as "nothing to do" (and keeps its internal script at DFLT), and the following 'language
        # dflt;' then selects (DFLT, dflt): the lookups land under DFLT.  Only a 'dist' block can
        # start with such a statement (a 'kern' block starts with 'script DFLT;').
        d = v["detail"]
        declared = declared_languagesystems(case["ufo"].get("features"))
        sole = len(declared) == 1 and list(declared) == [d["script"].ljust(4)] \
            and d["script"].strip() != "DFLT" and d["language"].strip() == "dflt"
        if sole and "dist" not in (d.get("reachable_features") or {}) \
                and "kern" not in (d.get("reachable_features") or {}):
            from ufo2ft.featureWriters.kernFeatureWriter import DIST_ENABLED_SCRIPTS
            from fontTools import unicodedata as ftud_
            if any(d["script"].ljust(4) in [t.ljust(4) for t in ftud_.ot_tags_from_script(sc)]
                   for sc in DIST_ENABLED_SCRIPTS):
                return "dist_kerning_of_sole_languagesystem_registered_under_DFLT"
        return None
    if not v.get("mech", "").startswith("kern_script_lacks_positioning"):
        return None
    from fontTools import unicodedata as ftud
    d = v["detail"]
    declared = declared_languagesystems(case["ufo"].get("features"))
    tag, lang = d["script"].ljust(4), d["language"].ljust(4)
    if tag in declared:
        # declared (possibly only with non-default languages): not the listed situation
        return None
    if tag == "DFLT":
        return KNOWN_KEY
    if not d.get("kerned_glyphs_of_script"):
        # the listed mechanism registers a script because it HAS kerning to deliver there; a
        # script entry whose generated kerning acts on none of its glyphs is something else
        return None
    skipped = set((case["ufo"].get("lib") or {}).get("public.skipExportGlyphs") or [])
    for g in case["ufo"]["glyphs"]:
        if g["name"] in skipped:
            continue
        for u in g.get("unicodes") or []:
            scx = set(ftud.script_extension(chr(u)))
            if len(scx) == 1 and tag in [t.ljust(4) for t in S.ot_script_tags(next(iter(scx)))]:
                return KNOWN_KEY
    return None
