"""Seeded generators for outlines and component graphs (plain random.Random, reproducible from
the serialised case)."""
import math

HALF = [0.5, -0.5, 1.5, -1.5, 2.5, -2.5, 10.5, -10.5, 99.5, -99.5, 100.5, -100.5, 250.5, -0.5]


def coord(rng, mode="mixed", big=False):
    """A coordinate from the hostile pool.  mode: 'int' | 'mixed' | 'dyadic'."""
    r = rng.random()
    lim = 16000 if big and rng.random() < 0.1 else 700
    base = rng.randint(-lim // 3, lim)
    if mode == "int" or r < 0.45:
        return base
    if r < 0.70:
        return base + 0.5            # exact half: a real tie (also negative halves)
    if mode == "dyadic" or r < 0.82:
        return base + rng.choice([0.25, 0.75, 0.125, 0.375, 0.625])
    if r < 0.9:
        return round(base + rng.random(), 3)
    if r < 0.95:
        return rng.choice(HALF)
    return base + rng.random()


def contour(rng, mode="mixed", kinds=("line", "curve", "qcurve"), closed=None, big=False,
            max_seg=8, allow_degenerate=True):
    """One contour in UFO point-pen form: list of [x, y, segmentType|None, smooth]."""
    if closed is None:
        closed = rng.random() < 0.9
    r = rng.random()
    if allow_degenerate and r < 0.02:
        # single on-curve point (anchor-like) contour
        return [[coord(rng, mode), coord(rng, mode), "move", False]]
    if allow_degenerate and r < 0.05 and "qcurve" in kinds and closed:
        # all-off-curve quadratic contour
        n = rng.randint(2, 5)
        return [[coord(rng, mode, big), coord(rng, mode, big), None, False] for _ in range(n)]
    nseg = rng.randint(2, max_seg)
    pts = []
    for i in range(nseg):
        k = rng.choice(kinds)
        if i == 0 and not closed:
            pts.append([coord(rng, mode, big), coord(rng, mode, big), "move", False])
            continue
        if k == "line":
            pts.append([coord(rng, mode, big), coord(rng, mode, big), "line", False])
        elif k == "curve":
            pts.append([coord(rng, mode, big), coord(rng, mode, big), None, False])
            pts.append([coord(rng, mode, big), coord(rng, mode, big), None, False])
            pts.append([coord(rng, mode, big), coord(rng, mode, big), "curve",
                        rng.random() < 0.3])
        else:
            for _ in range(rng.choice([1, 1, 1, 2, 3])):
                pts.append([coord(rng, mode, big), coord(rng, mode, big), None, False])
            pts.append([coord(rng, mode, big), coord(rng, mode, big), "qcurve",
                        rng.random() < 0.3])
    if allow_degenerate and rng.random() < 0.08 and len(pts) > 1:
        # duplicate consecutive on-curve point (zero-length segment)
        ons = [i for i, p in enumerate(pts) if p[2] == "line"]
        if ons:
            i = rng.choice(ons)
            prev = pts[i - 1]
            if prev[2] is not None:
                pts[i][0], pts[i][1] = prev[0], prev[1]
    if allow_degenerate and closed and rng.random() < 0.06 and pts[-1][2] == "line":
        # explicit closing point equal to the first on-curve point
        first = next((p for p in pts if p[2] is not None), None)
        if first is not None and first is not pts[-1]:
            pts[-1][0], pts[-1][1] = first[0], first[1]
    if closed and rng.random() < 0.5:
        # rotate start so that contours may begin with off-curve points
        k = rng.randrange(len(pts))
        pts = pts[k:] + pts[:k]
    return pts


def axis_aligned_contour(rng):
    """Rectilinear closed contour with collinear points (exercises h/v line merging)."""
    x, y = rng.randint(-50, 300), rng.randint(-50, 300)
    pts = [[x, y, "line", False]]
    horiz = True
    for _ in range(rng.randint(3, 8)):
        d = rng.choice([-120, -40, 30, 55, 130, 0])
        if horiz:
            x += d
        else:
            y += d
        pts.append([x, y, "line", False])
        if rng.random() < 0.65:
            horiz = not horiz
    return pts


DYADIC_SCALES = [0.5, 2, 1.5, 0.25, 0.75, 1.25, -1, -0.5, 1, 1, 3]


def transform(rng, mode="mixed"):
    """Affine 6-tuple.  'dyadic': exactly representable, so x.5 outcomes are real ties."""
    r = rng.random()
    dx = rng.choice([0, rng.randint(-300, 300), rng.randint(-300, 300) + 0.5])
    dy = rng.choice([0, rng.randint(-300, 300), rng.randint(-300, 300) + 0.5])
    if r < 0.25:
        return [1, 0, 0, 1, dx, dy]
    if mode == "tt":
        # TrueType component matrices: entries representable as F2Dot14 (|v| < 2) except for a
        # small overflow stratum
        if r < 0.6:
            sc = [0.5, 1.5, 0.25, 0.75, 1.25, -1, -0.5, 1, 1]
            xx, yy = rng.choice(sc), rng.choice(sc)
            xy = rng.choice([0, 0, 0, 0.5, -0.25])
            yx = rng.choice([0, 0, 0, 0.25, -0.5])
            if xx * yy - xy * yx == 0:
                xy = yx = 0
            return [xx, xy, yx, yy, dx, dy]
        if r < 0.7:
            return [-1, 0, 0, 1, dx, dy]
        if r < 0.78:
            return [0, 1, -1, 0, dx, dy]
        if r < 0.97:
            a = math.radians(rng.choice([10, 30, 45, 123.4, -77]))
            s_ = rng.choice([1, 0.8, 1.3])
            return [s_ * math.cos(a), s_ * math.sin(a), -s_ * math.sin(a), s_ * math.cos(a), dx, dy]
        return [rng.choice([2, 3, -2.5]), 0, 0, rng.choice([1, 2]), dx, dy]
    if r < 0.55 or mode == "dyadic":
        xx, yy = rng.choice(DYADIC_SCALES), rng.choice(DYADIC_SCALES)
        xy = rng.choice([0, 0, 0, 0.5, -0.25])
        yx = rng.choice([0, 0, 0, 0.25, -0.5])
        if xx * yy - xy * yx == 0:
            xy = yx = 0
        return [xx, xy, yx, yy, dx, dy]
    if r < 0.65:
        return [-1, 0, 0, 1, dx, dy]      # mirror, negative determinant
    if r < 0.72:
        return [0, 1, -1, 0, dx, dy]      # 90 degrees
    if r < 0.87:
        a = math.radians(rng.choice([10, 30, 45, 123.4, -77]))
        s = rng.choice([1, 0.8, 1.3])
        return [s * math.cos(a), s * math.sin(a), -s * math.sin(a), s * math.cos(a), dx, dy]
    xx, yy = rng.uniform(-1.9, 1.9), rng.uniform(-1.9, 1.9)
    xy, yx = rng.uniform(-0.9, 0.9), rng.uniform(-0.9, 0.9)
    if abs(xx * yy - xy * yx) < 1e-3:
        xy = yx = 0
        xx = xx or 1
        yy = yy or 1
    return [xx, xy, yx, yy, dx, dy]


def glyph_names(rng, n):
    pool = ["a", "b", "c", "d", "e", "f", "g", "h", "i", "j", "k", "l", "m", "n", "o", "p", "q",
            "A", "B", "C", "D", "E", "agrave", "a.alt", "f_i", "zero", "one", "period", "comma",
            "x.sc", "y.ss01", "Z", "acutecomb", "space", "hyphen", "uni0431", "T_h.liga"]
    rng.shuffle(pool)
    return pool[:n]


def component_font(rng, n_glyphs=None, mode="mixed", kinds=("line", "curve", "qcurve"),
                   max_depth=5, width_mode="mixed", with_notdef=None, tmode=None,
                   allow_degenerate=True, big=False, max_seg=8):
    """Glyph specs forming a component DAG: glyph i may only reference glyphs j < i."""
    n = n_glyphs or rng.randint(3, 14)
    names = glyph_names(rng, n)
    if with_notdef is None:
        with_notdef = rng.random() < 0.4
    if with_notdef:
        names[rng.randrange(n)] = ".notdef"
    glyphs = []
    depth = {}
    cp = 0x61
    for i, name in enumerate(names):
        g = {"name": name, "contours": [], "components": [], "anchors": [], "unicodes": []}
        r = rng.random()
        w = rng.randint(0, 1200)
        if width_mode == "mixed":
            q = rng.random()
            if q < 0.2:
                w = w + 0.5
            elif q < 0.3:
                w = round(w + rng.random(), 2)
            elif q < 0.5:
                w = 600          # equal advances (defaultWidthX / nominalWidthX paths)
            elif q < 0.55:
                w = 0
        g["width"] = w
        if name != ".notdef" and rng.random() < 0.7:
            g["unicodes"] = [cp]
            cp += 1
        kind = "simple"
        if i > 0 and r < 0.45:
            kind = "composite"
        elif i > 0 and r < 0.6:
            kind = "mixed"
        elif r < 0.65:
            kind = "empty"
        if kind in ("simple", "mixed"):
            for _ in range(rng.randint(1, 3)):
                if rng.random() < 0.12:
                    g["contours"].append(axis_aligned_contour(rng))
                else:
                    g["contours"].append(contour(rng, mode, kinds, big=big, max_seg=max_seg,
                                                 allow_degenerate=allow_degenerate))
        d = 0
        if kind in ("composite", "mixed"):
            cands = [j for j in range(i) if depth[names[j]] < max_depth]
            for _ in range(rng.randint(1, 3)):
                if not cands:
                    break
                # bias towards deep bases so that nesting depth >= 3 happens
                j = max(rng.choice(cands), rng.choice(cands)) if rng.random() < 0.6 else rng.choice(cands)
                g["components"].append({"base": names[j], "t": transform(rng, tmode or mode)})
                d = max(d, depth[names[j]] + 1)
        depth[name] = d
        glyphs.append(g)
    return glyphs
